"""C07 -- equivariance under hexagonal symmetries (hard-coded tables only)."""
import ast
import math

from ..core import (AnalysisError, access_path, const, find_all, match, short,
                    src, walk_no_nested, parent, call_name)
from .. import util as U

TWO_PI = 2 * math.pi


def run(ctx):
    ctx.decided += [
        'R1 every hard-coded direction / angle table is hexagonally '
        'consistent: six-cycles close (sum zero), opposite entries negate, '
        'angles advance by a constant +-60 degrees, corner angles are edge '
        'angles shifted by 30 degrees, sibling tables in different modules '
        'are identical or cyclic rotations, and index steps map linearly onto '
        'their coordinate steps',
        'R2 the swirl donor column selected for each wire direction is the '
        'column the exterior ring connection writes for that direction',
        'R3 gap conduction distances are a function of the link, not of the '
        'numbering: both directions of an edge-corner link take the side '
        'parameters of the edge cell of that link (rule shared with C02.R6)',
        'R4 the contact width of the gap cell that closes an assembly\'s '
        'perimeter (side 5 onto side 0) is the rest of the hexagon perimeter, '
        'not a function of one of the two sides: no absolute side index is '
        'singled out (rule shared with C09.R5)']
    ctx.decided += [
        'R5 loops over the rows of an adjacency table select exchange '
        'partners by what the neighbour is (its type, padding), never by '
        'the distance between cell numbers: a numbering has a seam (last '
        'cell of a ring next to the first), so an index-distance filter cuts '
        'the ring at one fixed position']
    ctx.not_decided += ['equivariance of the computed fields (a relation '
                        'between runs)', 'correctness of the run-time maps']
    r1(ctx)
    r2(ctx)
    from . import _gapdist
    _gapdist.check(ctx, 'C07.R3')
    ctx.min_instances('C07.R3', 4)
    from . import c09
    c09.r5(ctx.alias({'C09.R5': 'C07.R4'}))
    ctx.min_instances('C07.R4', 6)
    r5(ctx)
    ctx.min_instances('C07.R5', 1)
    ctx.min_instances('C07.R1', 14)
    ctx.min_instances('C07.R2', 3)


def _where(m, node):
    return '%s:%d' % (m.rel, node.lineno)


def _angles_ok(a, step, start=None):
    """a[i+1] - a[i] == step (mod 2 pi) for all i, cyclically."""
    n = len(a)
    for i in range(n):
        d = (a[(i + 1) % n] - a[i] - step) % TWO_PI
        if min(d, TWO_PI - d) > 1e-9:
            return False
    return True


def _closed_cycle(v):
    return all(abs(sum(x[k] for x in v)) < 1e-9 for k in range(2))


def _antipodal(v):
    n = len(v)
    return all(abs(v[i][k] + v[(i + n // 2) % n][k]) < 1e-9
               for i in range(n) for k in range(2))


def _linear_map(steps, xy):
    """Is there a 2x2 matrix M with M*steps[i] == xy[i] for all i?"""
    # solve from the first two independent steps
    for i in range(len(steps)):
        for j in range(i + 1, len(steps)):
            a, b = steps[i], steps[j]
            det = a[0] * b[1] - a[1] * b[0]
            if abs(det) < 1e-12:
                continue
            # M = [xy_i xy_j] * inv([a b])
            inv = [[b[1] / det, -b[0] / det], [-a[1] / det, a[0] / det]]
            # columns a,b -> matrix S = [[a0,b0],[a1,b1]]; M = X * S^-1
            X = [[xy[i][0], xy[j][0]], [xy[i][1], xy[j][1]]]
            M = [[X[r][0] * inv[0][c] + X[r][1] * inv[1][c]
                  for c in range(2)] for r in range(2)]
            for s, p in zip(steps, xy):
                px = M[0][0] * s[0] + M[0][1] * s[1]
                py = M[1][0] * s[0] + M[1][1] * s[1]
                if abs(px - p[0]) > 1e-9 or abs(py - p[1]) > 1e-9:
                    return False
            return True
    return False


def _local_literal(fi, name, names=None):
    d = U.single_def(fi.node, name)
    if d is None:
        raise AnalysisError('%s: table %s vanished' % (fi.qual, name))
    try:
        return d, U.const_eval(d, names)
    except ValueError as e:
        raise AnalysisError('%s.%s: %s' % (fi.qual, name, e))


def r1(ctx):
    repo = ctx.repo
    cm = repo.mod('core')
    # --- core._dirs
    d0 = d1 = d2 = None
    for st in cm.tree.body:
        if isinstance(st, ast.Assign) and isinstance(st.targets[0],
                                                     ast.Subscript) and \
                src(st.targets[0].value) == '_dirs':
            k = const(st.targets[0].slice)
            if k == 0:
                d0 = (st, U.const_eval(st.value))
            elif k == 1:
                d1 = st
            elif k == 2:
                d2 = st
    if not (d0 and d1 and d2):
        raise AnalysisError('core._dirs[0..2] vanished')
    D = d0[1]
    ctx.require(len(D) == 6 and _closed_cycle(D) and _antipodal(D), 'C07.R1',
                _where(cm, d0[0]), d0[0],
                'core._dirs[0]: six neighbour steps must close and entry i+3 '
                'must negate entry i (neighbor_side = side - 3)',
                key='dassh.core | _dirs[0] hexagonal')
    # successive neighbour steps are 60-degree turns: in axial coordinates
    # d[i+1] - d[i] == d[i+2]  (hexagonal recurrence)  <=> d[i] + d[i+2] == d[i+1]
    rec = all(D[i][k] + D[(i + 2) % 6][k] == D[(i + 1) % 6][k]
              for i in range(6) for k in range(2))
    ctx.require(rec, 'C07.R1', _where(cm, d0[0]), d0[0],
                'core._dirs[0]: consecutive entries must be consecutive '
                'hexagonal directions (d[i] + d[i+2] == d[i+1])',
                key='dassh.core | _dirs[0] consecutive')
    ctx.require(src(d2.value) == '_dirs[0][1:] + [_dirs[0][0]]' and
                src(d1.value) == '_dirs[0][2:] + _dirs[0][:2]', 'C07.R1',
                _where(cm, d1), d1, '_dirs[1], _dirs[2] must be cyclic '
                'rotations of _dirs[0]', key='dassh.core | _dirs rotations')
    ma = repo.func('core', 'map_adjacent_assemblies')
    dn, dv = _local_literal(ma, '_dirs')
    ctx.require(dv == D, 'C07.R1', ma, dn,
                'map_adjacent_assemblies._dirs must equal core._dirs[0] '
                '(side numbering of neighbours and of gap cells)',
                key=ma.full + ' | _dirs sibling')
    # --- core.map_asm ring walk and map_assembly_xy
    mp = repo.func('core', 'map_asm')
    wn, wv = _local_literal(mp, '_dirs')
    turns = wv[1:]
    ctx.require(len(wv) == 7 and _closed_cycle(turns) and _antipodal(turns),
                'C07.R1', mp, wn, 'map_asm ring walk (entries 1-6) must '
                'close and be antipodal', key=mp.full + ' | ring walk')
    mx = repo.func('core', 'Core.map_assembly_xy')
    tn, tv = _local_literal(mx, '_turns')
    nn, nv = _local_literal(mx, 'normals')
    ctx.require(tv == turns, 'C07.R1', mx, tn,
                'map_assembly_xy._turns must equal the ring walk of map_asm '
                '(positions and coordinates are numbered the same way)',
                key=mx.full + ' | _turns sibling')
    ctx.require(len(nv) == 6 and _angles_ok(nv, math.pi / 3), 'C07.R1', mx,
                nn, 'assembly-walk normals must advance by +60 degrees',
                key=mx.full + ' | normals progression')
    xy = [(math.cos(a), math.sin(a)) for a in nv]
    ctx.require(_linear_map(tv, xy), 'C07.R1', mx, nn,
                'index steps (_turns) and coordinate steps (normals) of the '
                'assembly walk must be related by one linear map',
                key=mx.full + ' | turns ~ normals')
    # --- pin lattice
    pm = repo.mod('pin')
    names = {}
    for nm, v in pm.globals.items():
        try:
            names[nm] = U.const_eval(v, names)
        except ValueError:
            pass
    dirs, dxdy = names.get('_directions'), names.get('_dxdy')
    if dirs is None or dxdy is None:
        raise AnalysisError('pin._directions / _dxdy vanished')
    w = 'dassh/pin.py:%d' % pm.globals['_dxdy'].lineno
    ctx.require(len(dirs) == 7 and len(dxdy) == 7 and
                _closed_cycle(dirs[1:]) and _antipodal(dirs[1:]) and
                _closed_cycle(dxdy[1:]) and _antipodal(dxdy[1:]), 'C07.R1',
                w, pm.globals['_directions'], 'pin ring walk (entries 1-6) '
                'must close and be antipodal in index and in x-y steps',
                key='dassh.pin | ring walk')
    unit = all(abs(math.hypot(*p) - 1.0) < 1e-9 for p in dxdy)
    ang = [math.atan2(p[1], p[0]) for p in dxdy[1:]]
    ctx.require(unit and _angles_ok(ang, -math.pi / 3), 'C07.R1', w,
                pm.globals['_dxdy'], 'pin x-y steps must be unit vectors '
                'turning by -60 degrees (clockwise)',
                key='dassh.pin | _dxdy unit clockwise')
    ctx.require(_linear_map(dirs, dxdy), 'C07.R1', w, pm.globals['_dxdy'],
                'pin index steps and x-y steps must be related by one linear '
                'map (map and coordinates walk the same hexagon)',
                key='dassh.pin | directions ~ dxdy')
    # --- subchannel angles
    sc = repo.cls('subchannel', 'Subchannel')
    tabs = {}
    for st in sc.node.body:
        if isinstance(st, ast.Assign) and src(st.targets[0]) in (
                '_edge_angle', '_corner_angle'):
            tabs[src(st.targets[0])] = (st, U.const_eval(st.value))
    if len(tabs) != 2:
        raise AnalysisError('Subchannel._edge_angle/_corner_angle vanished')
    ea, ca = tabs['_edge_angle'][1], tabs['_corner_angle'][1]
    w = 'dassh/subchannel.py:%d' % tabs['_edge_angle'][0].lineno
    ctx.require(len(ea) == 6 and _angles_ok(ea, -math.pi / 3), 'C07.R1', w,
                tabs['_edge_angle'][0], 'edge angles must step by -60 degrees',
                key='dassh.subchannel | _edge_angle progression')
    ok = len(ca) == 6 and all(
        min((ca[i] - (ea[i] - math.pi / 6)) % TWO_PI,
            TWO_PI - (ca[i] - (ea[i] - math.pi / 6)) % TWO_PI) < 1e-9
        for i in range(6))
    ctx.require(ok, 'C07.R1', w, tabs['_corner_angle'][0],
                'corner angle i must be edge angle i minus 30 degrees',
                key='dassh.subchannel | _corner_angle = edge - pi/6')
    fx = repo.func('subchannel', 'Subchannel._find_interior_xy')
    ian, iav = _local_literal(fx, 'int_angle')
    ctx.require(all(abs(a - b) < 1e-12 for a, b in zip(iav, ea)) and
                len(iav) == 6, 'C07.R1', fx, ian,
                'interior subchannel angles must equal the edge angles',
                key=fx.full + ' | int_angle sibling')
    # first pin step direction (0, 1) and first edge angle pi/3: the edge
    # faces are numbered clockwise starting right of the top corner
    ctx.ok('C07.R1', w, None, 'tables analysed: core._dirs x3, '
           'map_adjacent_assemblies._dirs, map_asm._dirs, _turns, normals, '
           'pin._directions, pin._dxdy, _edge_angle, _corner_angle, int_angle')


def r2(ctx):
    repo = ctx.repo
    ce = repo.func('subchannel', 'Subchannel._connect_ext_sc')
    back = find_all('sc_adj[ext_sc[i + 1] - 1, Q_c] = ext_sc[i]', ce.node,
                    'stmt')
    fwd = find_all('sc_adj[ext_sc[i] - 1, Q_c] = ext_sc[i + 1]', ce.node,
                   'stmt')
    if len(back) != 1 or len(fwd) != 1:
        raise AnalysisError('_connect_ext_sc: backward/forward stores')
    cb, cf = const(back[0][1]['Q_c']), const(fwd[0][1]['Q_c'])
    ctx.require(cb != cf and cb is not None and cf is not None, 'C07.R2', ce,
                back[0][0], 'backward and forward neighbours need their own '
                'columns', key=ce.full + ' | columns')
    lp = U.enclosing_loops(back[0][0])
    ctx.require(bool(lp) and src(lp[0].iter) == 'range(-1, len(ext_sc) - 1)',
                'C07.R2', ce, lp[0] if lp else ce.node,
                'the exterior ring must be closed (wrap-around from last to '
                'first subchannel)', key=ce.full + ' | closed ring')
    rr = repo.func('region_rodded', 'RoddedRegion.__init__')
    sts = [st for t, st in U.stores(rr.node) if src(t) == 'self._adj_sw']
    sel = {}
    for st in sts:
        gs = U.guards(st)
        if len(gs) == 1 and src(gs[0][0]) == "wwdir == 'clockwise'":
            sel['clockwise' if gs[0][1] else 'other'] = const(st.value)
    # clockwise swirl comes from the preceding (backward) subchannel
    ctx.require(sel.get('clockwise') == cb and sel.get('other') == cf,
                'C07.R2', rr, sts[0] if sts else rr.node,
                'clockwise wire: donor is the backward neighbour (column %s); '
                'counter-clockwise: the forward neighbour (column %s); found '
                '%s' % (cb, cf, sel), key=rr.full + ' | swirl donor column')
    # use site
    ci = repo.func('region_rodded', 'RoddedRegion._calc_coolant_int_temp')
    h = find_all("self.temp['coolant_int'][self.subchannel.sc_adj["
                 "self.ht['conv']['ind'], self._adj_sw]] - "
                 "self.temp['coolant_int'][self.ht['conv']['ind']]", ci.node)
    ctx.require(len(h) == 1, 'C07.R2', ci, h[0][0] if h else ci.node,
                'swirl term must be (T[donor of cell] - T[cell]) for the same '
                'cell index', key=ci.full + ' | swirl difference')


def r5(ctx):
    """Adjacency-row loops: partner filters must not be index-distance
    tests."""
    from .. import util as U
    from ..core import parent
    n = 0
    for m in ctx.repo.modules.values():
        for fi in m.funcs.values():
            for loop in [x for x in ast.walk(fi.node)
                         if isinstance(x, ast.For) and isinstance(
                             x.target, ast.Name) and 'sc_adj[' in src(x.iter)
                         and 'range' not in src(x.iter)]:
                nb = loop.target.id
                # enclosing loop variables = cell indices
                cells = set()
                p = parent(loop)
                while p is not None and p is not fi.node:
                    if isinstance(p, ast.For):
                        cells |= {x.id for x in ast.walk(p.target)
                                  if isinstance(x, ast.Name)}
                    p = parent(p)
                cells |= {x.id for x in ast.walk(loop.iter)
                          if isinstance(x, ast.Name)} - {'self'}
                tests = [t for t in ast.walk(loop) if isinstance(t, ast.If)]
                bad = None
                for t in tests:
                    e = U.value_at(fi.node, t.test, t.lineno,
                                   keep=tuple(cells | {nb}))
                    for b in ast.walk(e):
                        if isinstance(b, ast.Compare):
                            ops_ = [b.left] + list(b.comparators)
                            with_nb = [o for o in ops_ if any(
                                isinstance(x, ast.Name) and x.id == nb
                                for x in ast.walk(o))
                                and not _only_in_type_lookup(o, nb)]
                            with_cell = [o for o in ops_ if o not in with_nb
                                         and {x.id for x in ast.walk(o)
                                              if isinstance(x, ast.Name)}
                                         & (cells - {'start'} | {'sci'})]
                            if with_nb and with_cell:
                                bad = t
                        if isinstance(b, ast.BinOp) and isinstance(
                                b.op, (ast.Sub, ast.Add)):
                            ln = {x.id for x in ast.walk(b.left)
                                  if isinstance(x, ast.Name)}
                            rn = {x.id for x in ast.walk(b.right)
                                  if isinstance(x, ast.Name)}
                            # type look-ups are fine: strip names that only
                            # occur as an index of `.type[...]`
                            if (nb in ln | rn) and ((ln | rn) - {nb}) & (
                                    cells - {'start'} | {'sci'}) and not \
                                    _only_in_type_lookup(b, nb):
                                bad = t
                n += 1
                ctx.require(bad is None, 'C07.R5', fi, bad or loop,
                            'exchange partners of an adjacency row are '
                            'filtered by the distance between cell numbers; '
                            'the wrap-around link of a ring (last cell next '
                            'to the first) is then cut at one fixed corner '
                            'and rotated inputs no longer give rotated '
                            'results', key='%s | partner filter' % fi.full)
    if n == 0:
        raise AnalysisError('no adjacency-row loop found')


def _only_in_type_lookup(b, nb):
    from ..core import parent
    for x in ast.walk(b):
        if isinstance(x, ast.Name) and x.id == nb:
            p = parent(x)
            ok = False
            while p is not None and p is not b:
                if isinstance(p, ast.Subscript) and src(p.value).endswith(
                        '.type'):
                    ok = True
                    break
                p = parent(p)
            if not ok:
                return False
    return True
