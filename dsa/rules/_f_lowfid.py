"""C02.R8 -- low-fidelity regions exchange with their duct wall exactly the heat
the wall solution assumes (the clause of C01.R8 `wall heat = wall flux`,
reported under C02 as well: the duct wall hands the difference on to the
inter-assembly gap, so a coolant-side factor breaks the core balance)."""
PROPS = ('C02',)


def run(ctx):
    from . import c01
    n = c01.lowfid_wall_flux(ctx, 'C02.R8')
    ctx.decided.append(
        'R8 low-fidelity regions: the wall heat entering a coolant node is '
        'the inner-surface flux of the wall solution x wall length on both '
        'convection branches (%d obligations, exact algebra)' % n)
