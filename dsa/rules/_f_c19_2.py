"""C19.R9 -- every subfactor row of a hot-channel-factor table enters the block
named by its OWN Type cell, and every dT-dependent expression is keyed by its
own type, the index of its row INSIDE that block, and its own column.

Clause.  `calculate_temps` multiplies the rows of `hcf['direct']` into the
0-sigma temperature rises (sigma-independent biases) and combines the rows of
`hcf['statistical']` by root-sum-square, scaled with OUT_sigma / IN_sigma.
"Never below nominal, increasing with the output confidence level, inversely
proportional to the stated input confidence level" therefore needs, for every
admissible table -- nothing documents a row order; the reader types each row
by its own `Type` cell -- that

  (a) the block returned under K in ('direct', 'statistical') consists of
      exactly the table rows labelled K (every numeric cell in its own
      column, the NaN placeholder where the cell holds an expression), and
  (b) every expression cell of a row labelled K in column c is returned once,
      under a key (K, r, c) such that row r of block K is *that* row
      (`_evaluate_hcf_expr` writes the evaluated expression to
      `hcf[K][:, r, c]`: a foreign key overwrites another subfactor and
      leaves the NaN placeholder in place).

Decision.  Values, not source forms: `_read_hcf_table` (with the module-level
helpers it calls) is evaluated by the checker's own finite-domain evaluator
(`dsa/finite.py`, extended here by models of text files, `str` methods and
small NumPy arrays; nothing of /repo is imported or executed) on a family of
*model tables*: every sequence of row types of length 2..4 that contains both
types (22 orders: direct first, statistical first, interleaved), for every
table width the header check admits, without and with expression cells.  All
cells of a model table are pairwise distinct, so the origin of every returned
value is unambiguous.  The returned pair is compared with (a) and (b); rows
may come in any order inside a block as long as the expression keys follow
them.  A mismatch is reported at the statement that stored the offending
block / key, with the smallest model table that shows it.
"""
import ast
import itertools

from ..core import AnalysisError, src
from .. import finite as F

PROPS = ('C19',)
RULE = 'C19.R9'
MOD = 'hotspot'
READER = '_read_hcf_table'
TYPES = ('direct', 'statistical')
HEADER = ['Subfactor', 'Type', 'Coolant', 'Film', 'Cladding', 'Gap', 'Fuel']
MAX_ROWS = 4
MIN_TABLES = 40


def _s(n):
    return ' '.join(src(n).split())


# ---------------------------------------------------------------------------
# values of the model

class _Nan:
    def __repr__(self):
        return 'nan'


class _Unset:
    def __repr__(self):
        return '<uninitialised>'


NAN = _Nan()        # the placeholder np.nan (one object: identity = equality)
UNSET = _Unset()    # a cell of np.empty() that was never written


class Arr(list):
    """A NumPy array (nested): arithmetic on it is not modelled, so `+` is
    never mistaken for list concatenation.  `detached` marks a result that
    NumPy returns as a *view* but the model had to copy (column slices): a
    store through it is not modelled (analysis error, never a wrong value).
    """
    detached = False


class Lam:
    """A lambda with the environment it was written in (read at the call,
    as in the language)."""
    def __init__(self, node, env):
        self.node, self.env = node, env


class TextFile(list):
    """An opened text file: iterating gives its lines (with line ends)."""
    def __init__(self, content):
        list.__init__(self, content.splitlines(True))
        self.content = content


STR_METHODS = ('splitlines', 'split', 'rsplit', 'count', 'lower', 'upper',
               'strip', 'lstrip', 'rstrip', 'startswith', 'endswith',
               'replace', 'find', 'index', 'title', 'capitalize', 'casefold',
               'partition', 'rpartition', 'isdigit', 'isalpha', 'isspace',
               'removeprefix', 'removesuffix')

NAN_NAMES = ('np.nan', 'numpy.nan', 'np.NaN', 'np.NAN', 'math.nan')


def _shape_arg(a):
    if isinstance(a, int) and not isinstance(a, bool):
        return (a,)
    if isinstance(a, (tuple, list)) and a and all(
            isinstance(x, int) and not isinstance(x, bool) and x >= 0
            for x in a) and len(a) <= 2:
        return tuple(a)
    raise F.Unsupported('array shape %r' % (a,))


def _filled(shape, v):
    shape = _shape_arg(shape)
    if len(shape) == 1:
        return Arr([v] * shape[0])
    return Arr(Arr([v] * shape[1]) for _ in range(shape[0]))


def _deep(x, arr=True):
    """A fresh copy (rows included) -- as an array unless the value is a
    plain list being copied as a list."""
    if isinstance(x, (list, tuple)):
        r = [_deep(v, arr) for v in x]
        return Arr(r) if arr else r
    return x


def _is_int(v):
    return isinstance(v, int) and not isinstance(v, bool)


class TableEval(F.Evaluator):
    """finite.Evaluator + text files, str methods, small arrays (nested
    lists; a row slice shares its row objects with the array it was taken
    from, like a NumPy view), defaults / keywords of package helpers, and a
    record of the statement that last stored each dictionary entry."""

    def __init__(self, defs, content, literals):
        F.Evaluator.__init__(self, literals, set(defs), fuel=400000,
                             defs=defs)
        self.content = content
        self.stmts = []         # statement stack (innermost last)
        self.fns = []           # function stack
        self.sites = {}         # (id(dict), key) -> (FunctionDef, stmt)
        self.keep = []          # keeps the dicts alive (ids stay unique)

    # -- bookkeeping ---------------------------------------------------------
    def _note(self, d, key):
        if self.stmts:
            self.keep.append(d)
            self.sites[(id(d), key)] = (self.fns[-1] if self.fns else None,
                                        self.stmts[-1])

    def site(self, d, key):
        return self.sites.get((id(d), key))

    # -- expressions ---------------------------------------------------------
    def ev(self, n, env):
        if isinstance(n, ast.Attribute):
            t = ast.unparse(n)
            if t in NAN_NAMES:
                return NAN
            base = self.ev(n.value, env)
            if isinstance(base, list) and n.attr == 'shape':
                return self._shape(base)
            if isinstance(base, list) and n.attr == 'ndim':
                return len(self._shape(base))
            if isinstance(base, list) and n.attr == 'size':
                sh = self._shape(base)
                return sh[0] * (sh[1] if len(sh) > 1 else 1)
            if isinstance(base, list) and n.attr == 'T':
                raise F.Unsupported('transposed array')
            if isinstance(base, F.ModuleRef):
                return F.MemberRef(base.name, n.attr)
            return F.OPAQUE
        if isinstance(n, ast.Subscript):
            return self._load(n, env)
        if isinstance(n, ast.Dict):
            d = F.Evaluator.ev(self, n, env)
            for k in d:
                self._note(d, k)
            return d
        if isinstance(n, ast.DictComp):
            d = {}
            for e2 in self._gen_envs(n.generators, env):
                k = self._hashable(self.ev(n.key, e2))
                d[k] = self.ev(n.value, e2)
                self._note(d, k)
            return d
        if isinstance(n, ast.Lambda):
            a = n.args
            if a.vararg or a.kwarg or a.kwonlyargs or a.posonlyargs or \
                    a.defaults:
                raise F.Unsupported('lambda signature')
            return Lam(n, env)
        if isinstance(n, ast.BinOp):
            return self._binop(n, self.ev(n.left, env), self.ev(n.right, env),
                               env)
        return F.Evaluator.ev(self, n, env)

    def _binop(self, n, a, b, env):
        if isinstance(a, Arr) or isinstance(b, Arr) or a is NAN or b is NAN \
                or a is UNSET or b is UNSET:
            raise F.Unsupported('array arithmetic: %s' % ast.unparse(n))
        return F.Evaluator.ev(self, ast.BinOp(
            left=ast.Constant(a), op=n.op, right=ast.Constant(b)), env)

    def _gen_envs(self, gens, env):
        def rec(k, e):
            if k == len(gens):
                yield e
                return
            it = self.ev(gens[k].iter, e)
            if it is F.OPAQUE or not isinstance(it, (list, tuple, dict)):
                raise F.Unsupported('comprehension over undetermined value')
            for v in list(it):
                e2 = dict(e)
                self.bind(gens[k].target, v, e2)
                if all(self.truth(self.ev(c, e2)) for c in gens[k].ifs):
                    for r in rec(k + 1, e2):
                        yield r
        return rec(0, env)

    @staticmethod
    def _shape(a):
        if a and all(isinstance(r, list) for r in a):
            w = {len(r) for r in a}
            if len(w) != 1:
                raise F.Unsupported('ragged array')
            return (len(a), w.pop())
        if any(isinstance(r, list) for r in a):
            raise F.Unsupported('ragged array')
        return (len(a),)

    def _index(self, n, seq, k):
        """seq[k] for one axis; k int / slice / list of ints or bools."""
        if _is_int(k):
            try:
                return seq[k]
            except IndexError:
                raise F.Raised(n)
        wrap = Arr if isinstance(seq, Arr) else list
        if isinstance(k, slice):
            r = wrap(seq[k])
            if wrap is Arr and not any(isinstance(v, list) for v in seq):
                r.detached = True   # NumPy: a view; here: a copy of cells
            return r
        # fancy indexing: NumPy copies
        if isinstance(k, (list, tuple)) and k and all(
                isinstance(x, bool) for x in k) and wrap is Arr:
            if len(k) != len(seq):
                raise F.Raised(n)
            return Arr(_deep(v) for v, m in zip(seq, k) if m)
        if isinstance(k, (list, tuple)) and all(
                _is_int(x) for x in k) and wrap is Arr:
            try:
                return Arr(_deep(seq[x]) for x in k)
            except IndexError:
                raise F.Raised(n)
        raise F.Unsupported('index %r in %s' % (k, ast.unparse(n)))

    def _load(self, n, env):
        base = self.ev(n.value, env)
        key = self.ev(n.slice, env)
        if base is F.OPAQUE or key is F.OPAQUE:
            raise F.Unsupported('subscript of undetermined value: %s'
                                % ast.unparse(n))
        if isinstance(base, dict):
            try:
                return base[self._hashable(key)]
            except (KeyError, TypeError):
                raise F.Raised(n)
        if isinstance(base, str):
            if _is_int(key) or isinstance(key, slice):
                try:
                    return base[key]
                except IndexError:
                    raise F.Raised(n)
            raise F.Unsupported('string index %s' % ast.unparse(n))
        if isinstance(base, tuple):
            if _is_int(key) or isinstance(key, slice):
                try:
                    return base[key]
                except IndexError:
                    raise F.Raised(n)
            raise F.Unsupported('tuple index %s' % ast.unparse(n))
        if isinstance(base, list):
            if isinstance(key, tuple) and len(key) == 2 and not all(
                    isinstance(x, bool) for x in key):
                rows = self._index(n, base, key[0])
                if _is_int(key[0]):
                    if not isinstance(rows, list):
                        raise F.Raised(n)
                    return self._index(n, rows, key[1])
                r = Arr(self._index(n, r, key[1]) for r in rows)
                if not (isinstance(key[0], (list, tuple))
                        or isinstance(key[1], (list, tuple))):
                    r.detached = True
                return r
            return self._index(n, base, key)
        raise F.Unsupported('subscript %s' % ast.unparse(n))

    # -- calls ---------------------------------------------------------------
    def apply(self, fn, args, n):
        if not isinstance(fn, Lam):
            raise F.Unsupported('call of %r in %s' % (fn, ast.unparse(n)))
        params = [x.arg for x in fn.node.args.args]
        if len(params) != len(args):
            raise F.Unsupported('lambda arity in %s' % ast.unparse(n))
        e2 = dict(fn.env)
        e2.update(zip(params, args))
        return self.ev(fn.node.body, e2)

    def _sort_key(self, n, env):
        """(key function or None, reverse) of sorted(...) / list.sort(...)"""
        key, rev = None, False
        for k in n.keywords:
            if k.arg == 'key':
                key = self.ev(k.value, env)
                if key is None:
                    continue
                if not isinstance(key, Lam):
                    raise F.Unsupported('sort key %s' % ast.unparse(k.value))
            elif k.arg == 'reverse':
                rev = self.ev(k.value, env)
                if not isinstance(rev, bool):
                    raise F.Unsupported('sort direction')
            else:
                raise F.Unsupported('sort argument %s' % k.arg)
        return key, rev

    def _sorted(self, n, seq, key, rev):
        if seq is F.OPAQUE or not isinstance(seq, (list, tuple)):
            raise F.Unsupported('sort of undetermined value')
        keys = [v if key is None else self.apply(key, [v], n) for v in seq]
        if any(k is F.OPAQUE or isinstance(k, (_Nan, _Unset)) for k in keys):
            raise F.Unsupported('sort by undetermined keys')
        try:
            order = sorted(range(len(keys)), key=lambda i: keys[i],
                           reverse=rev)
        except TypeError:
            raise F.Unsupported('sort of incomparable values')
        return [seq[i] for i in order]

    def call(self, n, env):
        f = n.func
        fname = ast.unparse(f)
        if fname in F.EXIT_CALLS:
            raise F.Raised(n)
        if isinstance(f, ast.Name) and isinstance(env.get(f.id), Lam):
            if n.keywords:
                raise F.Unsupported('keywords for a lambda')
            return self.apply(env[f.id], [self.ev(a, env) for a in n.args],
                              n)
        if fname == 'sorted' and len(n.args) == 1:
            key, rev = self._sort_key(n, env)
            return self._sorted(n, self.ev(n.args[0], env), key, rev)
        if isinstance(f, ast.Attribute) and f.attr == 'sort' and not n.args \
                and n.keywords:
            recv = self.ev(f.value, env)
            if isinstance(recv, list) and not isinstance(recv,
                                                         (Arr, TextFile)):
                key, rev = self._sort_key(n, env)
                recv[:] = self._sorted(n, recv, key, rev)
                return None
            raise F.Unsupported('sort of %s' % ast.unparse(f.value))
        if fname.split('.')[-1] == 'open' and fname.split('.')[0] in (
                'open', 'io', 'codecs'):
            for a in n.args:
                self.ev(a, env)
            return TextFile(self.content)
        if fname in ('os.path.abspath', 'os.path.realpath',
                     'os.path.normpath', 'os.path.expanduser', 'os.fspath',
                     'str') and len(n.args) == 1 and not n.keywords:
            return self.ev(n.args[0], env)
        if fname == 'float' and len(n.args) == 1:
            v = self.ev(n.args[0], env)
            if v is F.OPAQUE:
                raise F.Unsupported('float of undetermined value')
            if v is NAN or v == 'nan':
                return NAN
            try:
                return float(v)
            except (TypeError, ValueError):
                raise F.Raised(n)
        if fname == 'eval' and n.args:
            v = self.ev(n.args[0], env)
            if not isinstance(v, str):
                raise F.Unsupported('eval of undetermined value')
            try:
                t = ast.parse(v.strip(), mode='eval')
            except SyntaxError:
                raise F.Raised(n)
            if {x.id for x in ast.walk(t) if isinstance(x, ast.Name)} - {
                    'dT', 'np'}:
                raise F.Raised(n)
            return F.OPAQUE
        if fname in ('np.ones', 'np.zeros', 'np.empty', 'np.full') and n.args:
            shape = self.ev(n.args[0], env)
            if fname == 'np.full':
                if len(n.args) < 2:
                    raise F.Unsupported(ast.unparse(n))
                v = self.ev(n.args[1], env)
            else:
                v = {'np.ones': 1.0, 'np.zeros': 0.0,
                     'np.empty': UNSET}[fname]
            if shape is F.OPAQUE or v is F.OPAQUE:
                raise F.Unsupported('array of undetermined shape: %s'
                                    % ast.unparse(n))
            return _filled(shape, v)
        if fname in ('np.array', 'np.asarray', 'np.copy', 'np.vstack',
                     'np.atleast_2d', 'copy.deepcopy', 'deepcopy') and n.args:
            v = self.ev(n.args[0], env)
            if v is F.OPAQUE or not isinstance(v, (list, tuple)):
                raise F.Unsupported('array of undetermined value: %s'
                                    % ast.unparse(n))
            if fname.endswith('deepcopy'):
                return _deep(v, isinstance(v, Arr))
            v = _deep(v)
            if fname == 'np.vstack':
                if v and all(isinstance(r, list) and r and all(
                        isinstance(c, list) for c in r) for r in v):
                    v = Arr(row for blk in v for row in blk)   # 2-D blocks
                elif any(isinstance(c, list) for r in v
                         if isinstance(r, list) for c in r):
                    raise F.Unsupported('vstack of mixed ranks')
                else:
                    v = Arr(r if isinstance(r, list) else Arr([r])
                            for r in v)
            elif fname == 'np.atleast_2d' and v and not isinstance(v[0],
                                                                   list):
                v = Arr([v])
            return v
        if fname in ('np.isnan', 'math.isnan') and len(n.args) == 1:
            v = self.ev(n.args[0], env)
            if isinstance(v, list):
                return Arr(Arr(c is NAN for c in r) if isinstance(r, list)
                           else r is NAN for r in v)
            if v is F.OPAQUE:
                raise F.Unsupported('isnan of undetermined value')
            return v is NAN
        if isinstance(f, ast.Name) and f.id == 'isinstance':
            raise F.Unsupported('isinstance')
        if isinstance(f, ast.Name) and f.id in self.defs:
            args = [self.ev(a, env) for a in n.args]
            if any(isinstance(a, ast.Starred) for a in n.args) or any(
                    k.arg is None for k in n.keywords):
                raise F.Unsupported('star arguments: %s' % ast.unparse(n))
            kw = {k.arg: self.ev(k.value, env) for k in n.keywords}
            kind, val, node = self.call_function(self.defs[f.id], args, kw)
            if kind == 'raise':
                raise F.Raised(node)
            return val
        if isinstance(f, ast.Attribute):
            recv = self.ev(f.value, env)
            if f.attr == 'read_text':
                return self.content
            if isinstance(recv, TextFile):
                if f.attr == 'read' and not n.args:
                    return recv.content
                if f.attr == 'readlines' and not n.args:
                    return list(recv)
                if f.attr in ('close', '__enter__', '__exit__'):
                    return None
                raise F.Unsupported('file method %s' % ast.unparse(n))
            if isinstance(recv, str):
                args = [self.ev(a, env) for a in n.args]
                if f.attr == 'join' and len(args) == 1 and isinstance(
                        args[0], (list, tuple)) and all(
                        isinstance(x, str) for x in args[0]):
                    return recv.join(args[0])
                if f.attr in STR_METHODS and not n.keywords and all(
                        isinstance(a, (str, int)) or a is None or (
                            isinstance(a, tuple) and all(
                                isinstance(x, str) for x in a))
                        for a in args):
                    try:
                        r = getattr(recv, f.attr)(*args)
                    except ValueError:
                        raise F.Raised(n)
                    return list(r) if isinstance(r, tuple) and \
                        f.attr not in ('partition', 'rpartition') else r
                raise F.Unsupported('string method %s' % ast.unparse(n))
            if isinstance(recv, list) and not isinstance(recv, TextFile):
                if f.attr == 'copy' and not n.args:
                    return _deep(recv) if isinstance(recv, Arr) \
                        else list(recv)
                if f.attr == 'tolist' and not n.args:
                    return _deep(recv, False)
                if f.attr == 'astype' and isinstance(recv, Arr):
                    return _deep(recv)
                if f.attr == 'index' and len(n.args) == 1:
                    v = self.ev(n.args[0], env)
                    if v not in recv:
                        raise F.Raised(n)
                    return recv.index(v)
                if f.attr == 'count' and len(n.args) == 1:
                    return recv.count(self.ev(n.args[0], env))
                if f.attr not in F.LIST_MUTATORS:
                    raise F.Unsupported('array method %s' % ast.unparse(n))
            if isinstance(recv, dict):
                args = [self.ev(a, env) for a in n.args]
                if f.attr == 'setdefault' and 1 <= len(args) <= 2:
                    k = self._hashable(args[0])
                    if k not in recv:
                        recv[k] = args[1] if len(args) > 1 else None
                        self._note(recv, k)
                    return recv[k]
                if f.attr == 'update' and len(args) == 1 and isinstance(
                        args[0], dict) and not n.keywords:
                    for k, v in args[0].items():
                        recv[k] = v
                        self._note(recv, k)
                    return None
                if f.attr == 'pop' and args:
                    k = self._hashable(args[0])
                    if k in recv:
                        return recv.pop(k)
                    if len(args) > 1:
                        return args[1]
                    raise F.Raised(n)
                if f.attr == 'copy' and not args:
                    d = dict(recv)
                    for k in d:
                        self._note(d, k)
                    return d
                if f.attr not in ('get', 'keys', 'values', 'items'):
                    raise F.Unsupported('dict method %s' % ast.unparse(n))
        if isinstance(f, ast.Name) and f.id in ('map', 'filter', 'iter',
                                                'next', 'getattr', 'exec'):
            raise F.Unsupported('builtin %s' % f.id)
        if isinstance(f, ast.Name) and f.id == 'sum' and n.args:
            seq = self.ev(n.args[0], env)
            if seq is F.OPAQUE or not isinstance(seq, (list, tuple)) or \
                    not all(isinstance(v, (int, float)) for v in seq):
                raise F.Unsupported('sum of undetermined values')
            start = self.ev(n.args[1], env) if len(n.args) > 1 else 0
            return sum(seq, start)
        if isinstance(f, ast.Name) and f.id == 'enumerate' and n.args:
            seq = self.ev(n.args[0], env)
            if seq is F.OPAQUE or not isinstance(seq, (list, tuple, dict)):
                raise F.Unsupported('enumerate of undetermined value')
            start = 0
            if len(n.args) > 1:
                start = self.ev(n.args[1], env)
            for k in n.keywords:
                if k.arg == 'start':
                    start = self.ev(k.value, env)
            if not _is_int(start):
                raise F.Unsupported('enumerate start')
            return [(i, v) for i, v in enumerate(list(seq), start)]
        if isinstance(f, ast.Name) and f.id == 'len' and len(n.args) == 1:
            v = self.ev(n.args[0], env)
            if v is F.OPAQUE or not isinstance(v, (str, list, tuple, dict,
                                                   set, frozenset)):
                raise F.Unsupported('len of undetermined value')
            return len(v)
        return F.Evaluator.call(self, n, env)

    def call_function(self, fnode, args, kw=None):
        a = fnode.args
        if a.vararg or a.kwarg or a.kwonlyargs or a.posonlyargs:
            raise F.Unsupported('signature of %s' % fnode.name)
        params = [x.arg for x in a.args]
        if len(args) > len(params):
            raise F.Unsupported('too many arguments for %s' % fnode.name)
        env = dict(zip(params, args))
        for k, v in (kw or {}).items():
            if k not in params or k in env:
                raise F.Unsupported('keyword %s of %s' % (k, fnode.name))
            env[k] = v
        for p, d in zip(params[len(params) - len(a.defaults):], a.defaults):
            if p not in env:
                env[p] = self.ev(d, {})
        if set(params) - set(env):
            raise F.Unsupported('missing arguments for %s' % fnode.name)
        self.fns.append(fnode)
        depth = len(self.stmts)
        try:
            self.run_block(fnode.body, env)
        except F._Return as r:
            return 'return', r.value, r.node
        except F.Raised as r:
            return 'raise', None, r.node
        finally:
            self.fns.pop()
            del self.stmts[depth:]
        return 'return', None, fnode

    # -- statements ----------------------------------------------------------
    def bind(self, tgt, val, env):
        if isinstance(tgt, ast.Subscript):
            base = self.ev(tgt.value, env)
            if isinstance(base, dict):
                k = self._hashable(self.ev(tgt.slice, env))
                base[k] = val
                self._note(base, k)
                return
            if isinstance(base, list) and not isinstance(base, TextFile):
                self._store(tgt, base, self.ev(tgt.slice, env), val)
                return
            raise F.Unsupported('store into %s' % ast.unparse(tgt))
        if isinstance(tgt, ast.Attribute):
            raise F.Unsupported('attribute store %s' % ast.unparse(tgt))
        F.Evaluator.bind(self, tgt, val, env)

    def _store(self, tgt, base, key, val):
        if key is F.OPAQUE or val is F.OPAQUE:
            raise F.Unsupported('store of undetermined value: %s'
                                % ast.unparse(tgt))
        if getattr(base, 'detached', False):
            raise F.Unsupported('store through a column view: %s'
                                % ast.unparse(tgt))
        if not isinstance(base, Arr):           # a Python list
            if not (_is_int(key) or isinstance(key, slice)):
                raise F.Unsupported('store %s' % ast.unparse(tgt))
            try:
                base[key] = val
            except (IndexError, TypeError):
                raise F.Raised(tgt)
            return

        def put_row(row, k, v):
            if _is_int(k):
                try:
                    row[k] = v[0] if isinstance(v, list) and len(v) == 1 \
                        else v
                except IndexError:
                    raise F.Raised(tgt)
                if isinstance(row[k], list):
                    raise F.Unsupported('store %s' % ast.unparse(tgt))
                return
            if isinstance(k, slice):
                idx = list(range(len(row)))[k]
                if isinstance(v, (list, tuple)):
                    if len(v) != len(idx):
                        raise F.Raised(tgt)
                    for i, x in zip(idx, v):
                        row[i] = x
                else:
                    for i in idx:
                        row[i] = v
                return
            raise F.Unsupported('store %s' % ast.unparse(tgt))

        two_d = bool(base) and all(isinstance(r, list) for r in base)
        if isinstance(key, tuple) and len(key) == 2 and two_d:
            rows = self._index(tgt, base, key[0])
            if _is_int(key[0]):
                if isinstance(val, (list, tuple)) and _is_int(key[1]):
                    raise F.Raised(tgt)
                put_row(rows, key[1], val)
                return
            if isinstance(val, (list, tuple)) and val and isinstance(
                    val[0], (list, tuple)):
                if len(val) != len(rows):
                    raise F.Raised(tgt)
                for r, v in zip(rows, val):
                    put_row(r, key[1], list(v))
                return
            if isinstance(val, (list, tuple)) and _is_int(key[1]):
                if len(val) != len(rows):
                    raise F.Raised(tgt)
                for r, v in zip(rows, val):
                    put_row(r, key[1], v)
                return
            for r in rows:
                put_row(r, key[1], val)
            return
        if two_d and (_is_int(key) or isinstance(key, slice)):
            rows = self._index(tgt, base, key)
            rows = [rows] if _is_int(key) else rows
            if isinstance(val, (list, tuple)) and val and isinstance(
                    val[0], (list, tuple)):
                if _is_int(key) or len(val) != len(rows):
                    raise F.Raised(tgt)
                for r, v in zip(rows, val):
                    put_row(r, slice(None), list(v))
                return
            for r in rows:
                put_row(r, slice(None), val)
            return
        if not two_d and (_is_int(key) or isinstance(key, slice)):
            if isinstance(val, list) and _is_int(key):
                raise F.Raised(tgt)     # a sequence into one element
            put_row(base, key, val)
            return
        raise F.Unsupported('store %s' % ast.unparse(tgt))

    def run(self, st, env):
        self.stmts.append(st)
        try:
            if isinstance(st, ast.With):
                for it in st.items:
                    v = self.ev(it.context_expr, env)
                    if it.optional_vars is not None:
                        self.bind(it.optional_vars, v, env)
                self.run_block(st.body, env)
            elif isinstance(st, ast.Expr) and not isinstance(st.value,
                                                             ast.Call):
                pass
            elif isinstance(st, ast.AugAssign):
                cur = self.ev(st.target, env)
                rhs = self.ev(st.value, env)
                if isinstance(cur, list) and not isinstance(
                        cur, (Arr, TextFile)) and isinstance(st.op, ast.Add):
                    # list += iterable: in place (aliases see it)
                    if rhs is F.OPAQUE or not isinstance(rhs, (list, tuple)):
                        raise F.Unsupported('list extended by an '
                                            'undetermined value')
                    cur.extend(rhs)
                else:
                    self.bind(st.target, self._binop(st, cur, rhs, env), env)
            elif isinstance(st, ast.While):
                n = 0
                while self.truth(self.ev(st.test, env)):
                    n += 1
                    if n > 200:
                        raise F.Unsupported('while loop does not end')
                    try:
                        self.run_block(st.body, env)
                    except F._Continue:
                        continue
                    except F._Break:
                        break
            elif isinstance(st, ast.Delete):
                for t in st.targets:
                    if isinstance(t, ast.Name):
                        env.pop(t.id, None)
                    elif isinstance(t, ast.Subscript):
                        b = self.ev(t.value, env)
                        k = self.ev(t.slice, env)
                        if not isinstance(b, (dict, list)) or k is F.OPAQUE:
                            raise F.Unsupported('del %s' % ast.unparse(t))
                        try:
                            del b[self._hashable(k) if isinstance(b, dict)
                                  else k]
                        except (KeyError, IndexError, TypeError):
                            raise F.Raised(st)
                    else:
                        raise F.Unsupported('del %s' % ast.unparse(t))
            else:
                F.Evaluator.run(self, st, env)
        finally:
            if self.stmts and self.stmts[-1] is st:
                self.stmts.pop()


# ---------------------------------------------------------------------------
# model tables

class Model:
    def __init__(self, types, width, with_expr, spelling):
        self.types, self.width = types, width
        self.with_expr, self.spelling = with_expr, spelling
        n = width - 2
        lines = [','.join(HEADER[:width])]
        self.rows = []          # (type, [cell values], {col: text})
        for i, t in enumerate(types):
            cells, exprs, text = [], {}, []
            for j in range(n):
                # one expression per row, on a column that moves with the
                # row; never the whole row (numeric cells identify the row)
                if with_expr and n > 1 and j == i % n or (
                        with_expr and n == 1 and i % 2 == 0):
                    e = '1 + %d.%d / dT' % (i + 1, j + 1)
                    exprs[j] = e
                    cells.append(NAN)
                    text.append(e)
                else:
                    v = '1.%d%d' % (i + 1, j + 1)
                    cells.append(float(v))
                    text.append(v)
            self.rows.append((t, cells, exprs))
            lines.append('Factor %s,%s,%s' % (
                'abcdefgh'[i], spelling[t], ','.join(text)))
        self.content = '\n'.join(lines)

    def describe(self):
        return '[%s] x %d term column%s%s' % (
            ', '.join(self.spelling[t] for t in self.types), self.width - 2,
            's' if self.width > 3 else '',
            ', one dT expression per row' if self.with_expr else '')

    def expected(self, typ):
        return [c for t, c, _ in self.rows if t == typ]


def _models(widths):
    cap = {'direct': 'Direct', 'statistical': 'Statistical'}
    low = {'direct': 'direct', 'statistical': 'statistical'}
    out = []
    for n in range(2, MAX_ROWS + 1):
        for types in itertools.product(TYPES, repeat=n):
            if len(set(types)) < 2:
                continue
            for w in widths:
                for we in (False, True):
                    out.append(Model(types, w, we, cap))
    # the reader accepts the type in lower case, too
    for types in (('statistical', 'direct'), ('direct', 'statistical'),
                  ('statistical', 'direct', 'statistical')):
        out.append(Model(types, widths[-1], True, low))
    return out


# ---------------------------------------------------------------------------
# the rule

def _cell(v):
    return 'nan' if v is NAN else repr(v)


def _row_txt(r):
    if not isinstance(r, list):
        return repr(r)
    return '[' + ', '.join(_cell(c) for c in r) + ']'


def _same_row(a, b):
    return isinstance(a, list) and len(a) == len(b) and all(
        (x is y) if (x is NAN or y is NAN) else (
            isinstance(x, (int, float)) and not isinstance(x, bool)
            and x == y) for x, y in zip(a, b))


class _Finding:
    def __init__(self, kind, typ, model, site, what):
        self.kind, self.typ, self.model = kind, typ, model
        self.site, self.what = site, what


def _judge(model, ev, result, ret_site):
    """-> list of _Finding for one evaluated model table."""
    out = []
    if not (isinstance(result, (tuple, list)) and len(result) == 2
            and isinstance(result[0], dict) and isinstance(result[1], dict)):
        raise AnalysisError(
            '%s: %s does not return a pair (subfactor blocks, expressions) '
            'of dictionaries any more (got %r)' % (RULE, READER, result))
    hcf, exprs = result
    for typ in TYPES:
        want = model.expected(typ)
        site = ev.site(hcf, typ) or ret_site
        if typ not in hcf:
            out.append(_Finding(
                'block', typ, model, ret_site,
                'no block is returned under %r (keys: %s)'
                % (typ, sorted(map(str, hcf)))))
            continue
        blk = hcf[typ]
        if blk is F.OPAQUE or not isinstance(blk, list):
            raise AnalysisError('%s: block %r returned by %s is not a value '
                                'the evaluator models (%r)'
                                % (RULE, typ, READER, blk))
        rest = list(blk)
        missing = []
        for w in want:
            for k, r in enumerate(rest):
                if _same_row(r, w):
                    del rest[k]
                    break
            else:
                missing.append(w)
        if missing or rest:
            foreign = ''
            for r in rest:
                for t, c, _ in model.rows:
                    if t != typ and _same_row(r, c):
                        foreign = ' -- %s is a row labelled %s' % (
                            _row_txt(r), model.spelling[t])
                        break
                if foreign:
                    break
            out.append(_Finding(
                'block', typ, model, site,
                'block %r holds %s instead of the %d row%s labelled %s %s%s'
                % (typ, '[' + ', '.join(_row_txt(r) for r in blk) + ']',
                   len(want), '' if len(want) == 1 else 's',
                   model.spelling[typ],
                   '[' + ', '.join(_row_txt(r) for r in want) + ']',
                   foreign)))
    # (b) expression keys
    n_expr = 0
    for t, cells, ex in model.rows:
        for col, text in ex.items():
            n_expr += 1
            keys = [k for k, v in exprs.items() if v == text]
            if len(keys) != 1:
                out.append(_Finding(
                    'exprkey', t, model, ret_site,
                    'the expression %r of a row labelled %s (term column '
                    '%d) is returned %d times (keys %s)'
                    % (text, model.spelling[t], col, len(keys), keys)))
                continue
            k = keys[0]
            site = ev.site(exprs, k) or ret_site
            ok = isinstance(k, tuple) and len(k) == 3 and k[0] == t \
                and _is_int(k[1]) and _is_int(k[2]) and k[2] == col
            if ok:
                blk = hcf.get(t)
                ok = isinstance(blk, list) and -len(blk) <= k[1] < len(blk) \
                    and _same_row(blk[k[1]], cells)
            if not ok:
                blk = hcf.get(k[0]) if isinstance(k, tuple) and k else None
                there = None
                if isinstance(blk, list) and isinstance(k, tuple) and \
                        len(k) == 3 and _is_int(k[1]) and \
                        -len(blk) <= k[1] < len(blk):
                    there = blk[k[1]]
                out.append(_Finding(
                    'exprkey', t, model, site,
                    'the expression %r stands in a row labelled %s with '
                    'cells %s, term column %d, but is keyed %r, which '
                    'addresses %s' % (
                        text, model.spelling[t], _row_txt(cells), col, k,
                        'no row of that block' if there is None
                        else 'the row %s' % _row_txt(there))))
    extra = [k for k, v in exprs.items()
             if not any(v == text for _, _, ex in model.rows
                        for text in ex.values())]
    if extra:
        out.append(_Finding(
            'exprkey', 'extra', model, ev.site(exprs, extra[0]) or ret_site,
            'expression keys %s are returned for cells that hold no '
            'expression' % extra))
    return out


def run(ctx):
    repo = ctx.repo
    fi = repo.func(MOD, READER)
    mod = fi.mod
    defs = {f.name: f.node for f in mod.funcs.values()
            if f.cls is None and f.outer is None}
    by_node = {id(f.node): f for f in mod.funcs.values()}
    literals, _ = F.module_literals(mod.tree)
    params = fi.params
    if not params:
        raise AnalysisError('%s: %s takes no table path any more'
                            % (RULE, fi.full))
    # widths the header check admits: without `cols_needed` the reader
    # accepts 5 and 7 columns; with it any width >= cols_needed
    runs = [(5, None), (7, None)]
    if len(params) >= 2:
        runs += [(3, 3), (6, 6)]
    models = []
    for w, need in runs:
        for m in _models([w]):
            m.need = need
            models.append(m)
    models.sort(key=lambda m: (len(m.types), m.with_expr, m.width))

    findings = {}
    n_ok = 0
    ret_default = fi.node.body[-1]
    for m in models:
        ev = TableEval(defs, m.content, literals)
        args = ['/model/hcf.csv'] + ([m.need] if len(params) >= 2 else [])
        if len(params) > 2:
            a = fi.node.args
            if len(a.defaults) < len(params) - 2:
                raise AnalysisError(
                    '%s: %s has parameters the model does not know: %s'
                    % (RULE, fi.full, params))
        try:
            kind, val, node = ev.call_function(fi.node, args)
        except F.Unsupported as e:
            raise AnalysisError(
                '%s: %s cannot be evaluated on the model table %s: %s'
                % (RULE, fi.full, m.describe(), e))
        except F.Raised as e:
            kind, val, node = 'raise', None, e.node
        except (F._Break, F._Continue):
            raise AnalysisError('%s: stray break/continue in %s'
                                % (RULE, fi.full))
        if kind == 'raise':
            fs = [_Finding('abort', 'any', m, (None, node),
                           'the reader stops (%s) on a well-formed table'
                           % _s(node)[:90])]
        else:
            ret_site = (fi.node, node if isinstance(node, ast.stmt)
                        else ret_default)
            fs = _judge(m, ev, val, ret_site)
        if not fs:
            n_ok += 1
            ctx.ok(RULE, fi, node if isinstance(node, ast.stmt)
                   else ret_default, 'model table ' + m.describe())
        for f in fs:
            findings.setdefault((f.kind, f.typ), f)     # smallest model

    for (kind, typ), f in sorted(findings.items()):
        fn, st = f.site if f.site else (None, ret_default)
        at = by_node.get(id(fn), fi) if fn is not None else fi
        if fn is None:
            # locate the function of the statement (abort inside a helper)
            for g in mod.funcs.values():
                if any(x is st for x in ast.walk(g.node)):
                    at = g
                    break
        clause = {
            'block': 'every subfactor row enters the block named by its own '
                     'Type cell',
            'exprkey': 'every dT expression is keyed by its own type, the '
                       'index of its row inside that block and its own '
                       'column',
            'abort': 'a table whose rows are typed by their own Type cell is '
                     'read whatever the order of its rows'}[kind]
        ctx.violation(
            RULE, at, st,
            '%s: for the table with rows %s, %s' % (clause,
                                                    f.model.describe(),
                                                    f.what),
            key='%s | %s | %s %s' % (RULE, fi.full, kind, typ))
    if not findings and n_ok < MIN_TABLES:
        raise AnalysisError('%s evaluated only %d model tables (expected >= '
                            '%d)' % (RULE, n_ok, MIN_TABLES))
    ctx.min_instances(RULE, MIN_TABLES)
    ctx.trusted.append(
        'C19.R9: models of open/read/str methods/np.ones|zeros|empty|full|'
        'array in dsa/rules/_f_c19_2.py; eval() accepts exactly the Python '
        'expressions over dT and np')
    ctx.decided.append(
        'R9 _read_hcf_table, evaluated by the checker\'s finite-domain '
        'evaluator on every order of direct / statistical rows up to %d rows '
        '(all admitted widths, with and without dT expressions), returns '
        'under each type exactly the rows labelled with it and keys every '
        'expression by (own type, index of its row inside that block, own '
        'column)' % MAX_ROWS)
