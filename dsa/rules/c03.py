"""C03 -- power deposited over the sweep equals the power assigned."""
import ast

from ..core import (AnalysisError, access_path, const, find_all, match, short,
                    src, walk_no_nested, parent, call_name)
from ..cfg import cfg_of
from .. import util as U
from .. import dataflow

COMP_ATTR = {'pins': 'pin_power', 'cool': 'coolant_power',
             'duct': 'duct_power'}


def run(ctx):
    ctx.decided += [
        'R1 every non-None component returned by get_power_sweep is tallied '
        'with dz * sum and the same dict is handed to the region calculation',
        'R2 the three component evaluations of _calculate_pdist are identical '
        'up to the attribute and each carries the renormalisation factor',
        'R3 every method that evaluates the component polynomials along z '
        'uses the same bundle-bounds predicate; the renormalisation sums only '
        'the steps the sweep serves from the polynomials',
        'R4 both scaling blocks scale the same three targets and the returned '
        'core total is pcalc * renorm * pscalar',
        'R5 W/m <-> W/cm scale tags: file coefficients / 100 and bounds * 100 '
        'on input, * 100 at every evaluation site',
        'R6 the sweep counter indexes the precomputed tables and advances by '
        'one on that path only; Reactor.reset zeroes it',
        'R7 premise of the per-cell renormalisation: no axial step straddles '
        'a power-cell boundary (the boundary merge contains the power mesh '
        'and _check_dz stops at the first crossed boundary; rules shared '
        'with C05.R2/R3)']
    ctx.not_decided += ['equality of the midpoint sum with the integral as '
                        'numbers', 'linearity of temperatures in power']
    r1(ctx)
    r2(ctx)
    r3(ctx)
    r4(ctx)
    r5(ctx)
    r6(ctx)
    from . import c05
    sub = ctx.alias({'C05.R2': 'C03.R7', 'C05.R3': 'C03.R7'})
    c05.r2(sub)
    c05.r3(sub)
    ctx.min_instances('C03.R7', 10)
    ctx.min_instances('C03.R1', 3)
    ctx.min_instances('C03.R2', 3)
    ctx.min_instances('C03.R3', 6)
    ctx.min_instances('C03.R4', 7)
    ctx.min_instances('C03.R5', 5)
    ctx.min_instances('C03.R6', 3)


def r1(ctx):
    fi = ctx.repo.func('assembly', 'Assembly.calculate')
    g = cfg_of(fi)
    dzp = fi.params[1]
    defs = [a for a in U.assigns_of(fi.node, 'pow_j')]
    ok = len(defs) >= 1 and all(
        isinstance(a, ast.Assign) and
        src(a.value).startswith('self.power.get_power_sweep(') for a in defs)
    ctx.require(ok, 'C03.R1', fi, defs[0] if defs else fi.node,
                'the step power must come from power.get_power_sweep',
                key=fi.full + ' | power source')
    tl = find_all('self._power_delivered[Q_k] += %s * np.sum(pow_j[Q_k])'
                  % dzp, fi.node, 'stmt')
    ok = len(tl) == 1
    if ok:
        st = tl[0][0]
        k = src(tl[0][1]['Q_k'])
        loops = U.enclosing_loops(st)
        gs = U.guards(st)
        ok = len(loops) == 1 and src(loops[0].iter) in (
            'pow_j.keys()', 'pow_j') and src(loops[0].target) == k and \
            [(' '.join(src(t).split()), p) for t, p in gs] == \
            [('pow_j[%s] is not None' % k, True)]
    ctx.require(ok, 'C03.R1', fi, tl[0][0] if tl else fi.node,
                'every non-None component of the step power must be tallied '
                'as dz * sum(component), for every key of the dict',
                key=fi.full + ' | tally')
    calls = [c for c in U.attr_calls(fi.node, 'calculate')
             if 'power' not in src(c.func)]
    ok = len(calls) == 1 and len(calls[0].args) >= 2 and \
        src(calls[0].args[0]) == dzp and src(calls[0].args[1]) == 'pow_j'
    if ok and tl:
        # no re-assignment of pow_j between tally and use
        ok = not any(tl[0][0].lineno < a.lineno < calls[0].lineno
                     for a in defs)
        # tally happens on every path to the region calculation
        tn = g.node_containing(tl[0][0])
        cn = g.node_containing(calls[0])
        lp = g.node_of(U.enclosing_loops(tl[0][0])[0])
        ok = ok and not g.path_exists(g.entry, cn, avoid=[lp])
    ctx.require(ok, 'C03.R1', fi, calls[0] if calls else fi.node,
                'the tallied dict and step size must be exactly what the '
                'region calculation receives, and the tally loop must lie on '
                'every path to it', key=fi.full + ' | same dict to region')
    pins = U.attr_calls(fi.node, 'calculate_pin_temperatures')
    ok = len(pins) == 1 and len(pins[0].args) == 2 and \
        src(pins[0].args[0]) == dzp and src(pins[0].args[1]) == "pow_j['pins']"
    ctx.require(ok, 'C03.R1', fi, pins[0] if pins else fi.node,
                'pin temperatures must use the same step and pin power',
                key=fi.full + ' | pin power')


def r2(ctx):
    fi = ctx.repo.func('power', 'AssemblyPower._calculate_pdist')
    rn = fi.params[-1]
    forms = {}
    for t, st in U.stores(fi.node):
        b = match("pp[Q_k]", t)
        if b is None or not isinstance(st, ast.Assign):
            continue
        k = const(b['Q_k'])
        if k in COMP_ATTR:
            forms[k] = st
    norm = {}
    for k, st in forms.items():
        s = src(st.value).replace('self.' + COMP_ATTR[k], 'self.<C>')
        norm[k] = s
        gs = U.guards(st)
        okg = [(src(t), p) for t, p in gs] == \
            [('self.%s is not None' % COMP_ATTR[k], True)]
        ctx.require(okg and s == 'np.dot(self.<C>[k], z_exp) * 100 * ' + rn,
                    'C03.R2', fi, st, 'component %r must be evaluated as '
                    'dot(profile[k], z_exp) * 100 * renorm under its own '
                    'not-None guard' % k, key='%s | component %s'
                    % (fi.full, k))
    ctx.require(set(forms) == set(COMP_ATTR) and len(set(norm.values())) == 1,
                'C03.R2', fi, fi.node, 'the three component expressions must '
                'be identical up to the attribute name (found %s)' % norm,
                key=fi.full + ' | siblings agree')


def _bounds_predicate(fn_node):
    """(lower ops, upper ops) of comparisons against self.rod_zbnds[0|1],
    normalised to the form `z OP bound`.  A chained comparison `lo < z <= hi`
    counts as its two links; a local bound once to a bound (`lo =
    self.rod_zbnds[0]`, `lo, hi = self.rod_zbnds`) stands for it."""
    lo, hi = [], []
    flip = {ast.Lt: ast.Gt, ast.Gt: ast.Lt, ast.LtE: ast.GtE,
            ast.GtE: ast.LtE}
    alias = {}
    for a in ast.walk(fn_node):
        if not (isinstance(a, ast.Assign) and len(a.targets) == 1):
            continue
        t = a.targets[0]
        if isinstance(t, ast.Name) and src(a.value) in (
                'self.rod_zbnds[0]', 'self.rod_zbnds[1]') and \
                len(U.assigns_of(fn_node, t.id)) == 1:
            alias[t.id] = src(a.value)
        elif isinstance(t, (ast.Tuple, ast.List)) and len(t.elts) == 2 and \
                src(a.value) == 'self.rod_zbnds' and all(
                    isinstance(e, ast.Name) and
                    len(U.assigns_of(fn_node, e.id)) == 1 for e in t.elts):
            for i, e in enumerate(t.elts):
                alias[e.id] = 'self.rod_zbnds[%d]' % i

    def text(e):
        return alias.get(e.id, e.id) if isinstance(e, ast.Name) else src(e)
    for n in ast.walk(fn_node):
        if not isinstance(n, ast.Compare):
            continue
        vals = [n.left] + list(n.comparators)
        for l, o, r in zip(vals, n.ops, vals[1:]):
            op = type(o)
            for bound, lst in (('self.rod_zbnds[0]', lo),
                               ('self.rod_zbnds[1]', hi)):
                if text(r) == bound:
                    lst.append((op, n))
                elif text(l) == bound and op in flip:
                    lst.append((flip[op], n))
    return lo, hi


def _presweep_presence(ctx, ps):
    """Which components are present (not None) is a finite domain: 2^3
    combinations.  Over it (dsa/finite.py): (a) a return that leaves
    presweep_setup before self._renorm is stored may be taken only when no
    component is present; (b) inside the cell loop a component contributes to
    the midpoint total exactly when it is present."""
    from .. import finite as FD
    from ..cfg import cfg_of
    comps = ['self.' + a for a in COMP_ATTR.values()]
    g = cfg_of(ps)
    stores = [x for t, x in U.stores(ps.node) if src(t) == 'self._renorm']
    if not stores:
        return
    sn = [g.node_of(x) for x in stores]
    present = object()

    def evaluate(test, combo):
        ev = FD.Evaluator({}, set(), attr_env={
            c: (present if on else None) for c, on in zip(comps, combo)})
        try:
            return ev.truth(ev.ev(test, {}))
        except (FD.Unsupported, FD.Raised):
            return None
    combos = [(a, b, c) for a in (0, 1) for b in (0, 1) for c in (0, 1)]
    rets = [r for r in walk_no_nested(ps.node) if isinstance(r, ast.Return)]
    for r in rets:
        rn = g.node_of(r)
        if rn is None or not g.is_reachable(rn):
            continue
        # only returns that can be reached without storing the factor
        if not g.path_exists(g.entry, rn, avoid=[x for x in sn if x]):
            continue
        guards = U.guards(r)
        bad = None
        undecided = False
        for combo in combos:
            taken = True
            for test, pol in guards:
                v = evaluate(test, combo)
                if v is None:
                    undecided = True
                    taken = None
                    break
                if v != bool(pol):
                    taken = False
                    break
            if taken and any(combo):
                bad = combo
                break
        if undecided and bad is None:
            ctx.ok('C03.R3', ps, r, 'early return with a guard that does not '
                   'depend on the component presence (not decided)')
            continue
        what = ''
        if bad:
            what = ', '.join(c for c, on in zip(comps, bad) if on)
        ctx.require(bad is None, 'C03.R3', ps, r,
                    'presweep_setup returns before the renormalisation '
                    'factors are stored although %s is given: the midpoint '
                    'sweep then delivers a power different from the assigned '
                    'one' % what,
                    key=ps.full + ' | skip only without distributions')
    # (b) contributions inside the cell loop
    loops = [n for n in walk_no_nested(ps.node) if isinstance(n, ast.For)
             and src(n.iter) == 'range(self.n_region)']
    if len(loops) != 1:
        return
    for attr in comps:
        contrib = [a for a in ast.walk(loops[0]) if isinstance(
            a, (ast.Assign, ast.AugAssign)) and attr + '[' in src(a)]
        ok = bool(contrib)
        detail = 'no contribution of %s to the midpoint total' % attr
        for a in contrib:
            for combo in combos:
                on = combo[comps.index(attr)]
                taken = True
                for test, pol in U.guards(a):
                    if loops[0] not in [p_ for p_ in _ancestors(test)]:
                        continue
                    v = evaluate(test, combo)
                    if v is None:
                        continue
                    if v != bool(pol):
                        taken = False
                        break
                if bool(taken) != bool(on):
                    ok = False
                    detail = '%s is %s the midpoint total when it is %s' % (
                        attr, 'added to' if taken else 'left out of',
                        'absent' if not on else 'present')
        ctx.require(ok, 'C03.R3', ps, contrib[0] if contrib else loops[0],
                    detail, key='%s | %s enters the total iff present'
                    % (ps.full, attr))


def _ancestors(n):
    from ..core import parent
    out = []
    while n is not None:
        out.append(n)
        n = parent(n)
    return out


def _profile_names(fn_node):
    """Locals that stand for one of the component profile arrays (or for a
    collection of them): bound -- by assignment, as a loop / comprehension
    variable -- from an expression built only of `self.<component>`, such
    locals, displays, comprehensions and `is None` filters.  `for pp in
    [p for p in (self.pin_power, ...) if p is not None]: np.dot(pp[k], ..)`
    evaluates the profiles just as `np.dot(self.pin_power[k], ..)` does."""
    comps = {'self.' + a for a in COMP_ATTR.values()}
    names = set()

    def plain(e):
        """mentions a profile and does nothing but collect / filter"""
        hit = False
        for x in ast.walk(e):
            if isinstance(x, (ast.Call, ast.BinOp, ast.Subscript,
                              ast.Lambda)):
                return False
            if isinstance(x, ast.Attribute) and src(x) in comps:
                hit = True
            elif isinstance(x, ast.Name) and x.id in names:
                hit = True
        return hit
    for _ in range(6):
        before = len(names)
        for n in ast.walk(fn_node):
            tg, val = None, None
            if isinstance(n, ast.Assign) and len(n.targets) == 1:
                tg, val = n.targets[0], n.value
            elif isinstance(n, (ast.For, ast.comprehension)):
                tg, val = n.target, n.iter
            if isinstance(tg, ast.Name) and val is not None and plain(val):
                names.add(tg.id)
        if len(names) == before:
            break
    return names


def _evaluates_profiles(fn_node):
    """an np.dot over a row of a component profile (named directly or
    through a local that stands for one)"""
    comps = {'self.' + a for a in COMP_ATTR.values()}
    names = _profile_names(fn_node)
    for c in ast.walk(fn_node):
        if isinstance(c, ast.Call) and call_name(c) == 'np.dot':
            for x in ast.walk(c):
                if isinstance(x, ast.Subscript) and (
                        src(x.value) in comps or (
                            isinstance(x.value, ast.Name) and
                            x.value.id in names)):
                    return True
    return False


def _presweep_arrays(ps):
    """Source texts that denote, inside presweep_setup, the arrays the
    per-cell midpoint total is built from -- by what they hold, not by what
    they are called:  'dz': locals bound once to 100 * <dz parameter> (the
    step sizes in cm);  'rel' / 'cell' / 'pos': the arrays handed to the
    sweep through self._z_mod / self._kfint / self._z_abs -- the local that
    is stored there (bound once) and, behind a single unconditional store,
    the attribute itself.  -> {kind: {text: line from which on the text
    denotes the array}}"""
    from .. import poly
    out = {'dz': {}, 'rel': {}, 'cell': {}, 'pos': {}}
    dzp = ps.params[2] if len(ps.params) > 2 else None
    names = {t.id for t, _st in U.stores(ps.node) if isinstance(t, ast.Name)}
    for nm in sorted(names):
        d = U.single_def(ps.node, nm)
        if d is None or dzp is None:
            continue
        try:
            v = poly.from_ast(d, {dzp: 'dz'})
        except poly.NotPolynomial:
            continue
        if v.equals(poly.Rat.const(100) * poly.Rat.sym('dz')):
            out['dz'][nm] = U.assigns_of(ps.node, nm)[0].lineno
    for kind, attr in (('rel', 'self._z_mod'), ('cell', 'self._kfint'),
                       ('pos', 'self._z_abs')):
        sts = [st for t, st in U.stores(ps.node) if src(t) == attr]
        if len(sts) != 1 or not isinstance(sts[0], ast.Assign):
            continue
        st = sts[0]
        # (the attribute is never read ahead of its store, where it would
        # still hold the array of an earlier call)
        def stmt_line(x):
            while x is not None and not isinstance(x, ast.stmt):
                x = parent(x)
            return x.lineno if x is not None else 0
        if any(st is x for x in ps.node.body) and not any(
                isinstance(x, ast.Attribute) and isinstance(x.ctx, ast.Load)
                and src(x) == attr and stmt_line(x) <= st.lineno
                for x in ast.walk(ps.node)):
            out[kind][attr] = st.lineno
        v = st.value
        if isinstance(v, ast.Name) and U.single_def(ps.node, v.id) is not None:
            out[kind][v.id] = U.assigns_of(ps.node, v.id)[0].lineno
    return out


def _denotes(arrays, kind, expr, line):
    """does `expr`, read at `line`, denote the array of that kind?"""
    return arrays[kind].get(' '.join(src(expr).split()), 10 ** 9) < line


def _sweep_runs(repo):
    """Every execution of get_power_sweep, by the symbolic executor of C03.R9
    (`_f_c03._paths`: exact rational values, records, the profile evaluation
    as an opaque result with bound arguments; undecided tests fork), over
    (step given?) x (z given?) x the position of the step relative to the
    bundle bounds.  -> [((step given, z given), case, run, returned value,
    node)].  What the sweep hands to `_calculate_pdist` / returns as flat
    power is judged on these values, not on the spelling of the call."""
    from . import _f_c03 as F
    gp = repo.func('power', 'AssemblyPower.get_power_sweep')
    callee = repo.func('power', 'AssemblyPower._calculate_pdist')
    a = gp.node.args
    params = gp.params[1:]
    dflt = dict(zip(params[len(params) - len(a.defaults):], a.defaults))
    if a.vararg or a.kwarg or a.kwonlyargs or any(
            p not in dflt or const(dflt[p], 0) is not None
            for p in ('step', 'z')):
        raise AnalysisError('get_power_sweep: signature')
    out = []
    for sg in (False, True):
        for zg in (False, True):
            init = {p: F.Rat.sym('<%s>' % p) for p in params}
            init.update({'self': F.Rat.sym('self'),
                         'step': F.Rat.sym('<step>') if sg else F.NONE,
                         'z': F.Rat.sym('<z>') if zg else F.NONE})
            for _cn, case in F.CASES:
                for r, val, node in F._paths(gp, callee, init, case):
                    out.append(((sg, zg), case, r, val, node))
    return out


def _sweep_factor_faults(repo):
    """C03.R3 on values: every profile evaluation the sweep returns is
    `_calculate_pdist(I, p, m, self._renorm[I])` -- the factor of the very
    cell I whose profiles are evaluated, at the step position p in cm
    (`_z_abs[i]` or 100 * z), with m the precomputed relative position of the
    same step (`_z_mod[i]`) or None.  -> (number of evaluations, faults)"""
    from . import _f_c03 as F
    callee = repo.func('power', 'AssemblyPower._calculate_pdist')
    if len(callee.params) != 5:
        raise AnalysisError('_calculate_pdist: parameters')
    cell_p, pos_p, rel_p, rn_p = callee.params[1:]
    n, faults = 0, []
    for mode, case, r, val, node in _sweep_runs(repo):
        if not isinstance(val, F.PD):
            continue
        n += 1
        idx = val.bound.get(cell_p)
        rn = val.bound.get(rn_p)
        if not (isinstance(idx, F.Rat) and isinstance(rn, F.Rat) and
                rn.equals(F.Rat.sym('self._renorm[%s]' % F._key(idx)))):
            faults.append((node, 'the renormalisation argument is %s for the '
                           'profiles of cell %s' % (F._show(rn),
                                                    F._show(idx))))
        pos = val.bound.get(pos_p)
        if not r.is_position(pos):
            faults.append((node, 'the position argument %s is not the step '
                           'midpoint in cm' % F._show(pos)))
        rel = val.bound.get(rel_p)
        ps_ = F._one_symbol(pos) or ''
        want = None
        if ps_.startswith(F.POSITION_TABLE):
            want = 'self._z_mod[' + ps_[len(F.POSITION_TABLE):]
        if not (rel is F.NONE or (want is not None and
                                  F._one_symbol(rel) == want)):
            faults.append((node, 'the relative position argument %s does not '
                           'belong to the position %s' % (F._show(rel),
                                                         F._show(pos))))
        if val.touched:
            faults.append((val.touched[0], 'the evaluated profiles are '
                           'modified afterwards'))
    return n, faults


def _sweep_scale_faults(repo):
    """C03.R5 on values: whatever flat power the sweep returns is exactly
    100 * avg_power[.] (W/cm -> W/m once); a position given in metres is
    used as 100 * z -- in the power-cell search, in the bundle test and in
    the profile evaluation.  -> (number of flat records, faults)"""
    from . import _f_c03 as F
    callee = repo.func('power', 'AssemblyPower._calculate_pdist')
    pos_p = callee.params[2]
    zcm = F.Rat.const(100) * F.Rat.sym('<z>')
    n, faults = 0, []
    for (sg, zg), case, r, val, node in _sweep_runs(repo):
        if isinstance(val, F.Rec) and 'refl' in val:
            n += 1
            flat = val['refl']
            idxs = F._avg_index(flat)
            if not (isinstance(flat, F.Rat) and len(idxs) == 1 and
                    flat.equals(F.Rat.const(100) * F.Rat.sym(idxs[0]))):
                faults.append((node, 'the flat power is %s'
                               % F._show(flat)[:120]))
        for b in r.bad_predicates:
            faults.append((b, 'the bundle test `%s` is not made on the '
                           'position in cm' % ' '.join(src(b).split())))
        if zg and not sg:
            for c in set(r.cells):
                if c != 'self.get_kfint(%s)' % F._key(zcm):
                    faults.append((node, 'the power cell of a position z '
                                   'given in metres is looked up as %s' % c))
            if isinstance(val, F.PD):
                pos = val.bound.get(pos_p)
                if not (isinstance(pos, F.Rat) and pos.equals(zcm)):
                    faults.append((node, 'the profiles are evaluated at %s '
                                   'for a position z given in metres'
                                   % F._show(pos)))
    return n, faults


def r3(ctx):
    repo = ctx.repo
    cls = repo.cls('power', 'AssemblyPower')
    # methods that evaluate the polynomials along z, or call _calculate_pdist
    targets = []
    for nm, m in cls.methods.items():
        if nm in ('__init__', '_calculate_pdist'):
            continue
        evaluates = _evaluates_profiles(m.node)
        calls = bool(U.attr_calls(m.node, '_calculate_pdist'))
        zdep = any(p in m.params for p in ('z', 'z_midpoints', 'zpts', 'step'))
        if (evaluates or calls) and zdep:
            targets.append(m)
    if len(targets) < 4:
        raise AnalysisError('AssemblyPower: expected >= 4 z-evaluating '
                            'methods, found %s' % [t.name for t in targets])
    for m in targets:
        lo, hi = _bounds_predicate(m.node)
        # out-of-bundle: z <= lo or z > hi   | in-bundle: z > lo and z <= hi
        ok = bool(lo) and bool(hi) and \
            all(op in (ast.LtE, ast.Gt) for op, n in lo) and \
            all(op in (ast.Gt, ast.LtE) for op, n in hi)
        # consistency of polarity within one predicate: (<=, >) or (>, <=)
        if ok:
            pairs = {(lo[0][0], hi[0][0])}
            ok = pairs <= {(ast.LtE, ast.Gt), (ast.Gt, ast.LtE)}
        ctx.require(ok, 'C03.R3', m, (lo or hi or [(None, m.node)])[0][1],
                    '%s evaluates the component profiles along z without the '
                    'bundle-bounds predicate (z <= rod_zbnds[0] or z > '
                    'rod_zbnds[1]) the sweep uses: steps outside the bundle '
                    'get the flat average in the sweep, so a total/'
                    'renormalisation computed here disagrees with what is '
                    'delivered' % m.name,
                    key='%s | bundle predicate' % m.full)
    # presweep: the predicate must select the steps that enter `total`
    ps = repo.func('power', 'AssemblyPower.presweep_setup')
    lo, hi = _bounds_predicate(ps.node)
    if lo and hi:
        # name bound to the predicate
        pred_names = set()
        for a in walk_no_nested(ps.node):
            if isinstance(a, ast.Assign) and len(a.targets) == 1 and \
                    isinstance(a.targets[0], ast.Name) and \
                    'self.rod_zbnds[0]' in src(a.value):
                pred_names.add(a.targets[0].id)
        # masks used to select dz and z_mod per region
        loops = [n for n in walk_no_nested(ps.node) if isinstance(n, ast.For)
                 and src(n.iter) == 'range(self.n_region)']
        ok = len(loops) == 1
        sel = []
        if ok:
            # the selections <step sizes in cm>[mask] / <relative positions
            # stored for the sweep>[mask], possibly inside a call; the
            # arrays are recognised by what they hold (_presweep_arrays)
            arrays = _presweep_arrays(ps)
            kf = src(loops[0].target)
            kinds = []
            for a in walk_no_nested(loops[0]):
                if not isinstance(a, ast.Assign):
                    continue
                for x in ast.walk(a.value):
                    kind = [k for k in ('dz', 'rel') if isinstance(
                        x, ast.Subscript) and isinstance(x.ctx, ast.Load)
                        and _denotes(arrays, k, x.value, a.lineno)]
                    if kind:
                        e = U.expand_locals(ps.node, x.slice, depth=1,
                                            before=a.lineno,
                                            keep=pred_names)
                        sel.append((a, e))
                        kinds.append(kind[0])

            def in_cell(a, e):
                # the mask contains `<cell array of the sweep> == <loop
                # variable>`
                for c in ast.walk(e):
                    if isinstance(c, ast.Compare) and len(c.ops) == 1 and \
                            isinstance(c.ops[0], ast.Eq):
                        l, r = c.left, c.comparators[0]
                        for u, v in ((l, r), (r, l)):
                            if src(u) == kf and _denotes(arrays, 'cell', v,
                                                         a.lineno):
                                return True
                return False
            ok = sorted(set(kinds)) == ['dz', 'rel'] and all(
                any(p in {x.id for x in ast.walk(e)
                          if isinstance(x, ast.Name)} for p in pred_names)
                or 'self.rod_zbnds' in src(e) for a, e in sel) and \
                all(in_cell(a, e) for a, e in sel)
        ctx.require(ok, 'C03.R3', ps, sel[0][0] if sel else ps.node,
                    'the per-cell midpoint total must be taken over the steps '
                    'of that cell that lie inside the bundle (mask = cell & '
                    'in-bundle) for both the step sizes and the positions',
                    key=ps.full + ' | mask selects in-bundle steps')
        # normalisation target = avg_power[kf] * sum(selected dz)
        tgt = find_all('expected[kf] = self.avg_power[kf] * '
                       'np.sum(dz_in_region)', ps.node, 'stmt')
        rn = [a for a in U.assigns_of(ps.node, 'renorm')
              if isinstance(a, ast.Assign)]
        uses_full_cell = any('dz_finemesh' in src(a.value) for a in rn)
        ctx.require(bool(tgt) and not uses_full_cell, 'C03.R3', ps,
                    tgt[0][0] if tgt else (rn[0] if rn else ps.node),
                    'the renormalisation target must be avg_power times the '
                    'height covered by the selected steps, not the full cell '
                    'height', key=ps.full + ' | normalisation target')
    _presweep_presence(ctx, ps)
    # the factor is stored and consumed per cell
    # value stored as the per-cell factor (locals expanded flow-sensitively)
    st = [x for t, x in U.stores(ps.node) if src(t) == 'self._renorm'
          and isinstance(x, ast.Assign)]
    stored = None
    if len(st) == 1:
        stored = ' '.join(src(U.value_at(ps.node, st[0].value, st[0].lineno,
                                         keep=('expected', 'total'))).split())
    gp = repo.func('power', 'AssemblyPower.get_power_sweep')
    # decided on the values the sweep hands to the profile evaluation on
    # each of its executions (not on the spelling of the call)
    n_use, faults = _sweep_factor_faults(repo)
    ctx.require(bool(st) and n_use > 0 and not faults, 'C03.R3', gp,
                faults[0][0] if faults else gp.node,
                'the sweep must apply the factor of the current power cell'
                + (' (%s)' % faults[0][1] if faults else ''),
                key=gp.full + ' | renorm applied')
    # division guarded against empty cells
    dv = stored == ('np.divide(expected, total, out=np.ones_like(expected), '
                    'where=total != 0)')
    ctx.require(bool(dv), 'C03.R3', ps, st[0] if st else ps.node,
                'cells without in-bundle power keep factor 1',
                key=ps.full + ' | zero total')


def r4(ctx):
    fi = ctx.repo.func('reactor', 'Reactor._setup_scale_asm_power')
    plist, pcalc, ptot, pscal = fi.params[:4]
    blocks = {}
    for factor in ('renorm', pscal):
        got = []
        for st in walk_no_nested(fi.node):
            if isinstance(st, ast.AugAssign) and isinstance(st.op, ast.Mult) \
                    and src(st.value) == factor:
                got.append(st)
        blocks[factor] = got
    want = ['%s[i][0][k]' % plist, '%s[i][1]' % plist, '%s[i][2]' % plist]
    for factor, got in blocks.items():
        tg = sorted(src(s.target) for s in got)
        ctx.require(tg == sorted(want), 'C03.R4', fi,
                    got[0] if got else fi.node,
                    'scaling by %s must be applied to component profiles, '
                    'average profile and assembly total (applied to %s)'
                    % (factor, tg), key='%s | targets of %s' % (fi.full,
                                                               factor))
        for s in got:
            if src(s.target).endswith('[k]'):
                lp = [l for l in U.enclosing_loops(s)
                      if src(l.target) == 'k']
                okk = lp and U.literal_list(lp[0].iter) == ['pins', 'duct',
                                                            'cool']
                ctx.require(bool(okk), 'C03.R4', fi, s, 'all three components '
                            'must be scaled', key='%s | components of %s'
                            % (fi.full, factor))
            # every defined assembly is visited
            lps = [l for l in U.enclosing_loops(s) if src(l.target) == 'i']
            oki = lps and src(lps[0].iter) == 'range(len(%s))' % plist
            ctx.require(bool(oki), 'C03.R4', fi, s, 'every assembly must be '
                        'scaled', key='%s | all assemblies %s %s'
                        % (fi.full, factor, src(s.target)))
    # the factors applied on a path are the factors of the returned total
    # on that path: enumerate (normalisation requested?) x (scaling != 1?)
    from .. import dataflow
    for has_norm in (False, True):
        for has_scal in (False, True):
            env = {ptot: 1.0 if has_norm else None,
                   pscal: 2.0 if has_scal else 1.0}
            applied = {}
            for factor, got in blocks.items():
                for st in got:
                    conds = U.guards(st) + dataflow.path_conditions(fi, st)
                    runs = True
                    for t, pol in conds:
                        v = U.eval_test(t, env)
                        if v is not None and v != pol:
                            runs = False
                    if runs:
                        applied.setdefault(src(st.target), []).append(factor)
            expect = sorted((['renorm'] if has_norm else []) +
                            ([pscal] if has_scal else []))
            bad = {t: f for t, f in applied.items() if sorted(f) != expect}
            miss = [t for t in want if t not in applied] if expect else []
            ctx.require(not bad and not miss, 'C03.R4', fi, fi.node,
                        'with normalisation %s and scaling factor %s the '
                        'targets must be multiplied by exactly %s (the '
                        'factors of the returned core total on that path); '
                        'found %s%s' % (
                            'requested' if has_norm else 'absent',
                            '!= 1' if has_scal else '== 1', expect or
                            'nothing', bad or applied,
                            '; not scaled: %s' % miss if miss else ''),
                        note='norm=%s scaling=%s' % (has_norm, has_scal),
                        key='%s | factors norm=%s scal=%s'
                        % (fi.full, has_norm, has_scal))
    rets = [n for n in walk_no_nested(fi.node) if isinstance(n, ast.Return)]
    ok = len(rets) == 1 and isinstance(rets[0].value, ast.Tuple) and \
        src(rets[0].value.elts[0]) == plist
    if ok:
        pf = rets[0].value.elts[1]
        terms = sorted(src(x) for x in _mul_terms(pf))
        ok = terms == sorted([pcalc, 'renorm', pscal])
    ctx.require(ok, 'C03.R4', fi, rets[0] if rets else fi.node,
                'returned core power must be pcalc * renorm * pscalar',
                key=fi.full + ' | returned total')
    rd = [a for a in U.assigns_of(fi.node, 'renorm')]
    vals = sorted(src(a.value) for a in rd if isinstance(a, ast.Assign))
    ctx.require(vals == ['0.0', '1.0', '%s / %s' % (ptot, pcalc)], 'C03.R4',
                fi, rd[0] if rd else fi.node,
                'renorm is 1 (no request), 0 (zero power) or requested / '
                'calculated (found %s)' % vals, key=fi.full + ' | renorm defs')
    # caller stores the returned total
    sa = ctx.repo.func('reactor', 'Reactor._setup_asm_power')
    h = find_all('asm_power, total_power = self._setup_scale_asm_power('
                 'asm_power, core_total_power, inp.data[\'Power\']'
                 '[\'total_power\'], inp.data[\'Power\']'
                 '[\'power_scaling_factor\'])', sa.node, 'stmt')
    h2 = find_all('self.total_power = total_power', sa.node, 'stmt')
    h3 = find_all('core_total_power += tot_power', sa.node, 'stmt')
    ctx.require(bool(h and h2 and h3) and not U.guards(h3[0][0]), 'C03.R4',
                sa, h[0][0] if h else sa.node,
                'core total = sum of assembly totals, scaled by the user '
                'request', key=sa.full + ' | core total')


def _mul_terms(e):
    if isinstance(e, ast.BinOp) and isinstance(e.op, ast.Mult):
        return _mul_terms(e.left) + _mul_terms(e.right)
    return [e]


def r5(ctx):
    repo = ctx.repo
    ff = repo.func('power', '_from_file')
    h1 = find_all('pp[:, 2] *= 100.0', ff.node, 'stmt')
    h2 = find_all('pp[:, 3] *= 100.0', ff.node, 'stmt')
    h3 = find_all('pp[:, i + 5] /= 100', ff.node, 'stmt')
    ok = bool(h1 and h2 and h3)
    if ok:
        lp = U.enclosing_loops(h3[0][0])
        ok = bool(lp) and src(lp[0].iter) == 'range(pp.shape[1] - 5)'
    ctx.require(ok, 'C03.R5', ff, h3[0][0] if h3 else ff.node,
                'file data: bounds m->cm (*100), every coefficient W/m->W/cm '
                '(/100)', key=ff.full + ' | input scale')
    # evaluation sites multiply by 100 (W/cm -> W/m)
    cp = repo.func('power', 'AssemblyPower._calculate_pdist')
    n100 = sum(1 for t, st in U.stores(cp.node)
               if isinstance(st, ast.Assign) and '* 100' in src(st.value))
    ctx.require(n100 == 3, 'C03.R5', cp, cp.node,
                'each component evaluation converts W/cm -> W/m once',
                key=cp.full + ' | output scale')
    for q in ('AssemblyPower.get_power', 'AssemblyPower.get_power_sweep'):
        fi = repo.func('power', q)
        h = find_all('self.avg_power[kf] * 100', fi.node)
        hz = find_all('z = z * 100', fi.node, 'stmt')
        ok, why = len(h) == 1 and len(hz) == 1, ''
        if q.endswith('_sweep'):
            # the sweep is decided on the values of its executions: the
            # returned flat power and the position used for a given z
            n_flat, faults = _sweep_scale_faults(repo)
            ok = n_flat > 0 and not faults
            why = ' (%s)' % faults[0][1] if faults else ''
            h = [(faults[0][0],)] if faults else h
        ctx.require(ok, 'C03.R5', fi,
                    h[0][0] if h else fi.node,
                    'flat average power converted W/cm -> W/m once; z m->cm'
                    + why, key=fi.full + ' | scale')
    ps = repo.func('power', 'AssemblyPower.presweep_setup')
    h = find_all('z_abs = np.around(z_midpoints * 100, 12)', ps.node, 'stmt')
    h2 = find_all('dz_abs = dz * 100', ps.node, 'stmt')
    ctx.require(bool(h and h2), 'C03.R5', ps, h[0][0] if h else ps.node,
                'pre-sweep works in cm for both positions and steps',
                key=ps.full + ' | scale')
    # Reactor: axial bounds come back to metres
    ab = repo.func('reactor', 'Reactor._setup_axial_region_bnds')
    # (on values, rules/_c05_r3.py: every mesh point of every user power
    # entry is in the stored boundary set with the factor 0.01)
    from . import _c05_r3
    ok, why = _c05_r3.user_mesh_scale(repo)
    h = find_all("self.power['user'][Q_i][1]['zfm']", ab.node)
    ctx.require(ok, 'C03.R5', ab, h[0][0] if h else ab.node,
                'power mesh bounds converted cm -> m for the axial mesh'
                + (': ' + why if why else ''),
                key=ab.full + ' | zfm scale')


_TABLES = ('_z_abs', '_z_mod', '_kfint')


def _counter_paths(fn, step, z):
    """Abstract execution of get_power_sweep (loop-free) over the finite
    domain (step given?) x (z given?), by the checker's own evaluator.
    Values: ('none',) | ('given', name) | ('ctr', n) = the value of
    self._step after n increments | ('tab', table, index value) | None =
    unknown.  A test that cannot be decided splits the path.  Returns
    {(step given, z given): [path, ...]}, a path being {'incs': [stmt],
    'reads': [(table, index value, stmt)], 'bad': [stmt]}; None if a
    statement kind is not modelled."""
    NONE = ('none',)

    class Unsupported(Exception):
        pass

    def is_ctr(e):
        return isinstance(e, ast.Attribute) and e.attr == '_step'

    def value(e, st_):
        env, ver = st_['env'], st_['ver']
        if isinstance(e, ast.Constant) and e.value is None:
            return NONE
        if isinstance(e, ast.Name):
            return env.get(e.id)
        if is_ctr(e):
            return ('ctr', ver) if src(e) == 'self._step' else None
        if isinstance(e, ast.Subscript) and src(e.value) in [
                'self.' + t for t in _TABLES]:
            return ('tab', e.value.attr, value(e.slice, st_))
        if is_flag(e):
            # a flag: the truth value of a test on the entry mode, decided
            # where it is computed (`use_counter = step is None and z is
            # None`)
            v = truth(e, st_)
            return None if v is None else ('bool', v)
        return None

    def is_flag(e):
        """an expression that always yields a genuine bool: a comparison, a
        negation, or an and / or of such (an and / or of other operands
        yields one of the operands)"""
        if isinstance(e, ast.BoolOp):
            return all(is_flag(x) for x in e.values)
        return isinstance(e, ast.Compare) or (
            isinstance(e, ast.UnaryOp) and isinstance(e.op, ast.Not))

    def note_reads(e, st_, stmt):
        for x in ast.walk(e):
            if isinstance(x, ast.Subscript) and isinstance(
                    x.ctx, ast.Load) and src(x.value) in [
                        'self.' + t for t in _TABLES]:
                st_['reads'].append((x.value.attr, value(x.slice, st_),
                                     stmt))

    def truth(e, st_):
        if isinstance(e, ast.BoolOp):
            vs = [truth(x, st_) for x in e.values]
            if isinstance(e.op, ast.And):
                if any(v is False for v in vs):
                    return False
                return True if all(v is True for v in vs) else None
            if any(v is True for v in vs):
                return True
            return False if all(v is False for v in vs) else None
        if isinstance(e, ast.UnaryOp) and isinstance(e.op, ast.Not):
            v = truth(e.operand, st_)
            return None if v is None else not v
        if isinstance(e, ast.Compare) and len(e.ops) == 1 and isinstance(
                e.ops[0], (ast.Is, ast.IsNot)):
            a, b = value(e.left, st_), value(e.comparators[0], st_)
            if b != NONE:
                a, b = b, a
            if b != NONE or a is None or a[0] == 'tab':
                return None
            res = a == NONE
            return res if isinstance(e.ops[0], ast.Is) else not res
        if isinstance(e, ast.Name) and st_['env'].get(e.id) == NONE:
            return False
        if isinstance(e, ast.Name) and (st_['env'].get(e.id) or ())[:1] == (
                'bool',):
            return st_['env'][e.id][1]
        return None

    def fork(st_):
        return {'env': dict(st_['env']), 'ver': st_['ver'],
                'incs': list(st_['incs']), 'reads': list(st_['reads']),
                'bad': list(st_['bad'])}

    def run(stmts, states):
        """states -> (states falling through, finished states)"""
        done = []
        for st in stmts:
            if not states:
                break
            if len(states) + len(done) > 256:
                raise Unsupported()
            if isinstance(st, ast.Expr) and isinstance(st.value,
                                                       ast.Constant):
                continue
            if isinstance(st, ast.If):
                nxt = []
                for s_ in states:
                    note_reads(st.test, s_, st)
                    v = truth(st.test, s_)
                    for pol, blk in ((True, st.body), (False, st.orelse)):
                        if v is None or v == pol:
                            out, fin = run(blk, [fork(s_)])
                            nxt += out
                            done += fin
                states = nxt
                continue
            if isinstance(st, (ast.Return, ast.Raise)):
                for s_ in states:
                    if getattr(st, 'value', None) is not None:
                        note_reads(st.value, s_, st)
                done += states
                states = []
                continue
            if isinstance(st, (ast.Assign, ast.AugAssign, ast.Expr)):
                for s_ in states:
                    note_reads(st.value, s_, st)
                    tgs = st.targets if isinstance(st, ast.Assign) else (
                        [st.target] if isinstance(st, ast.AugAssign) else [])
                    for t in tgs:
                        if is_ctr(t):
                            if isinstance(st, ast.AugAssign) and isinstance(
                                    st.op, ast.Add) and const(st.value) == 1 \
                                    and src(t) == 'self._step':
                                s_['incs'].append(st)
                                s_['ver'] += 1
                            else:
                                s_['bad'].append(st)
                        elif isinstance(t, ast.Name):
                            s_['env'][t.id] = value(st.value, s_) if \
                                isinstance(st, ast.Assign) else None
                        elif isinstance(t, (ast.Tuple, ast.List)):
                            for x in ast.walk(t):
                                if isinstance(x, ast.Name):
                                    s_['env'][x.id] = None
                                elif is_ctr(x):
                                    s_['bad'].append(st)
                continue
            if isinstance(st, ast.Pass):
                continue
            raise Unsupported()
        return states, done

    out = {}
    try:
        for sg in (False, True):
            for zg in (False, True):
                init = {'env': {step: ('given', step) if sg else NONE,
                                z: ('given', z) if zg else NONE},
                        'ver': 0, 'incs': [], 'reads': [], 'bad': []}
                rest, fin = run(fn.body, [init])
                out[(sg, zg)] = rest + fin
    except Unsupported:
        return None
    return out


def r6(ctx):
    repo = ctx.repo
    fi = repo.func('power', 'AssemblyPower.get_power_sweep')
    incs = [st for st in walk_no_nested(fi.node) if isinstance(st,
                                                               ast.AugAssign)
            and src(st.target) == 'self._step']
    ok = len(incs) == 1 and isinstance(incs[0].op, ast.Add) and \
        const(incs[0].value) == 1 and 'step' in fi.params and \
        'z' in fi.params
    why = ''
    if ok:
        # decided on the executions of the function over (step given?) x
        # (z given?): the counter advances exactly once, and only when
        # neither is given; on that path each of the three precomputed
        # tables is read, and every read of them uses the value the counter
        # had before it advanced (directly or through a local that captured
        # it)
        paths = _counter_paths(fi.node, 'step', 'z')
        if paths is None:
            ok = False
            why = ' (statement form not modelled)'
        else:
            for (sg, zg), ps in sorted(paths.items()):
                for p_ in ps:
                    if p_['bad']:
                        ok = False
                        why = ' (other store to the counter)'
                    if sg or zg:
                        if p_['incs']:
                            ok = False
                            why = ' (counter advanced although %s is given)' \
                                % ('step' if sg else 'z')
                        continue
                    reads = sorted((t, v) for t, v, _s in p_['reads'])
                    if len(p_['incs']) != 1:
                        ok = False
                        why = ' (counter advanced %d times without step ' \
                            'and z)' % len(p_['incs'])
                    elif reads != sorted((t, ('ctr', 0)) for t in _TABLES):
                        ok = False
                        why = ' (tables read on the counter path: %s)' % [
                            '%s[%s]' % (t, 'counter before advancing'
                                        if v == ('ctr', 0) else
                                        'counter after advancing'
                                        if v and v[0] == 'ctr' else
                                        'other') for t, v in reads]
                if not ps:
                    ok = False
    ctx.require(ok, 'C03.R6', fi, incs[0] if incs else fi.node,
                'the counter branch must read the three precomputed tables at '
                'self._step and then advance the counter by one, on that '
                'branch only' + why, key=fi.full + ' | counter branch')
    # other writers of _step
    writers = []
    for f in repo.all_funcs():
        for t, st in U.stores(f.node):
            if isinstance(t, ast.Attribute) and t.attr == '_step':
                writers.append((f, st))
    names = sorted({f.qual for f, st in writers})
    ctx.require(names == ['AssemblyPower.__init__',
                          'AssemblyPower.get_power_sweep', 'Reactor.reset'],
                'C03.R6', fi, None, 'writers of the sweep counter: %s' % names,
                key='dassh.power | _step writers')
    rs = repo.func('reactor', 'Reactor.reset')
    h = find_all('self.assemblies[i].power._step = 0', rs.node, 'stmt')
    ok = bool(h) and not U.guards(h[0][0]) and \
        src(U.enclosing_loops(h[0][0])[0].iter) == \
        'range(len(self.assemblies))'
    ctx.require(ok, 'C03.R6', rs, h[0][0] if h else rs.node,
                'reset must zero the counter of every assembly',
                key=rs.full + ' | reset counter')
    # Assembly.calculate uses the counter path iff no explicit z is given
    ac = repo.func('assembly', 'Assembly.calculate')
    h1 = find_all('pow_j = self.power.get_power_sweep()', ac.node, 'stmt')
    h2 = find_all('pow_j = self.power.get_power_sweep(z=z_mp)', ac.node,
                  'stmt')
    zm = U.single_def(ac.node, 'z_mp')
    ctx.require(bool(h1 and h2) and zm is not None and
                src(zm) == 'z - 0.5 * ' + ac.params[1], 'C03.R6', ac,
                h2[0][0] if h2 else ac.node, 'explicit-z path evaluates the '
                'power at the step midpoint', key=ac.full + ' | midpoint')
