"""C08.R10 -- the centroid-distance table L of calculate_geometry holds, for
every pair of cell types that can be adjacent, the distance between the
centroids of the two cells -- for every ring count and for EVERY bypass gap.

Clause decided.  "Centroid coordinates agree with the adjacency" and "the
geometric constants (d, L) are well-formed for 1-3 ducts": the conduction
between two adjacent cells uses L[type a][type b] as the distance between
their centroids, so a necessary condition is that each entry equals the
distance between the centroids `Subchannel.find_sc_xy` places (interior
cells on the triangle centroids, edge cells halfway between the outer pin row
and the wall, bypass cells on the mid-surface of their gap -- C08.R5/R8 pin
the placement).  With e = (F[0,0] - sqrt3 P (n-1))/2 the distance from the
outer pin row to the inner wall and W(g) = (F[g,1] + F[g+1,0])/(4 sqrt3) -
P (n-1)/2 the half side of the mid-surface hexagon of gap g less the (n-1)/2
edge pitches (the corner share of that side):

    L[0][0] = P/sqrt3               L[0][1] = L[1][0] = (P/sqrt3 + e)/2
    L[1][1] = P                     L[5][5][g] = P
    L[5][6][g] = L[6][5][g] = W(g) + P/2          L[6][6][g] = 2 W(g)

for every gap index 0 <= g < n_duct - 1.  (L[1][2] and L[2][2] are
definitional -- they do not agree with the placed centroids on the pinned
tree either -- and are not decided.)

How.  A small abstract interpreter runs over the statements of (each
value-test specialisation, C08.R9, of) the function in program order:

* scalars are exact rational functions (`poly.Rat`, sqrt3 an atom with
  r3^2 = 3) of P, D, n_ring and the flat-to-flat atoms F[index, face];
  reads of `d[...]` go through `_hexgeom.Geo` (definitions expanded, the
  corner lengths by the closed form C08.R4 establishes);
* a list indexed by the gap is a stack of *layers*: single elements, whole
  fills (comprehension, `[v] * n`, `np.zeros(n)`) as a function of the
  index, and the elements a loop writes;
* a loop over the gaps is decided by **induction with a symbolic index**:
  the body is evaluated once at index i (and once at i + 1) with every local
  that is carried from one iteration to the next replaced by an unknown;
  reads of earlier elements of the table use the closed form (induction
  hypothesis; the elements the first iteration reads from before the loop are
  checked to satisfy it); the equation "stored value = closed form at i"
  is *solved* for the carried unknown (it is linear), which yields the only
  invariant X(i) under which the stores are right; the rule then checks that
  the value before the loop is X(first index), that the body turns X(i) into
  X(i + 1), and that every other store of the body is right under X.  A
  running distance that forgets a term between two iterations fails the
  step; a recurrence with a wrong increment fails its equation; a loop that
  stops early fails the range check;
* tests on extents / the loop position are decided for "many gaps" and the
  assumed lower bound of the index; a test on the loop variable that is not
  decided symbolically makes the first iteration be peeled (run with the
  concrete index) and the induction start one later.

At the end every required entry must have been stored, and the layer that
is in force for each index (concrete indices below the start of the last
loop / fill, and the symbolic rest) must equal the closed form.

Nothing is matched by form: recurrence on the previous element, running
accumulator, closed form from `dftf` or from `d['wcorner']`, comprehension,
base case inside the loop behind `if i == 0`, hoisted temporaries, commuted
factors all reach the same normal forms.

Trusted: the closed forms above (read off the centroid placement; the seed's
demo confirms them numerically against `Subchannel.xy`), `_hexgeom`'s atom
table, and that lists are long enough (C08.R2).  Limits: a construct the
interpreter does not model inside a value that reaches L shows up as an
unknown `<...>` in the residual and is reported (fail closed, also when
harmless); loops other than `for v in range(...)` that write L, carried
locals that enter an equation non-linearly or several at once, and tests
that mix the loop variable with the number of gaps raise AnalysisError.
"""
import ast

from ..core import AnalysisError, const, src, call_name
from ..poly import Poly, Rat, NotPolynomial
from ._hexgeom import (Geo, F, R3, N, P_, D_, DW, PI, CT, c, reduce_r3,
                       is_zero, wcorner_cf)

PROPS = ('C08',)
RULE = 'C08.R10'

I_ = Rat.sym('i')            # the symbolic gap index (as in _hexgeom)
ND = Rat.sym('n_duct')       # number of ducts
NB = ND - c(1)               # number of bypass gaps
TABLE = 'L'


def _s(n):
    return ' '.join(src(n).split())


# ---------------------------------------------------------------------------
# closed forms (the clause)

def _e():
    return (F(c(0), 0) - R3 * P_ * (N - c(1))) / c(2)


def _w(j):
    return (F(j, 1) + F(j + c(1), 0)) / (c(4) * R3) - P_ * (N - c(1)) / c(2)


SCALAR_CF = {
    (0, 0): (lambda: P_ / R3, 'interior-interior: P/sqrt3'),
    (0, 1): (lambda: (P_ / R3 + _e()) / c(2),
             'interior-edge: (P/sqrt3 + pin row to wall)/2'),
    (1, 0): (lambda: (P_ / R3 + _e()) / c(2),
             'edge-interior: (P/sqrt3 + pin row to wall)/2'),
    (1, 1): (lambda: P_, 'edge-edge: P'),
}
SEQ_CF = {
    (5, 5): (lambda j: P_, 'bypass edge-edge of gap g: P'),
    (5, 6): (lambda j: _w(j) + P_ / c(2),
             'bypass edge-corner of gap g: W(g) + P/2, W(g) = (F[g,1] + '
             'F[g+1,0])/(4 sqrt3) - P (n-1)/2 on the mid-surface of gap g'),
    (6, 5): (lambda j: _w(j) + P_ / c(2),
             'bypass corner-edge of gap g: W(g) + P/2, W(g) = (F[g,1] + '
             'F[g+1,0])/(4 sqrt3) - P (n-1)/2 on the mid-surface of gap g'),
    (6, 6): (lambda j: c(2) * _w(j),
             'bypass corner-corner of gap g: 2 W(g), W(g) = (F[g,1] + '
             'F[g+1,0])/(4 sqrt3) - P (n-1)/2 on the mid-surface of gap g'),
}


def _res(r):
    return repr(reduce_r3(r).n)


# ---------------------------------------------------------------------------
# abstract lists

SPLIT = ('split',)      # different layers are in force over the index range


class _Seq:
    """A list indexed by the gap: layers in program order.
    ('const', k, Rat, stmt) | ('fill', lo, hi, fn, stmt) |
    ('loop', lo, hi, ok, stmt)"""

    def __init__(self):
        self.layers = []

    def copy(self):
        s = _Seq()
        s.layers = list(self.layers)
        return s

    def at_const(self, k):
        for ly in reversed(self.layers):
            if ly[0] == 'const' and ly[1] == k:
                return ly
            if ly[0] in ('fill', 'loop') and ly[1] <= k:
                return ly
        return None

    def at_sym(self, kmin):
        """The layer in force for every index >= kmin, None if there is none
        or it is not the same for all of them."""
        for ly in reversed(self.layers):
            if ly[0] == 'const':
                if ly[1] >= kmin:
                    return SPLIT
                continue
            if ly[1] <= kmin:
                return ly
            return SPLIT
        return None


class _NeedPeel(Exception):
    pass


class _Return(Exception):
    pass


class _State:
    def __init__(self):
        self.env = {}           # scalar locals -> Rat
        self.seq = {}           # ('L', a, b) | ('v', name) -> _Seq
        self.scal = {}          # ('L', a, b) -> (Rat, stmt)
        self.sub = {}           # loop variables -> Rat index
        self.jmin = None        # lower bound of the symbolic index
        self.sym = None         # symbolic iteration record or None

    def fork(self):
        s = _State()
        s.env = dict(self.env)
        # aliases (L[6][5] = L[5][6]) stay aliases in the fork
        ident = {}
        for k, v in self.seq.items():
            if id(v) not in ident:
                ident[id(v)] = v.copy()
            s.seq[k] = ident[id(v)]
        s.scal = dict(self.scal)
        s.sub = dict(self.sub)
        s.jmin = self.jmin
        s.sym = self.sym
        return s


class _SymIter:
    """Record of one iteration evaluated at a symbolic index."""

    def __init__(self, J, jmin, imin, carried):
        self.J = J
        self.jmin = jmin                # lower bound of the index J
        self.imin = imin                # lower bound of the symbol i
        self.carried = carried          # {name: '@name'}
        self.stores = []                # (key, idx Rat, Rat, stmt)
        self.loop_keys = set()          # lists the loop stores into
        self.hyp = {}                   # key -> set of offsets k (reads J-k)


class _Interp:
    def __init__(self, fi):
        self.fi = fi
        self.geo = Geo(fi)
        self.records = []       # (ok, node, what, key, note)
        self.local_cf = {}      # local list name -> (a, b) it is stored to
        self.n_unknown = 0
        self._elem = None
        for n in ast.walk(fi.node):
            if not (isinstance(n, ast.Assign) and len(n.targets) == 1):
                continue
            for t, v in self._pairs(n.targets[0], n.value):
                if isinstance(v, ast.Name) and isinstance(t, ast.Subscript):
                    p = self._table_path(t)
                    if p is not None and len(p[1]) == 0 and p[0] in SEQ_CF:
                        self.local_cf.setdefault(v.id, p[0])

    @staticmethod
    def _pairs(t, v):
        """`a, b = x, y` -> [(a, x), (b, y)]"""
        if isinstance(t, (ast.Tuple, ast.List)) and \
                isinstance(v, (ast.Tuple, ast.List)) and \
                len(t.elts) == len(v.elts) and not any(
                    isinstance(x, ast.Starred) for x in t.elts + v.elts):
            return list(zip(t.elts, v.elts))
        return [(t, v)]

    # -- reporting ---------------------------------------------------------
    def req(self, ok, node, what, key, note=''):
        self.records.append((bool(ok), node, what, key, note))
        return bool(ok)

    # -- helpers -----------------------------------------------------------
    def _table_path(self, t):
        """L[a][b]<[idx]...> -> ((a, b), [idx nodes]); None if not the
        table.  L[a, b] is not used by the package."""
        idx = []
        n = t
        while isinstance(n, ast.Subscript):
            idx.insert(0, n.slice)
            n = n.value
        if not (isinstance(n, ast.Name) and n.id == TABLE) or len(idx) < 2:
            return None
        a, b = const(idx[0]), const(idx[1])
        if not (isinstance(a, int) and isinstance(b, int)):
            raise AnalysisError('calculate_geometry: L indexed by a '
                                'non-constant cell type: ' + _s(t))
        return (a, b), idx[2:]

    def unknown(self, text):
        # every occurrence is its own symbol: two unknown quantities never
        # cancel each other in a residual
        self.n_unknown += 1
        return Rat.sym('<%s #%d>' % (text, self.n_unknown))

    def cf_of(self, key):
        if key[0] == 'L':
            e = SEQ_CF.get(key[1:])
        else:
            p = self.local_cf.get(key[1])
            e = SEQ_CF.get(p) if p else None
        return e

    # -- expressions -------------------------------------------------------
    def index(self, node, st):
        try:
            r = self.conv(node, st)
        except NotPolynomial as e:
            raise AnalysisError('calculate_geometry: index %s: %s'
                                % (_s(node), e))
        if r.d != Poly.const(1) or not r.n.symbols() <= {'i'}:
            r2 = reduce_r3(r)
            if r2.d != Poly.const(1) or not r2.n.symbols() <= {'i'}:
                raise NotPolynomial('index ' + _s(node))
            r = r2
        return r

    @staticmethod
    def as_int(r):
        if r.n.symbols() or r.d != Poly.const(1):
            return None
        v = r.n.t.get((), 0)
        return int(v) if v == int(v) else None

    def conv(self, node, st):
        s = _s(node)
        v = const(node)
        if isinstance(v, bool):
            return self.unknown(s)
        if isinstance(v, (int, float)):
            from fractions import Fraction
            return c(Fraction(str(v)))
        if s == '_sqrt3':
            return R3
        if s == '_sqrt3over3':
            return R3 / c(3)
        if s in ('np.pi', 'math.pi'):
            return PI
        if isinstance(node, ast.UnaryOp) and isinstance(node.op, ast.USub):
            return -self.conv(node.operand, st)
        if isinstance(node, ast.UnaryOp) and isinstance(node.op, ast.UAdd):
            return self.conv(node.operand, st)
        if isinstance(node, ast.BinOp):
            if isinstance(node.op, ast.Pow):
                e = const(node.right)
                if isinstance(e, int) and not isinstance(e, bool):
                    return self.conv(node.left, st) ** e
                if e == 0.5 and const(node.left) in (3, 3.0):
                    return R3
                return self.unknown(s)
            l = self.conv(node.left, st)
            r = self.conv(node.right, st)
            if isinstance(node.op, ast.Add):
                return l + r
            if isinstance(node.op, ast.Sub):
                return l - r
            if isinstance(node.op, ast.Mult):
                return l * r
            if isinstance(node.op, ast.Div):
                if r.n.is_zero():
                    return self.unknown(s)
                return l / r
            return self.unknown(s)
        if isinstance(node, ast.Name):
            if node.id in st.sub:
                return st.sub[node.id]
            if node.id in st.env:
                return st.env[node.id]
            atom = {'n_ring': N, 'P': P_, 'D': D_, 'Dw': DW}.get(node.id)
            if atom is not None and node.id in self.fi.params:
                return atom
            return self.unknown(node.id)
        if isinstance(node, ast.Call):
            fn = call_name(node) or ''
            if fn == 'len' and len(node.args) == 1:
                n = self.length_of(node.args[0], st)
                return n if n is not None else self.unknown(s)
            if fn in ('float', 'np.float64') and len(node.args) == 1:
                return self.conv(node.args[0], st)
            if fn in ('np.sqrt', 'math.sqrt', 'sqrt') and \
                    len(node.args) == 1 and const(node.args[0]) in (3, 3.0):
                return R3
            return self.unknown(s)
        if isinstance(node, ast.IfExp):
            t = self.decide(node.test, st)
            if t is None:
                a, b = self.conv(node.body, st), self.conv(node.orelse, st)
                return a if is_zero(a - b) else self.unknown(s)
            return self.conv(node.body if t else node.orelse, st)
        if isinstance(node, ast.Subscript):
            return self.read(node, st)
        return self.unknown(s)

    def length_of(self, e, st):
        """Number of elements of a per-duct / per-gap sequence, or None."""
        if _s(e) == self.geo.ftf_name:
            return ND
        q = self.seq_ref(e, st)
        if q is not None:
            ly = q.at_sym(10 ** 6)
            return ly[2] if ly is not None and ly is not SPLIT else None
        if isinstance(e, ast.Subscript):
            base, keys, idx = Geo.split(e)
            if keys and not idx:
                for n in ast.walk(self.fi.node):
                    if isinstance(n, ast.Assign) and len(n.targets) == 1 \
                            and _s(n.targets[0]) == _s(e) and \
                            isinstance(n.value, ast.Call) and \
                            call_name(n.value) in ('np.zeros', 'np.ones',
                                                   'np.empty') and \
                            n.value.args and not isinstance(
                                n.value.args[0], (ast.Tuple, ast.List)):
                        return self.conv(n.value.args[0], st)
        return None

    def read(self, node, st):
        s = _s(node)
        p = self._table_path(node)
        if p is not None:
            (a, b), idx = p
            if not idx:
                if ('L', a, b) in st.scal:
                    return st.scal[('L', a, b)][0]
                if ('L', a, b) in st.seq:
                    return self.unknown(s)          # a list used as a number
                return c(0) if st.scal.get('init') else self.unknown(s)
            if len(idx) != 1:
                return self.unknown(s)
            return self.read_seq(('L', a, b), idx[0], st, s)
        if isinstance(node.value, ast.Name) and \
                ('v', node.value.id) in st.seq:
            return self.read_seq(('v', node.value.id), node.slice, st, s)
        base, keys, idx = Geo.split(node)
        try:
            ir = [self.index(x, st) for x in idx]
        except NotPolynomial:
            return self.unknown(s)
        if base == self.geo.ftf_name and not keys and len(ir) == 2:
            face = self.as_int(ir[1])
            if face in (0, 1):
                return F(ir[0], face)
            return self.unknown(s)
        if base == 'd' and keys == ('wcorner',) and len(ir) == 2 and \
                self.as_int(ir[1]) in (0, 1):
            return wcorner_cf(ir[0], self.as_int(ir[1]))
        if isinstance(node.value, ast.Name) and not keys:
            # an element of a local that is not a tracked list
            return self.unknown(s)

        def over(b_, k_, jr):
            if b_ == 'd' and k_ == ('wcorner',) and len(jr) == 2 and \
                    not jr[1].n.symbols():
                return wcorner_cf(jr[0], int(jr[1].n.t.get((), 0)))
            return None
        try:
            return self.geo.element(base, keys, ir, over, 0)
        except NotPolynomial:
            return self.unknown(s)

    def read_seq(self, key, idx_node, st, text):
        seq = st.seq.get(key)
        if seq is None:
            return self.unknown(text)
        try:
            j = self.index(idx_node, st)
        except NotPolynomial:
            return self.unknown(text)
        k = self.as_int(j)
        sym = st.sym
        if sym is not None:
            # the element written earlier in this very iteration
            for skey, sidx, val, _ in reversed(sym.stores):
                if skey == key and sidx.equals(j):
                    return val
            off = self.as_int(j - sym.J)
            if off is not None and off < 0 and key in sym.loop_keys:
                # an element an earlier iteration of this loop produced
                cf = self.cf_of(key)
                if cf is None:
                    raise AnalysisError(
                        'calculate_geometry: recurrence on the list %r whose '
                        'meaning is not known' % (key,))
                sym.hyp.setdefault(key, set()).add(-off)
                return cf[0](j)
        if k is not None:
            if k < 0:
                return self.unknown(text)
            if sym is not None and self.as_int(sym.J) is None and \
                    k >= sym.jmin and key in sym.loop_keys:
                # a fixed element the loop itself may have overwritten
                return self.unknown(text)
            ly = seq.at_const(k)
            return self.layer_value(ly, c(k), text, key)
        if sym is None:
            return self.unknown(text)
        off = self.as_int(j - sym.J)
        if off is None:
            return self.unknown(text)
        if sym.jmin + off < 0:
            return self.unknown(text + ' (before the first gap)')
        ly = seq.at_sym(sym.jmin + off)
        if ly is SPLIT:
            # the first iterations read elements of another origin than the
            # later ones: run the first iteration with its concrete index
            raise _NeedPeel()
        return self.layer_value(ly, j, text, key)

    def layer_value(self, ly, j, text, key=None):
        if ly is None:
            return self.unknown(text + ' (never stored)')
        if ly[0] == 'const':
            return ly[2]
        if ly[0] == 'fill':
            return ly[3](j)
        # written by an earlier loop, which the induction has judged (a wrong
        # value there is reported there): the closed form
        cf = self.cf_of(key) if key is not None else None
        if cf is not None:
            return cf[0](j)
        return self.unknown(text + ' (written by an earlier loop)')

    # -- tests -------------------------------------------------------------
    def decide(self, t, st):
        """True / False / None for a test on extents or the loop position:
        'many gaps' (n_duct dominates) and index >= st.sym.jmin."""
        if isinstance(t, ast.BoolOp):
            vs = [self.decide(v, st) for v in t.values]
            if isinstance(t.op, ast.And):
                if any(v is False for v in vs):
                    return False
                return True if all(v is True for v in vs) else None
            if any(v is True for v in vs):
                return True
            return False if all(v is False for v in vs) else None
        if isinstance(t, ast.UnaryOp) and isinstance(t.op, ast.Not):
            v = self.decide(t.operand, st)
            return None if v is None else not v
        if isinstance(t, ast.Compare) and len(t.ops) == 1:
            op = t.ops[0]
            try:
                d = reduce_r3(self.conv(t.left, st)
                              - self.conv(t.comparators[0], st))
            except NotPolynomial:
                return None
            sgn = self.sign(d, st)
            if sgn is None:
                return None
            lo, hi = sgn            # d in [lo, hi] with None = unbounded
            table = {
                ast.Gt: (lo is not None and lo > 0, hi is not None and hi <= 0),
                ast.GtE: (lo is not None and lo >= 0, hi is not None and hi < 0),
                ast.Lt: (hi is not None and hi < 0, lo is not None and lo >= 0),
                ast.LtE: (hi is not None and hi <= 0, lo is not None and lo > 0),
                ast.Eq: (lo is not None and lo == hi == 0,
                         (lo is not None and lo > 0) or
                         (hi is not None and hi < 0)),
                ast.NotEq: ((lo is not None and lo > 0) or
                            (hi is not None and hi < 0),
                            lo is not None and lo == hi == 0),
            }.get(type(op))
            if table is None:
                return None
            if table[0]:
                return True
            if table[1]:
                return False
            if 'i' in d.n.symbols():
                raise _NeedPeel()
            return None
        if isinstance(t, ast.Name):
            try:
                d = reduce_r3(self.conv(t, st))
            except NotPolynomial:
                return None
            sgn = self.sign(d, st)
            if sgn and sgn[0] is not None and sgn[0] > 0:
                return True
            if sgn and sgn[0] == sgn[1] == 0:
                return False
        return None

    def sign(self, d, st):
        """Bounds (lo, hi) of a difference that is affine in n_duct and the
        symbolic index; None when it reads anything else."""
        if d.d != Poly.const(1) or not d.n.symbols() <= {'n_duct', 'i'}:
            return None
        p = d.n
        if p.degree_in('n_duct') > 1 or p.degree_in('i') > 1:
            return None
        a = p.t.get((('n_duct', 1),), 0)
        b = p.t.get((('i', 1),), 0)
        c0 = p.t.get((), 0)
        if len([k for k in p.t if k not in ((), (('n_duct', 1),),
                                            (('i', 1),))]):
            return None
        if a != 0:
            if b != 0:
                return None     # loop position against the number of gaps
            return (1, None) if a > 0 else (None, -1)   # many gaps
        if b != 0:
            imin = st.sym.imin if st.sym is not None else None
            if imin is None:
                return None
            at = b * imin + c0
            return (at, None) if b > 0 else (None, at)
        return (c0, c0)

    # -- statements --------------------------------------------------------
    def run(self):
        st = _State()
        try:
            self.block(self.fi.node.body, st)
        except _Return:
            pass
        except _NeedPeel:
            raise AnalysisError('calculate_geometry: a test on a loop '
                                'variable outside its loop')
        return st

    def block(self, stmts, st):
        for s in stmts:
            self.stmt(s, st)

    def writes_tracked(self, node, st):
        for n in ast.walk(node):
            if isinstance(n, ast.Subscript) and isinstance(n.ctx, ast.Store):
                b = n
                while isinstance(b, ast.Subscript):
                    b = b.value
                if isinstance(b, ast.Name) and (
                        b.id == TABLE or ('v', b.id) in st.seq):
                    return True
            if isinstance(n, ast.Name) and isinstance(n.ctx, ast.Store) and \
                    n.id == TABLE:
                return True
        return False

    def kill(self, node, st):
        """Forget every local bound somewhere inside node."""
        for n in ast.walk(node):
            if isinstance(n, ast.Name) and isinstance(n.ctx, (ast.Store,
                                                              ast.Del)):
                st.env[n.id] = self.unknown('%s after %s' % (
                    n.id, type(node).__name__.lower()))
                st.seq.pop(('v', n.id), None)

    def stmt(self, s, st):
        if isinstance(s, ast.Return):
            raise _Return()
        if isinstance(s, (ast.Assign, ast.AnnAssign)):
            if isinstance(s, ast.AnnAssign):
                if s.value is None:
                    return
                targets = [s.target]
            else:
                targets = s.targets
            if len(targets) != 1:
                if self.writes_tracked(s, st):
                    raise AnalysisError('calculate_geometry: chained store '
                                        'into L: ' + _s(s)[:80])
                self.kill(s, st)
                return
            self.assign(targets[0], s.value, s, st)
            return
        if isinstance(s, ast.AugAssign):
            self.augassign(s, st)
            return
        if isinstance(s, ast.If):
            try:
                t = self.decide(s.test, st)
            except _NeedPeel:
                if self.writes_tracked(s, st) or st.sym is not None:
                    raise
                t = None
            if t is None:
                if self.writes_tracked(s, st):
                    raise AnalysisError(
                        'calculate_geometry: stores into L under a test the '
                        'rule cannot decide: if %s' % _s(s.test))
                self.kill(s, st)
                return
            self.block(s.body if t else s.orelse, st)
            return
        if isinstance(s, ast.For):
            self.loop(s, st)
            return
        if isinstance(s, (ast.While, ast.Try, ast.With)):
            if self.writes_tracked(s, st):
                raise AnalysisError('calculate_geometry: L written inside '
                                    + type(s).__name__)
            self.kill(s, st)
            return
        if isinstance(s, ast.Delete):
            if self.writes_tracked(s, st):
                raise AnalysisError('calculate_geometry: del on L')
            self.kill(s, st)
            return
        # expression statements, pass, raise (input rejection), assert ...
        if isinstance(s, ast.Expr) and isinstance(s.value, ast.Call):
            f = s.value.func
            if isinstance(f, ast.Attribute) and isinstance(f.value, ast.Name) \
                    and ('v', f.value.id) in st.seq:
                raise AnalysisError('calculate_geometry: list method on a '
                                    'tracked list: ' + _s(s)[:60])
            if isinstance(f, ast.Attribute) and \
                    self._is_table_expr(f.value):
                raise AnalysisError('calculate_geometry: list method on L: '
                                    + _s(s)[:60])

    def _is_table_expr(self, n):
        while isinstance(n, ast.Subscript):
            n = n.value
        return isinstance(n, ast.Name) and n.id == TABLE

    def seq_value(self, v, s, st):
        """A whole-list value -> _Seq, or None."""
        def fill(fn, hi, lo=0):
            q = _Seq()
            q.layers.append(('fill', lo, hi, fn, s))
            return q
        if isinstance(v, ast.ListComp) and len(v.generators) == 1 and \
                not v.generators[0].ifs and \
                isinstance(v.generators[0].target, ast.Name):
            g = v.generators[0]
            if call_name(g.iter) == 'range' and 1 <= len(g.iter.args) <= 2:
                lo = 0
                if len(g.iter.args) == 2:
                    lo = const(g.iter.args[0])
                    if lo != 0:
                        return None
                hi = self.conv(g.iter.args[-1], st)
                name = g.target.id
                elt = v.elt
                frozen = st.fork()

                def fn(j, _n=name, _e=elt, _f=frozen):
                    f2 = _f.fork()
                    f2.sub[_n] = j
                    f2.sym = None
                    return self.conv(_e, f2)
                return fill(fn, hi)
            return None
        if isinstance(v, ast.List) and not any(
                isinstance(x, ast.Starred) for x in v.elts):
            # a display of fixed length (whether it is long enough is
            # C08.R2's business)
            q = _Seq()
            for k, x in enumerate(v.elts):
                q.layers.append(('const', k, self.conv(x, st), s))
            return q
        if isinstance(v, ast.BinOp) and isinstance(v.op, ast.Mult):
            for a, b in ((v.left, v.right), (v.right, v.left)):
                if isinstance(a, ast.List) and len(a.elts) == 1:
                    val = self.conv(a.elts[0], st)
                    return fill(lambda j, _v=val: _v, self.conv(b, st))
        if isinstance(v, ast.Call):
            fn_ = call_name(v) or ''
            if fn_ in ('np.zeros', 'np.ones', 'np.full', 'np.empty') and \
                    v.args and not isinstance(v.args[0], ast.Tuple):
                val = {'np.zeros': c(0), 'np.ones': c(1)}.get(fn_)
                if fn_ == 'np.full' and len(v.args) >= 2:
                    val = self.conv(v.args[1], st)
                if val is None:
                    val = self.unknown(_s(v))
                return fill(lambda j, _v=val: _v, self.conv(v.args[0], st))
            if fn_ in ('list', 'np.array', 'np.asarray', 'copy.copy',
                       'copy.deepcopy') and len(v.args) == 1:
                q = self.seq_ref(v.args[0], st)
                return q.copy() if q is not None else None
            if isinstance(v.func, ast.Attribute) and v.func.attr == 'copy' \
                    and not v.args:
                q = self.seq_ref(v.func.value, st)
                return q.copy() if q is not None else None
        if isinstance(v, ast.Subscript) and isinstance(v.slice, ast.Slice) \
                and v.slice.lower is None and v.slice.upper is None and \
                v.slice.step is None:
            q = self.seq_ref(v.value, st)
            return q.copy() if q is not None else None
        return None

    def seq_ref(self, v, st):
        if isinstance(v, ast.Name):
            return st.seq.get(('v', v.id))
        if isinstance(v, ast.Subscript):
            p = self._table_path(v)
            if p is not None and not p[1]:
                return st.seq.get(('L',) + p[0])
        return None

    def assign(self, t, v, s, st):
        if isinstance(t, ast.Name):
            if t.id == TABLE:
                # the allocation of the table: every entry starts at zero
                st.scal = {'init': True}
                for k in [k for k in st.seq if k[0] == 'L']:
                    del st.seq[k]
                return
            q = None
            if t.id in self.local_cf:
                # a local list that is stored into L as a whole later on
                q = self.seq_ref(v, st)
                if q is None:
                    q = self.seq_value(v, s, st)
            if q is not None:
                st.seq[('v', t.id)] = q
                st.env.pop(t.id, None)
                return
            st.seq.pop(('v', t.id), None)
            if st.sym is not None and t.id in st.sub:
                raise AnalysisError('calculate_geometry: loop variable '
                                    're-bound: ' + _s(s)[:60])
            st.env[t.id] = self.conv(v, st)
            return
        if isinstance(t, (ast.Tuple, ast.List)):
            pairs = self._pairs(t, v)
            if len(pairs) > 1:
                # independent when no target is read by a later value
                names = {x.id for a, _ in pairs for x in ast.walk(a)
                         if isinstance(x, ast.Name)
                         and isinstance(x.ctx, ast.Store)}
                reads = {x.id for _, b in pairs[1:] for x in ast.walk(b)
                         if isinstance(x, ast.Name)}
                tabl = any(self._is_table_expr(a) for a, _ in pairs) and \
                    any(self._is_table_expr(x) for _, b in pairs[1:]
                        for x in ast.walk(b) if isinstance(x, ast.Subscript))
                if not (names & reads) and not tabl:
                    for a, b in pairs:
                        self.assign(a, b, s, st)
                    return
            if self.writes_tracked(t, st):
                raise AnalysisError('calculate_geometry: tuple store into L')
            self.kill(t, st)
            return
        if not isinstance(t, ast.Subscript):
            return
        p = self._table_path(t)
        if p is not None:
            (a, b), idx = p
            key = ('L', a, b)
            if not idx:
                q = self.seq_ref(v, st)
                if q is None:
                    q = self.seq_value(v, s, st)
                if q is not None:
                    st.seq[key] = q
                    st.scal.pop(key, None)
                    return
                st.seq.pop(key, None)
                st.scal[key] = (self.conv(v, st), s)
                return
            if len(idx) != 1:
                raise AnalysisError('calculate_geometry: store below a gap '
                                    'element of L: ' + _s(t))
            self.store_elem(key, idx[0], self.conv(v, st), s, st)
            return
        if isinstance(t.value, ast.Name) and ('v', t.value.id) in st.seq:
            self.store_elem(('v', t.value.id), t.slice, self.conv(v, st), s,
                            st)
            return
        # stores into d / sc_ww / duct / bypass ...: read through Geo on
        # demand

    def store_elem(self, key, idx_node, val, s, st):
        seq = st.seq.get(key)
        if seq is None:
            raise AnalysisError('calculate_geometry: element store into %s '
                                'before the list exists: %s'
                                % (key[1:], _s(s)[:70]))
        try:
            j = self.index(idx_node, st)
        except NotPolynomial as e:
            raise AnalysisError('calculate_geometry: %s in %s'
                                % (e, _s(s)[:70]))
        k = self.as_int(j)
        if st.sym is not None:
            st.sym.stores.append((key, j, val, s))
            return
        if k is None:
            raise AnalysisError('calculate_geometry: symbolic store outside '
                                'a loop: ' + _s(s)[:70])
        if k < 0:
            raise AnalysisError('calculate_geometry: store at a negative '
                                'index: ' + _s(s)[:70])
        seq.layers.append(('const', k, val, s))

    def augassign(self, s, st):
        t = s.target
        load = ast.copy_location(_load(t), t)
        v = ast.copy_location(ast.BinOp(left=load, op=s.op, right=s.value),
                              s)
        if isinstance(t, ast.Name):
            if ('v', t.id) in st.seq or t.id == TABLE:
                raise AnalysisError('calculate_geometry: augmented store to '
                                    'a tracked list: ' + _s(s)[:60])
            st.env[t.id] = self.conv(v, st)
            return
        self.assign(t, v, s, st)

    # -- loops -------------------------------------------------------------
    def loop(self, lp, st):
        if not self.writes_tracked(lp, st):
            self.kill(lp, st)
            return
        elem = None         # (name, sequence expression) of enumerate
        target = lp.target
        if call_name(lp.iter) == 'enumerate' and len(lp.iter.args) == 1 \
                and not lp.iter.keywords and isinstance(target, ast.Tuple) \
                and len(target.elts) == 2 and all(
                    isinstance(x, ast.Name) for x in target.elts):
            elem = (target.elts[1].id, lp.iter.args[0])
            target = target.elts[0]
        if lp.orelse or not isinstance(target, ast.Name) or (
                elem is None and (call_name(lp.iter) != 'range' or
                                  not 1 <= len(lp.iter.args) <= 2 or
                                  lp.iter.keywords)):
            raise AnalysisError(
                'calculate_geometry: L is written by a loop that is not '
                '`for v in range(...)` / `for v, e in enumerate(seq)`: for '
                '%s in %s' % (_s(lp.target), _s(lp.iter)))
        for n in ast.walk(lp):
            if isinstance(n, (ast.Break, ast.Continue, ast.While)) or (
                    isinstance(n, ast.For) and n is not lp):
                raise AnalysisError(
                    'calculate_geometry: the loop that writes L contains %s'
                    % type(n).__name__)
        var = target.id
        lo = 0
        if elem is not None:
            hi = self.length_of(elem[1], st)
            if hi is None:
                raise AnalysisError('calculate_geometry: length of %s in the '
                                    'loop that writes L' % _s(elem[1]))
        else:
            if len(lp.iter.args) == 2:
                lo = self.as_int(self.conv(lp.iter.args[0], st))
                if lo is None or lo < 0:
                    raise AnalysisError('calculate_geometry: start of the '
                                        'loop that writes L: ' + _s(lp.iter))
            hi = self.conv(lp.iter.args[-1], st)
        assigned = []
        for n in ast.walk(lp):
            if isinstance(n, ast.Name) and isinstance(n.ctx, ast.Store) and \
                    n.id != var and n.id not in assigned and \
                    not (elem and n.id == elem[0] and
                         any(n is x for x in ast.walk(lp.target))):
                assigned.append(n.id)
        self._elem = elem
        peeled = 0
        while True:
            try:
                it0 = self.iteration(lp, st, var, I_, lo, lo, assigned)
                it1 = self.iteration(lp, st, var, I_ + c(1), lo + 1, lo,
                                     assigned)
                itb = self.iteration(lp, st, var, c(lo), lo, None, assigned)
                break
            except _NeedPeel:
                if peeled >= 3:
                    raise AnalysisError(
                        'calculate_geometry: the loop that writes L tests '
                        'its position in a way the rule cannot peel')
                # run the first iteration with its concrete index
                st.sub[var] = c(lo)
                try:
                    self.bind_elem(st, var)
                    self.block(lp.body, st)
                except _NeedPeel:
                    raise AnalysisError(
                        'calculate_geometry: test on the loop position not '
                        'decidable for iteration %d' % lo)
                finally:
                    st.sub.pop(var, None)
                lo += 1
                peeled += 1
        self.induction(lp, st, var, lo, hi, it0, it1, itb)
        # after the loop: carried locals are unknown, the lists have a new
        # layer
        for name in assigned:
            st.env[name] = self.unknown('%s after the loop' % name)

    def iteration(self, lp, st, var, J, jmin, imin, assigned):
        f = st.fork()
        f.sub[var] = J
        carried = {}
        for name in assigned:
            if ('v', name) in f.seq:
                continue
            carried[name] = '@' + name
            f.env[name] = Rat.sym('@' + name)
        f.sym = _SymIter(J, jmin, imin, carried)
        for n in ast.walk(lp):
            if isinstance(n, ast.Subscript) and isinstance(n.ctx, ast.Store):
                p = self._table_path(n)
                if p is not None and len(p[1]) == 1:
                    f.sym.loop_keys.add(('L',) + p[0])
                elif isinstance(n.value, ast.Name) and \
                        ('v', n.value.id) in f.seq:
                    f.sym.loop_keys.add(('v', n.value.id))
        self.bind_elem(f, var)
        self.block(lp.body, f)
        f.sym.out = {name: f.env.get(name) for name in carried}
        return f.sym

    def bind_elem(self, st, var):
        """`for v, e in enumerate(seq)`: e is seq[v]."""
        if self._elem is None:
            return
        name, seq = self._elem
        node = ast.Subscript(value=seq, slice=ast.Name(id=var,
                                                       ctx=ast.Load()),
                             ctx=ast.Load())
        st.env[name] = self.conv(node, st)

    def equations(self, it):
        """Last store per element -> (key, idx, residual, stmt, closed form
        text)."""
        last = {}
        order = []
        for key, idx, val, s in it.stores:
            k = (key, repr(idx.n))
            if k not in last:
                order.append(k)
            last[k] = (key, idx, val, s)
        eqs = []
        for k in order:
            key, idx, val, s = last[k]
            cf = self.cf_of(key)
            if cf is None:
                raise AnalysisError(
                    'calculate_geometry: a loop fills the list %s whose '
                    'meaning is not known' % (key[1:],))
            eqs.append([key, idx, val - cf[0](idx), s, cf[1], None])
        return eqs

    @staticmethod
    def _subst(r, sol):
        for name, x in sol.items():
            if name in r.n.symbols() or name in r.d.symbols():
                r = r.subs(name, x)
        return r

    def solve(self, it, eqs):
        carried = set(it.carried.values())
        sol = {}
        progress = True
        while progress:
            progress = False
            for e in eqs:
                r = reduce_r3(self._subst(e[2], sol))
                syms = (r.n.symbols() | r.d.symbols()) & carried
                syms -= set(sol)
                if len(syms) != 1:
                    continue
                sname = next(iter(syms))
                if r.n.degree_in(sname) != 1 or r.d.degree_in(sname) != 0:
                    continue
                a = Poly({tuple(x for x in k if x[0] != sname): v
                          for k, v in r.n.t.items()
                          if dict(k).get(sname, 0) == 1})
                b = Poly({k: v for k, v in r.n.t.items()
                          if dict(k).get(sname, 0) == 0})
                if a.is_zero():
                    continue
                sol[sname] = Rat(-b, a)
                e[5] = sname
                progress = True
        return sol

    def induction(self, lp, st, var, lo, hi, it0, it1, itb):
        fi = self.fi
        eq0, eq1, eqb = (self.equations(x) for x in (it0, it1, itb))
        sol0, sol1, solb = (self.solve(x, e) for x, e in
                            ((it0, eq0), (it1, eq1), (itb, eqb)))
        lname = 'for %s in %s' % (_s(lp.target), _s(lp.iter))
        # --- the stores of the body, under the derived invariant
        stored = {}
        for key, idx, resid, s, text, solved in eq0:
            r = self._subst(resid, sol0)
            left = (r.n.symbols() | r.d.symbols()) & set(
                it0.carried.values())
            name = self.entry_name(key)
            off = self.as_int(idx - I_)
            if off is None:
                raise AnalysisError('calculate_geometry: store index %r in '
                                    'the loop over the gaps' % idx.n)
            stored.setdefault(key, []).append((off, s))
            if left:
                raise AnalysisError(
                    'calculate_geometry: %s depends on %s carried through '
                    'the loop in a way the rule cannot turn into an '
                    'invariant' % (name, ', '.join(sorted(left))))
            if solved:
                self.req(True, s, '', '%s[i] fixes the invariant of %s'
                         % (name, solved[1:]),
                         note='%s[%s] equals the centroid distance iff %s = '
                         '%s at the head of iteration %s'
                         % (name, _s_idx(idx), solved[1:],
                            _res_rat(sol0[solved]), var))
                continue
            self.req(is_zero(r), s,
                     '%s[%s] must be the centroid distance of the two cell '
                     'types for every gap (%s); the loop `%s` stores %s, '
                     'which differs by %s%s'
                     % (name, _s_idx(idx), text, lname, _s(s.value)
                        if isinstance(s, ast.Assign) else _s(s), _res(r),
                        self._under(sol0)),
                     '%s step' % name)
        # --- the elements the first iterations take from before the loop
        for key, offs in it0.hyp.items():
            cf = self.cf_of(key)
            name = self.entry_name(key)
            if any(off != 0 for off, _ in stored.get(key, [])):
                raise AnalysisError(
                    'calculate_geometry: the loop `%s` reads earlier '
                    'elements of %s and stores at a shifted index'
                    % (lname, name))
            for m in range(lo - max(offs), lo):
                if m < 0:
                    self.req(False, lp,
                             '%s: the loop `%s` reads element %d of the list '
                             'in its first iteration (the recurrence starts '
                             'before the first gap)' % (name, lname, m),
                             '%s recurrence start' % name)
                    continue
                seq = st.seq.get(key)
                ly = seq.at_const(m) if seq is not None else None
                val = self.layer_value(ly, c(m), '%s[%d]' % (name, m), key)
                node = ly[-1] if ly is not None else lp
                r = val - cf[0](c(m))
                self.req(is_zero(r), node,
                         '%s[%d], from which the recurrence of the loop `%s` '
                         'starts, must be the centroid distance for gap %d '
                         '(%s); it differs by %s'
                         % (name, m, lname, m, cf[1], _res(r)),
                         '%s recurrence base %d' % (name, m))
        # --- the carried locals: initial value and step
        for sname in sorted(sol0):
            local = sname[1:]
            first = next((n for n in ast.walk(lp) if isinstance(
                n, (ast.Assign, ast.AugAssign)) and any(
                isinstance(x, ast.Name) and x.id == local and
                isinstance(x.ctx, ast.Store) for x in ast.walk(n))), lp)
            if sname not in sol1 or sname not in solb:
                raise AnalysisError('calculate_geometry: invariant of %s not '
                                    'derivable at the shifted index' % local)
            init = st.env.get(local)
            if init is None:
                self.req(False, first,
                         'the local %s is carried through the loop `%s` '
                         'that fills L but has no value before it'
                         % (local, lname), 'carried %s initial' % local)
            else:
                r = init - solb[sname]
                self.req(is_zero(r), first,
                         'the stores of the loop `%s` are the centroid '
                         'distances only if %s = %s when iteration %d '
                         'starts; before the loop it differs from that by %s'
                         % (lname, local, _res_rat(solb[sname]), lo,
                            _res(r)),
                         'carried %s initial' % local)
            out = it0.out.get(local)
            r = self._subst(out, sol0) - sol1[sname]
            left = (r.n.symbols() | r.d.symbols()) & set(
                it0.carried.values())
            if left:
                raise AnalysisError(
                    'calculate_geometry: the update of %s reads %s'
                    % (local, ', '.join(sorted(left))))
            self.req(is_zero(r), first,
                     'the running value %s of the loop `%s` must be advanced '
                     'from one gap to the next so that the stored centroid '
                     'distances stay right for EVERY gap: the stores need '
                     '%s = %s at the head of iteration i, the body leaves '
                     'it at that value for i + 1 off by %s (a term is '
                     'missing / wrong between two iterations; gap 0 is '
                     'unaffected, every further gap is)'
                     % (local, lname, local, _res_rat(sol0[sname]), _res(r)),
                     'carried %s step' % local)
        # --- the new layers
        for key, lst in stored.items():
            seq = st.seq.get(key)
            if seq is None:
                raise AnalysisError('calculate_geometry: loop stores into '
                                    '%s before the list exists'
                                    % self.entry_name(key))
            for off, s in lst:
                if lo + off < 0:
                    raise AnalysisError('calculate_geometry: loop stores at '
                                        'a negative index')
                seq.layers.append(('loop', lo + off, hi + c(off), True, s))

    @staticmethod
    def _under(sol):
        if not sol:
            return ''
        return ' (with ' + ', '.join('%s = %s' % (k[1:], _res_rat(v))
                                     for k, v in sorted(sol.items())) + ')'

    def entry_name(self, key):
        if key[0] == 'L':
            return 'L[%d][%d]' % key[1:]
        p = self.local_cf.get(key[1])
        return 'L[%d][%d]' % p if p else key[1]

    # -- the final table ---------------------------------------------------
    def final(self, st):
        fi = self.fi
        for (a, b), (cf, text) in sorted(SCALAR_CF.items()):
            name = 'L[%d][%d]' % (a, b)
            ent = st.scal.get(('L', a, b))
            if ent is None:
                self.req(False, fi.node,
                         '%s is never given the centroid distance (%s)%s'
                         % (name, text, ': it holds a list'
                            if ('L', a, b) in st.seq else ''),
                         '%s missing' % name)
                continue
            r = ent[0] - cf()
            self.req(is_zero(r), ent[1],
                     '%s must be the distance between the centroids of the '
                     'two cell types (%s); the stored value differs by %s'
                     % (name, text, _res(r)), name)
        seen = {}
        for (a, b), (cf, text) in sorted(SEQ_CF.items()):
            name = 'L[%d][%d]' % (a, b)
            seq = st.seq.get(('L', a, b))
            if seq is None:
                ent = st.scal.get(('L', a, b))
                self.req(False, ent[1] if ent else fi.node,
                         '%s must hold one centroid distance per bypass gap '
                         '(%s); %s' % (name, text, 'it is a single number'
                                       if ent else 'it is never stored'),
                         '%s missing' % name)
                continue
            if id(seq) in seen:
                other = seen[id(seq)]
                ok = is_zero(cf(I_) - SEQ_CF[other][0](I_))
                self.req(ok, fi.node,
                         '%s is the same list as L[%d][%d] but the two '
                         'distances differ' % ((name,) + other),
                         '%s alias' % name,
                         note='%s is L[%d][%d]' % ((name,) + other))
                continue
            seen[id(seq)] = (a, b)
            self.final_seq(name, seq, cf, text)

    def final_seq(self, name, seq, cf, text):
        fi = self.fi
        kmax = max([ly[1] for ly in seq.layers] or [0])
        checked = set()

        def judge(ly, j, label):
            if ly is None:
                self.req(False, fi.node,
                         '%s[%s] is never stored (%s)' % (name, label, text),
                         '%s[%s] missing' % (name, label))
                return
            if ly[0] == 'loop':
                return                      # decided by the induction
            if ly[0] == 'fill':
                if id(ly) in checked:
                    return
                checked.add(id(ly))
                j, label = I_, 'g'
                val = ly[3](j)
            else:
                val = ly[2]
            r = val - cf(j)
            self.req(is_zero(r), ly[-1],
                     '%s[%s] must be the distance between the centroids of '
                     'the two cell types in that gap (%s); the value in '
                     'force at the end of calculate_geometry, `%s`, differs '
                     'by %s' % (name, label, text, _s(ly[-1])[:120],
                                _res(r)),
                     '%s[%s]' % (name, label))
        for k in range(kmax + 1):
            judge(seq.at_const(k), c(k), str(k))
        ly = seq.at_sym(kmax + 1)
        if ly is None or ly is SPLIT:
            self.req(False, fi.node,
                     '%s has no store that covers every further bypass gap '
                     '(%s)' % (name, text), '%s[g] missing' % name)
            return
        judge(ly, I_, 'g')
        if ly[0] in ('fill', 'loop'):
            r = ly[2] - NB
            self.req(is_zero(r), ly[-1],
                     '%s must be filled for every bypass gap 0 .. n_duct - 2:'
                     ' the %s that stores it runs to %s (short by %s)'
                     % (name, 'loop' if ly[0] == 'loop' else 'fill',
                        _res_rat(ly[2]), _res(NB - ly[2])),
                     '%s range' % name)


def _load(t):
    """Copy of a store target as a load expression."""
    n = ast.parse(src(t), mode='eval').body
    return n


def _s_idx(idx):
    return repr(idx.n)


def _res_rat(r):
    r = reduce_r3(r)
    if r.d == Poly.const(1):
        return repr(r.n)
    return '(%r)/(%r)' % (r.n, r.d)


# ---------------------------------------------------------------------------

def _judge(fi):
    it = _Interp(fi)
    st = it.run()
    if not st.scal.get('init') and not any(
            k[0] == 'L' for k in list(st.seq) + [x for x in st.scal
                                                 if x != 'init']):
        raise AnalysisError('calculate_geometry: no centroid-distance table '
                            '`L` is built any more (anchor of C08.R10)')
    it.final(st)
    return it


def run(ctx):
    from ._f_c08 import value_tests, specialise, _regions, _tag, MAX_ATOMS
    import itertools
    ctx.decided.append(
        'R10 (centroid-distance table, induction over the gap index) every '
        'entry of L that belongs to a pair of adjacent cell types equals the '
        'distance between the centroids of the two cells: L[0][0] = '
        'P/sqrt3, L[0][1] = L[1][0] = (P/sqrt3 + pin-row-to-wall)/2, '
        'L[1][1] = L[5][5][g] = P, L[5][6][g] = L[6][5][g] = W(g) + P/2, '
        'L[6][6][g] = 2 W(g) with W(g) = (F[g,1] + F[g+1,0])/(4 sqrt3) - '
        'P (n-1)/2 on the mid-surface of gap g, for every ring count and '
        'EVERY bypass gap g (loops decided by induction with a symbolic '
        'index; the invariant of a running local is derived from the stores '
        'and its initial value and step are checked)')
    ctx.not_decided.append('L[1][2], L[2][2] (definitional: they do not '
                           'agree with the placed centroids)')
    fi = ctx.repo.func('region_rodded', 'calculate_geometry')
    tests, atoms = value_tests(fi.node)
    if len(atoms) > MAX_ATOMS:
        raise AnalysisError('calculate_geometry: %d independent branch '
                            'conditions' % len(atoms))
    groups, order = {}, []
    for vals in itertools.product((True, False), repeat=len(atoms)):
        env = dict(zip(atoms, vals))
        if _regions(env, fi.params) is None:
            continue
        sfi, _sel = specialise(fi, tests, env)
        if sfi is None:
            continue
        k = ast.dump(sfi.node)
        if k not in groups:
            groups[k] = (sfi, [])
            order.append(k)
        groups[k][1].append(env)
    if not order:
        raise AnalysisError('calculate_geometry: every path rejects')
    results = []
    for k in order:
        sfi, envs = groups[k]
        results.append((_tag(atoms, envs), _judge(sfi)))
    # one verdict per obligation when all paths agree, else per path
    keys = []
    for tag, it in results:
        for rec in it.records:
            if rec[3] not in keys:
                keys.append(rec[3])
    n = 0
    for key in keys:
        per = [(tag, rec) for tag, it in results for rec in it.records
               if rec[3] == key]
        oks = {rec[0] for _, rec in per}
        whats = {rec[2] for _, rec in per}
        if len(oks) == 1 and len(whats) == 1 and len(per) == len(results):
            ok, node, what, _, note = per[0][1]
            ctx.require(ok, RULE, fi, node,
                        'centroid-distance table of calculate_geometry: '
                        + what, note=note or key,
                        key='%s | %s | %s' % (RULE, fi.full, key))
            n += 1
            continue
        for tag, (ok, node, what, _, note) in per:
            ctx.require(ok, RULE, fi, node,
                        'centroid-distance table of calculate_geometry, on '
                        'the path [%s]: %s' % (tag, what),
                        note=note or '%s, path [%s]' % (key, tag),
                        key='%s | %s | %s | path %s' % (RULE, fi.full, key,
                                                       tag))
            n += 1
    ctx.extra['C08.R10_paths'] = [
        {'path': tag, 'obligations': len(it.records),
         'unknown_quantities': it.n_unknown} for tag, it in results]
    # confirmed by reading: 4 scalar entries, L[5][5] fill + range, L[5][6]
    # and L[6][6] each element 0, recurrence step, recurrence base, range;
    # L[6][5] alias -> 13 obligations on the pinned tree
    ctx.min_instances(RULE, 10)
