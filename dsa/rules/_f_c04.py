"""C04.R9 / C05.R7 -- no step of the axial mesh exceeds the stability
requirement.

Clause (a necessary condition of C04 "with the axial step DASSH selects every
new temperature is a weighted average with non-negative weights" and of C05
"no step exceeds the smallest stability requirement"): the self-weight of the
limiting cell is 1 - dz * (sum of its coupling coefficients) and
`Reactor.req_dz` is the largest dz for which it is non-negative (C04.R1-R3),
so

  (a) every value `Reactor._check_dz` can return -- on every path, for every
      plane z and every boundary set -- is at most `self.req_dz`;
  (b) it is `self.req_dz` itself or the distance `b - z` to an element `b`
      of `self.axial_bnds` (the step lands on a boundary plane, it is never
      stretched or shrunk to something else);
  (c) every entry of the step array that `_setup_zpts` builds is at most
      `self.req_dz` (a value of `_check_dz`, used as it is), that array is
      the component stored in `self.dz`, and nothing else writes `self.dz`.

How it is decided (on values, not on source forms).  A small abstract
interpreter (this module; nothing of /repo is imported or run) executes the
function path by path.  Numbers are exact polynomials (`dsa.poly`, Fractions)
over the symbols z (the plane), R (`self.req_dz`), one symbol per *selected
element* of a container and one symbol per opaque quantity.  Containers are
abstract vectors (element value in terms of a placeholder element, the
inequalities every element is known to satisfy, and a token for the positions
the items sit at); boolean masks are element predicates over such positions
(`[P(b) for b in X]`, `(X > z) & (X < z + R)`, an append loop, ...).
`np.where(M)[0][k]`, `M.index(True)`, `np.argmax(M)` under `any(M)`,
`X[M][0]`, `next(b for b in X if P(b))`, `min(...)`, the loop variable of
`for b in X` under `if P(b)`, `X[k]` with k from `enumerate`/`range(len(X))`
all yield "an element of X for which P holds": the conjuncts of P become
inequalities `E <= 0` about that element's symbol.  A mask or an index is
only ever applied to a sequence with the same positions (`X[1:][k]` is some
other element).  `min`/`max`/`abs`/conditional expressions/helpers with
several return paths/`x = next(.., None)` are case splits; private helpers
and closures are interpreted at the call; a number carried round a loop is
given the inductive invariant "<= R" when it is one; lists filled by
`append` are item sets (each item with the facts of its path, renamed apart
per loop pass).  For every return path the obligation `R - value >= 0` is
discharged by exact linear arithmetic: the foreign monomials of `R - value`
are eliminated with positive multiples of the known inequalities; what
remains must be a polynomial in R alone with non-negative coefficients
(R > 0 is C05.R1's terminating guard).  Hoisting, renaming, commuting,
branch swaps, helper extraction, comprehension / loop / vectorised spellings
do not change the inequalities; a look-ahead `z + R + 1e-4 > b` leaves the
residual -1e-4 and is reported with the amount by which the step can exceed
the requirement.

Trusted: `np.around(x, d)` with d >= 9 is the identity (round-off is not
decided, see C05 "not decided"); attribute look-ups are repeatable;
`self.axial_bnds` is sorted (C05.R3); R > 0 (C05.R1).  A value the
interpreter cannot bound is reported as a violation that quotes it (never a
silent pass); a statement kind it does not model, a second consumer of
`_check_dz`, a vanished anchor are analysis errors.

The same interpreter, run with `World.strict`, decides C05.R2 (= C03.R7) on
values: see `step_clause` at the end of this module (strictness of the
comparisons, the *first* crossed boundary, the full step only when nothing
is crossed).  Without that flag nothing of it changes C04.R9 / C05.R7.
"""
import ast
from fractions import Fraction

from ..core import AnalysisError, call_name, const, short, src
from ..poly import Poly
from .. import util as U

PROPS = ('C04', 'C05')
RULES = {'C04': 'C04.R9', 'C05': 'C05.R7'}
REQ = 'self.req_dz'
BNDS = 'self.axial_bnds'
ANCHOR = 'Reactor._check_dz'
BUILDER = 'Reactor._setup_zpts'
ROUND_DIGITS = 9        # np.around(x, d >= 9) is treated as the identity
MAX_PATHS = 512
EL = '@e'               # placeholder: "the current element" of a vector
EPS = '@s'              # marker of strictness: E + @s <= 0 stands for E < 0

_PASS = ('float', 'np.float64', 'np.asarray', 'np.array', 'np.atleast_1d',
         'list', 'tuple', 'np.sort', 'sorted', 'np.unique', 'np.copy',
         'np.squeeze', 'np.ravel', 'iter', 'np.asanyarray', 'numpy.array',
         'numpy.asarray', 'copy.copy', 'copy.deepcopy')
_PASS_METH = ('copy', 'ravel', 'flatten', 'tolist', 'squeeze', 'astype')
_ROUND = ('np.around', 'np.round', 'round', 'np.round_', 'numpy.around',
          'numpy.round')
_MIN = ('min', 'np.min', 'np.amin', 'np.minimum', 'np.nanmin', 'np.fmin')
_MAX = ('max', 'np.max', 'np.amax', 'np.maximum', 'np.nanmax', 'np.fmax')
_ANY = ('any', 'np.any')
_ABS = ('abs', 'np.abs', 'np.absolute', 'np.fabs', 'math.fabs')
_AND = ('np.logical_and', 'np.bitwise_and')
_OR = ('np.logical_or', 'np.bitwise_or')
_NOT = ('np.logical_not', 'np.invert', 'np.bitwise_not')
_PURE = ('len', 'print', 'sum', 'np.sum', 'np.cumsum', 'str', 'repr',
         'np.allclose', 'np.isclose', 'np.max', 'np.min', 'max', 'min')


def _s(n):
    return ' '.join(src(n).split())


def _frac(c):
    return Fraction(str(c)) if isinstance(c, float) else Fraction(c)


def _pc(c):
    return Poly.const(_frac(c))


def _is_const(p):
    return all(k == () for k in p.t)


def _cval(p):
    return p.t.get((), Fraction(0))


def _scale(p, c):
    return p * Poly.const(c)


def _fmt(p):
    """Readable polynomial (floats for the coefficients)."""
    if not p.t:
        return '0'
    out = []
    for k, v in sorted(p.t.items()):
        if k == ((EPS, 1),):
            continue            # strictness marker, not a quantity
        m = '*'.join(s if e == 1 else '%s^%d' % (s, e) for s, e in k)
        c = float(v)
        if not m:
            out.append('%g' % c)
        elif c == 1:
            out.append(m)
        elif c == -1:
            out.append('-' + m)
        else:
            out.append('%g*%s' % (c, m))
    return ' + '.join(out).replace('+ -', '- ') if out else '0'


# ---------------------------------------------------------------------------
# abstract values

class Num:
    def __init__(self, p):
        self.p = p


class Opaque:
    """Unknown value; as a number it is the symbol <text>."""

    def __init__(self, text):
        self.text = text


class NoneVal:
    pass


class Maybe:
    """Either a value (with the facts that hold when it is one) or None
    (`next(it, None)`, a helper with a `return None` path)."""

    def __init__(self, val, facts=(), none=()):
        self.val, self.facts = val, tuple(facts)
        # what is known when it is None: (base, predicate) pairs, "no
        # element of base satisfies the predicate"
        self.none = tuple(none)


class Vec:
    """A sequence over container `base`: element value `val` (polynomial in
    the placeholder EL) for those elements that satisfy `facts` (E <= 0)."""

    def __init__(self, base, val, facts=(), align='base', exact=False):
        self.base, self.val, self.facts = base, val, tuple(facts)
        self.align = align      # token: which positions the items sit at
        # exact: the items are *all* elements of base that satisfy `facts`,
        # in the order of base (not a slice, not re-ordered)
        self.exact = exact


class Mask:
    """Element predicate over the elements of a Vec (`over` = its facts,
    `align` = its positions: a mask selects from, and an index found in it
    points into, sequences with the same positions only)."""

    def __init__(self, base, over, t, f, mid, align, te=False, fe=False,
                 xo=False):
        self.base, self.over = base, tuple(over)
        self.t, self.f, self.align = tuple(t), tuple(f), align
        # te / fe: `t` (`f`) is not only implied by a true (false) entry but
        # also implies it; xo: computed over an exact vector (see Vec)
        self.te, self.fe, self.xo = te, fe, xo
        # two evaluations of the same predicate over the same sequence are
        # the same mask (a temporary may have been inlined)
        self.id = 'mask(%s|%s|%r|%r|%r)' % (base, align, self.over, self.t,
                                            self.f)


class IdxSet:
    def __init__(self, mask):
        self.mask = mask


class Idx:
    """Index of an element for which the mask is true."""

    def __init__(self, mask, pos=None):
        self.mask = mask
        self.pos = pos          # 'first' / 'last' true entry, None: any


class ElemIdx:
    """Index of one particular element (symbol or the placeholder)."""

    def __init__(self, base, sym, align):
        self.base, self.sym, self.align = base, sym, align


class Len:
    """`len(X)` / `X.size` of a collection (only whether it is zero is
    used; C05.R2 on values)."""

    def __init__(self, of):
        self.of = of


def _none_of(mask):
    """What is known when no entry of the mask is true: no element of the
    base container satisfies (the filter of the masked vector and) the
    predicate -- provided the predicate is equivalent to the entry being
    true and the masked vector holds every such element."""
    if mask.te and mask.xo:
        return ((mask.base, tuple(mask.over) + tuple(mask.t)),)
    return ()


class Known(Poly):
    """Not an inequality (the zero polynomial): carries "no element of base
    satisfies the predicate" pairs through the facts of a case split, where
    only polynomials travel (C05.R2 on values)."""
    __slots__ = ('none',)

    def __init__(self, none):
        Poly.__init__(self)
        self.none = tuple(none)


def _known(none):
    return [Known(none)] if none else []


class Tup:
    def __init__(self, items):
        self.items = list(items)


class ListVal:
    """A list built by display + append; items recorded flow-insensitively."""

    def __init__(self, lid):
        self.id, self.items, self.tainted = lid, [], None
        self.display = None     # values of the display while unmodified
        self.n_init = 0         # number of items of the display
        self.version = 0        # bumped by every store (L[-1] changes)


class Cond:
    def __init__(self, t=(), f=(), any_t=(), bind_t=None, bind_f=None,
                 value=None, any_f=(), te=False, fe=False, none_t=(),
                 none_f=()):
        self.t, self.f, self.any_t = tuple(t), tuple(f), tuple(any_t)
        self.any_f = tuple(any_f)
        self.bind_t, self.bind_f = bind_t or {}, bind_f or {}
        self.value = value      # True / False when statically decided
        # te / fe: the facts t (f) are equivalent to the test being true
        # (false), not only implied by it; none_t / none_f: (base,
        # predicate) pairs -- no element of base satisfies the predicate
        self.te, self.fe = te, fe
        self.none_t, self.none_f = tuple(none_t), tuple(none_f)

    def neg(self):
        return Cond(self.f, self.t, self.any_f, self.bind_f, self.bind_t,
                    None if self.value is None else not self.value,
                    self.any_t, self.fe, self.te, self.none_f, self.none_t)


class FuncRef:
    def __init__(self, fi):
        self.fi = fi


class _Unmodelled(Exception):
    pass


class State:
    def __init__(self, env=None, facts=(), anyk=(), nonek=(), exact=True):
        self.env = dict(env or {})
        self.facts = list(facts)
        self.anyk = set(anyk)
        # (base, predicate): no element of base satisfies the predicate
        self.nonek = list(nonek)
        # the facts collected since the start of the loop pass are not only
        # necessary but also sufficient for being on this path
        self.exact = exact

    def copy(self):
        return State(self.env, self.facts, self.anyk, self.nonek, self.exact)


class World:
    """Shared between the interpreters of one analysis."""

    def __init__(self, repo):
        self.repo = repo
        self.n = 0
        self.elem = {}          # element symbol -> base container
        self.choice = {}        # symbol -> [(poly, facts)] or callable
        self.ver = {}           # access text -> version (after a store)
        self.summaries = {}     # callee full name -> fn(interp, st) -> value
        self.paths = 0
        self.bound = None       # loop invariant tried for carried numbers
        self.landing_ok = set()  # symbols known to be req_dz or bound - z
        self.at_index = {}      # (vector, index value) -> element symbol
        # C05.R2 on values: strictness of comparisons is kept (EPS marker)
        # and the position of a selected element is recorded
        self.strict = False
        self.order = {}         # element symbol -> [(first|last, base, pred)]

    def fresh(self, prefix):
        self.n += 1
        return '%s#%d' % (prefix, self.n)

    def new_elem(self, base):
        s = self.fresh('elem')
        self.elem[s] = base
        return s

    def new_choice(self, cands):
        s = self.fresh('case')
        self.choice[s] = cands
        return s

    @staticmethod
    def split(sym):
        i = sym.find('@r')
        return (sym, '') if i < 0 else (sym[:i], sym[i:])

    def is_choice(self, sym):
        return self.split(sym)[0] in self.choice

    def candidates(self, sym):
        """[(poly, facts)] of a case symbol.  The items of a list were
        computed in other passes of the loop that fills it: the symbols of
        an item (and of its facts) are renamed apart, so that a quantity of
        the current pass is never identified with the same-named quantity
        of the pass that stored the item."""
        base, suf = self.split(sym)
        c = self.choice[base]
        if callable(c):
            c = c()
            self.n += 1
            suf += '@r%d' % self.n
        if not suf:
            return c

        def ren(p):
            out = Poly()
            for k, v in p.t.items():
                k2 = tuple(sorted((x if ('#' not in x and '~' not in x)
                                   else x + suf, e) for x, e in k))
                out = out + Poly({k2: v})
            return out
        return [(ren(p), [ren(f) for f in fs]) for p, fs in c]


# ---------------------------------------------------------------------------
# the prover: N >= 0 from facts E <= 0, R > 0

def _foreign(p):
    return [k for k in sorted(p.t) if any(s not in ('R', EPS) for s, e in k)]


def _nonneg(p):
    return not _foreign(p) and all(v >= 0 for v in p.t.values())


def _expand(world, polys, depth=0):
    """Case split on the choice symbols occurring in polys[0]: yields the
    list with every case substituted throughout, the facts of the case
    appended (so that later splits substitute into them as well)."""
    n = polys[0]
    cs = sorted(s for s in n.symbols() if world.is_choice(s))
    if not cs or depth > 8:
        yield polys
        return
    c = cs[0]
    for cand, cf in world.candidates(c):
        sub = [p.subs(c, cand) if c in p.symbols() else p
               for p in list(polys) + list(cf)]
        for out in _expand(world, sub, depth + 1):
            yield out


def _prove_leaf(n, facts, depth=3):
    if _nonneg(n):
        return True
    if depth <= 0:
        return False
    fo = _foreign(n)
    if not fo:
        return False
    m = fo[0]
    for i, e in enumerate(facts):
        if m not in e.t:
            continue
        lam = -n.t[m] / e.t[m]
        if lam <= 0:
            continue
        if _prove_leaf(n + _scale(e, lam), facts[:i] + facts[i + 1:],
                       depth - 1):
            return True
    return False


def _residuals(n, facts):
    """Pure (R, constant) residuals reachable with one elimination step."""
    out = []
    fo = _foreign(n)
    if not fo:
        return [n]
    m = fo[0]
    for e in facts:
        if m in e.t:
            lam = -n.t[m] / e.t[m]
            if lam > 0:
                r = n + _scale(e, lam)
                if not _foreign(r):
                    out.append(r)
    return out


def prove_le(world, value, bound, facts):
    """(ok, detail): value <= bound in every case.  Case splits (min / max /
    conditional expressions / helper returns / list items) are opened only
    where the obligation does not follow without them."""
    bad = []
    budget = [256]

    def rec(polys, depth):
        n, v, fs = polys[0], polys[1], list(polys[2:])
        if _prove_leaf(n, fs):
            return
        cs = sorted(s for s in n.symbols() if world.is_choice(s))
        budget[0] -= 1
        cands = world.candidates(cs[0]) if cs and depth < 8 and \
            budget[0] > 0 else []
        if cands:
            c = cs[0]
            for cand, cf in cands:
                rec([p.subs(c, cand) if c in p.symbols() else p
                     for p in polys + list(cf)], depth + 1)
            return
        neg = [r for r in _residuals(n, fs) if not _nonneg(r)]
        if neg:
            bad.append('the step %s can exceed req_dz by %s' % (
                _fmt(v), _fmt(-neg[0])))
        else:
            bad.append('the step %s is not bounded by req_dz by anything '
                       'known about it' % _fmt(v))
    rec([bound - value, value] + list(facts), 0)
    return (not bad), '; '.join(sorted(set(bad))[:3])


def leaves(world, value):
    return [polys[0] for polys in _expand(world, [value])]


# ---------------------------------------------------------------------------
# the interpreter

class Interp:
    def __init__(self, world, fi, depth=0):
        self.w, self.fi, self.depth = world, fi, depth
        self.returns = []       # (node, value, State)

    # -- helpers --
    def opaque(self, n):
        t = _s(n)
        v = self.w.ver.get(t)
        return Opaque(t if v is None else '%s~%d' % (t, v))

    def num(self, v):
        if isinstance(v, Num):
            return v.p
        if isinstance(v, Maybe):
            return self.num(v.val)
        if isinstance(v, Opaque):
            return Poly.sym('<%s>' % v.text)
        if isinstance(v, Cond) and v.value is not None:
            return _pc(int(v.value))
        return None

    def elem_of(self, vec, st, extra=(), index=None, order=None):
        """An element of the vector (existential witness): a fresh symbol,
        or the one already chosen for the same vector and index value.
        order = 'first' / 'last': it is the first / last of the items that
        satisfy `extra` (recorded when the vector is exact, i.e. when that
        says something about the elements of the base container)."""
        key = None
        if index is not None:
            key = (vec.base, vec.align, repr(vec.val), repr(vec.facts),
                   repr(index))
        e = self.w.at_index.get(key)
        if e is None:
            e = self.w.new_elem(vec.base)
            if key is not None:
                self.w.at_index[key] = e
        if order and vec.exact and self.w.strict:
            k = (order, vec.base, tuple(vec.facts) + tuple(extra))
            if k not in self.w.order.setdefault(e, []):
                self.w.order[e].append(k)
        es = Poly.sym(e)
        for f in tuple(vec.facts) + tuple(extra):
            st.facts.append(f.subs(EL, es))
        return Num(vec.val.subs(EL, es))

    def choice(self, cands):
        """Num for a case split [(poly, facts)]."""
        if len(cands) == 1 and not cands[0][1]:
            return Num(cands[0][0])
        return Num(Poly.sym(self.w.new_choice(list(cands))))

    # -- conditions --
    def cond(self, n, st):
        v = self.eval(n, st)
        return self.as_cond(v, n)

    def as_cond(self, v, n=None):
        if isinstance(v, Cond):
            return v
        if isinstance(v, NoneVal):
            return Cond(value=False)
        if isinstance(v, Maybe) and isinstance(n, ast.Name):
            return Cond(t=v.facts, bind_t={n.id: v.val},
                        bind_f={n.id: NoneVal()}, none_f=v.none)
        if isinstance(v, Num) and _is_const(v.p):
            return Cond(value=bool(_cval(v.p)))
        if self.w.strict:
            # truth value of a collection: it has an item
            if isinstance(v, Len):
                v = v.of
            if isinstance(v, IdxSet):
                return Cond(any_t=(v.mask.id,), none_f=_none_of(v.mask))
            if isinstance(v, Vec) and v.exact:
                return Cond(none_f=((v.base, v.facts),))
        return Cond()

    def compare(self, n, st):
        ops = n.ops
        vals = [self.eval(x, st) for x in [n.left] + n.comparators]
        # None tests
        if len(ops) == 1 and isinstance(ops[0], (ast.Is, ast.IsNot, ast.Eq,
                                                 ast.NotEq)):
            a, b = vals
            for x, y, node in ((a, b, n.left), (b, a, n.comparators[0])):
                if isinstance(y, NoneVal):
                    pos = isinstance(ops[0], (ast.Is, ast.Eq))
                    if isinstance(x, Maybe) and isinstance(node, ast.Name):
                        c = Cond(f=x.facts, bind_t={node.id: NoneVal()},
                                 bind_f={node.id: x.val}, none_t=x.none)
                    elif isinstance(x, NoneVal):
                        c = Cond(value=True)
                    elif isinstance(x, (Num, Vec, Mask, ListVal, Tup, Idx,
                                        ElemIdx, IdxSet)):
                        c = Cond(value=False)
                    else:
                        c = Cond()
                    return c if pos else c.neg()
        if len(ops) == 1 and any(isinstance(v, Len) for v in vals):
            return self.len_cond(vals, ops[0])
        vec = [v for v in vals if isinstance(v, Vec)]
        if vec:
            base, over, align = vec[0].base, vec[0].facts, vec[0].align
            if any(v.base != base or v.align != align for v in vec):
                return self.opaque(n)
            ps = [v.val if isinstance(v, Vec) else self.num(v) for v in vals]
        else:
            ps = [self.num(v) for v in vals]
        if any(p is None for p in ps):
            return Cond() if not vec else self.opaque(n)
        tt, ff = [], []
        # strictness (kept for C05.R2 on values only): a < b is a - b + @s
        # <= 0; its negation b <= a carries no marker, and the other way round
        eps = Poly.sym(EPS) if self.w.strict else Poly()
        te = True
        for i, op in enumerate(ops):
            a, b = ps[i], ps[i + 1]
            if isinstance(op, (ast.Lt, ast.LtE)):
                lt = isinstance(op, ast.Lt)
                tt.append(a - b + eps if lt else a - b)
                f1 = [b - a if lt else b - a + eps]
            elif isinstance(op, (ast.Gt, ast.GtE)):
                gt = isinstance(op, ast.Gt)
                tt.append(b - a + eps if gt else b - a)
                f1 = [a - b if gt else a - b + eps]
            elif isinstance(op, ast.Eq):
                tt += [a - b, b - a]
                f1 = []
            elif isinstance(op, ast.NotEq):
                f1 = [a - b, b - a]
                te = False
            else:
                return Cond() if not vec else self.opaque(n)
            if len(ops) == 1:
                ff = f1
        fe = len(ops) == 1 and not isinstance(ops[0], ast.Eq)
        if vec:
            return Mask(base, over, tt, ff, self.w.fresh('mask'), align,
                        te=te, fe=fe, xo=all(v.exact for v in vec))
        value = None
        if len(ops) == 1 and _is_const(ps[0] - ps[1]):
            d = _cval(ps[0] - ps[1])
            op = ops[0]
            value = {ast.Lt: d < 0, ast.LtE: d <= 0, ast.Gt: d > 0,
                     ast.GtE: d >= 0, ast.Eq: d == 0,
                     ast.NotEq: d != 0}.get(type(op))
        return Cond(tt, ff, value=value, te=te, fe=fe)

    def len_cond(self, vals, op):
        """`len(X) <op> c`: whether the collection X has an item."""
        flip = not isinstance(vals[0], Len)
        ln, other = (vals[1], vals[0]) if flip else (vals[0], vals[1])
        p = self.num(other) if not isinstance(other, Len) else None
        if p is None or not _is_const(p):
            return Cond()
        c = _cval(p)
        kind = type(op)
        if flip:
            kind = {ast.Lt: ast.Gt, ast.Gt: ast.Lt, ast.LtE: ast.GtE,
                    ast.GtE: ast.LtE}.get(kind, kind)
        some = self.as_cond(ln)             # true: X has an item
        if (kind, c) in ((ast.Gt, 0), (ast.GtE, 1), (ast.NotEq, 0)):
            return some
        if (kind, c) in ((ast.Eq, 0), (ast.Lt, 1), (ast.LtE, 0)):
            return some.neg()
        return Cond()

    def conj(self, vals, is_and):
        if all(isinstance(v, Mask) for v in vals):
            m0 = vals[0]
            if any(v.base != m0.base or v.align != m0.align for v in vals):
                return None
            xo = all(v.xo for v in vals)
            one = len(vals) == 1
            if is_and:
                return Mask(m0.base, m0.over, sum((v.t for v in vals), ()),
                            m0.f if one else (), self.w.fresh('mask'),
                            m0.align, te=all(v.te for v in vals),
                            fe=one and m0.fe, xo=xo)
            return Mask(m0.base, m0.over, m0.t if one else (),
                        sum((v.f for v in vals), ()),
                        self.w.fresh('mask'), m0.align, te=one and m0.te,
                        fe=all(v.fe for v in vals), xo=xo)
        cs = [self.as_cond(v) for v in vals]
        bt, bf, at = {}, {}, ()
        one = len(cs) == 1
        if is_and:
            for c in cs:
                bt.update(c.bind_t)
                at += c.any_t
            value = False if any(c.value is False for c in cs) else (
                True if all(c.value is True for c in cs) else None)
            return Cond(sum((c.t for c in cs), ()),
                        cs[0].f if one else (), at, bt, bf, value,
                        te=all(c.te or c.value is True for c in cs),
                        fe=one and cs[0].fe,
                        none_t=sum((c.none_t for c in cs), ()),
                        none_f=cs[0].none_f if one else ())
        for c in cs:
            bf.update(c.bind_f)
        value = True if any(c.value is True for c in cs) else (
            False if all(c.value is False for c in cs) else None)
        return Cond((), sum((c.f for c in cs), ()), (), bt, bf, value,
                    te=one and cs[0].te,
                    fe=all(c.fe or c.value is False for c in cs),
                    none_t=cs[0].none_t if one else (),
                    none_f=sum((c.none_f for c in cs), ()))

    # -- expressions --
    def eval(self, n, st):
        try:
            return self._eval(n, st)
        except RecursionError:
            raise AnalysisError('%s: expression too deep' % self.fi.full)

    def ev(self, n, st):
        """Value in a context that cannot take None: a Maybe is its value
        (the facts of the path that produced it hold, or the use raises)."""
        v = self.eval(n, st)
        if isinstance(v, Maybe):
            st.facts += list(v.facts)
            return v.val
        return v

    def _eval(self, n, st):
        if isinstance(n, ast.Constant):
            c = n.value
            if isinstance(c, bool):
                return Cond(value=c)
            if c is None:
                return NoneVal()
            if isinstance(c, (int, float)):
                return Num(_pc(c))
            return Opaque(repr(c))
        if isinstance(n, ast.Name):
            if n.id in st.env:
                return st.env[n.id]
            g = self.fi.mod.globals.get(n.id)
            if g is not None:
                try:
                    c = U.const_eval(g)
                    if isinstance(c, (int, float)) and \
                            not isinstance(c, bool):
                        return Num(_pc(c))
                except (ValueError, TypeError, ZeroDivisionError,
                        KeyError, IndexError):
                    pass
            if n.id in self.fi.mod.funcs and \
                    self.fi.mod.funcs[n.id].cls is None:
                return FuncRef(self.fi.mod.funcs[n.id])
            return Opaque(n.id)
        if isinstance(n, ast.Attribute):
            t = _s(n)
            if t == REQ and t not in self.w.ver:
                return Num(Poly.sym('R'))
            if t == BNDS and t not in self.w.ver:
                return Vec(BNDS, Poly.sym(EL), exact=True)
            if n.attr == 'T':
                v = self.eval(n.value, st)
                if isinstance(v, (Vec, Mask)):
                    return v
            if n.attr == 'size' and self.w.strict:
                v = self.eval(n.value, st)
                if isinstance(v, (IdxSet, Vec)):
                    return Len(v)
            return self.opaque(n)
        if isinstance(n, ast.UnaryOp):
            v = self.eval(n.operand, st)
            if isinstance(n.op, ast.Not):
                if isinstance(v, Mask):
                    return Cond()
                return self.as_cond(v, n.operand).neg()
            if isinstance(n.op, ast.Invert):
                if isinstance(v, Mask):
                    return Mask(v.base, v.over, v.f, v.t,
                                self.w.fresh('mask'), v.align, te=v.fe,
                                fe=v.te, xo=v.xo)
                return self.opaque(n)
            if isinstance(v, Vec):
                return Vec(v.base, -v.val if isinstance(n.op, ast.USub)
                           else v.val, v.facts, v.align, v.exact)
            p = self.num(v)
            if p is None:
                return self.opaque(n)
            return Num(-p if isinstance(n.op, ast.USub) else p)
        if isinstance(n, ast.BinOp):
            return self.binop(n, st)
        if isinstance(n, ast.BoolOp):
            vals = [self.eval(x, st) for x in n.values]
            r = self.conj(vals, isinstance(n.op, ast.And))
            return r if r is not None else self.opaque(n)
        if isinstance(n, ast.Compare):
            return self.compare(n, st)
        if isinstance(n, ast.IfExp):
            c = self.cond(n.test, st)
            if c.value is True:
                return self.eval(n.body, st)
            if c.value is False:
                return self.eval(n.orelse, st)
            if self.w.strict:
                # each arm in the state of its branch (bindings of a
                # `x is None` test, what is known there)
                nf, nn = len(st.facts), len(st.nonek)
                sa, sb = self.branch(st, c, True), self.branch(st, c, False)
                a, b = self.eval(n.body, sa), self.eval(n.orelse, sb)
                pa, pb = self.num(a), self.num(b)
                if pa is not None and pb is not None and not isinstance(
                        a, (Vec, Mask)) and not isinstance(b, (Vec, Mask)):
                    return self.choice([
                        (pa, sa.facts[nf:] + _known(sa.nonek[nn:])),
                        (pb, sb.facts[nf:] + _known(sb.nonek[nn:]))])
                return self.opaque(n)
            a, b = self.eval(n.body, st), self.eval(n.orelse, st)
            pa, pb = self.num(a), self.num(b)
            if pa is not None and pb is not None and not isinstance(
                    a, (Vec, Mask)) and not isinstance(b, (Vec, Mask)):
                return self.choice([(pa, list(c.t)), (pb, list(c.f))])
            return self.opaque(n)
        if isinstance(n, (ast.Tuple, ast.List)):
            items = [self.eval(x, st) for x in n.elts]
            if isinstance(n, ast.List):
                lv = ListVal(self.w.fresh('list'))
                for x, v in zip(n.elts, items):
                    self.list_add(lv, v, x, st)
                lv.display = items
                lv.n_init = len(lv.items)
                return lv
            return Tup(items)
        if isinstance(n, (ast.ListComp, ast.GeneratorExp)):
            return self.comprehension(n, st)
        if isinstance(n, ast.Subscript):
            return self.subscript(n, st)
        if isinstance(n, ast.Call):
            return self.call(n, st)
        if isinstance(n, ast.NamedExpr) and isinstance(n.target, ast.Name):
            v = self.eval(n.value, st)
            st.env[n.target.id] = v
            return v
        if isinstance(n, ast.Starred):
            return self.opaque(n)
        return self.opaque(n)

    def binop(self, n, st):
        a, b = self.ev(n.left, st), self.ev(n.right, st)
        op = n.op
        if isinstance(op, (ast.BitAnd, ast.BitOr)):
            if isinstance(a, (Mask, Cond)) and isinstance(b, (Mask, Cond)):
                r = self.conj([a, b], isinstance(op, ast.BitAnd))
                if r is not None:
                    return r
            return self.opaque(n)
        if isinstance(a, Mask) and isinstance(b, Mask) and \
                isinstance(op, ast.Mult):
            r = self.conj([a, b], True)
            return r if r is not None else self.opaque(n)
        if isinstance(a, ListVal) and isinstance(b, ListVal) and \
                isinstance(op, ast.Add):
            lv = ListVal(self.w.fresh('list'))
            lv.items = a.items + b.items
            lv.version = max(a.version, b.version) + 1
            lv.tainted = a.tainted or b.tainted
            return lv
        va = a if isinstance(a, Vec) else None
        vb = b if isinstance(b, Vec) else None
        vec = va or vb
        if va and vb and (va.base != vb.base or va.align != vb.align):
            return self.opaque(n)
        pa = va.val if va else self.num(a)
        pb = vb.val if vb else self.num(b)
        if pa is None or pb is None:
            return self.opaque(n)
        r = None
        if isinstance(op, ast.Add):
            r = pa + pb
        elif isinstance(op, ast.Sub):
            r = pa - pb
        elif isinstance(op, ast.Mult):
            r = pa * pb
        elif isinstance(op, ast.Div):
            if _is_const(pb) and _cval(pb) != 0:
                r = _scale(pa, 1 / _cval(pb))
        elif isinstance(op, ast.Pow):
            if _is_const(pb) and _cval(pb).denominator == 1 and \
                    0 <= _cval(pb) <= 4:
                r = pa ** int(_cval(pb))
        if r is None:
            if vec:
                return self.opaque(n)
            r = Poly.sym('<%s(%s, %s)>' % (type(op).__name__, _fmt(pa),
                                           _fmt(pb)))
        if vec:
            return Vec(vec.base, r, vec.facts, vec.align,
                       all(x.exact for x in (va, vb) if x))
        return Num(r)

    def bind_iter(self, it, target, st, sym):
        """Bindings {name: value} for one pass of `for target in it`, the
        current element being `sym` (a fresh symbol or the placeholder);
        returns (bindings, base, facts-about-the-element) or None."""
        es = Poly.sym(sym)

        def inst(p):
            return p.subs(EL, es) if sym != EL else p

        def one(v):
            if isinstance(v, Vec):
                self.iter_exact = self.iter_exact and v.exact
                return (Num(inst(v.val)), v.base, [inst(f) for f in v.facts],
                        v.align)
            if isinstance(v, Mask):
                self.iter_exact = self.iter_exact and v.xo
                return (Cond([inst(f) for f in v.t], [inst(f) for f in v.f],
                             te=v.te, fe=v.fe),
                        v.base, [inst(f) for f in v.over], v.align)
            return None
        # (left True only when every iterated sequence is exact, see Vec)
        self.iter_exact = True
        names = None
        if isinstance(target, ast.Name):
            names = [target.id]
        elif isinstance(target, (ast.Tuple, ast.List)) and all(
                isinstance(x, ast.Name) for x in target.elts):
            names = [x.id for x in target.elts]
        if names is None:
            return None
        nm = call_name(it) if isinstance(it, ast.Call) else None
        if nm == 'enumerate' and it.args and len(names) == 2:
            r = one(self.eval(it.args[0], st))
            if r is None:
                return None
            # the counter is a position in the enumerated sequence
            return ({names[0]: ElemIdx(r[1], sym, r[3]), names[1]: r[0]},
                    r[1], r[2], r[3])
        if nm == 'zip' and len(it.args) == len(names) and not it.keywords:
            rs = [one(self.eval(a, st)) for a in it.args]
            if any(r is None for r in rs) or len({r[1] for r in rs}) != 1 \
                    or len({r[3] for r in rs}) != 1:
                return None
            return ({k: r[0] for k, r in zip(names, rs)}, rs[0][1],
                    rs[0][2], rs[0][3])
        if nm == 'range' and len(it.args) == 1 and len(names) == 1:
            a = it.args[0]
            inner = None
            if isinstance(a, ast.Call) and call_name(a) == 'len' and a.args:
                inner = a.args[0]
            elif isinstance(a, ast.Attribute) and a.attr == 'size':
                inner = a.value
            elif isinstance(a, ast.Subscript) and isinstance(
                    a.value, ast.Attribute) and a.value.attr == 'shape' \
                    and const(a.slice) == 0:
                inner = a.value.value
            if inner is not None:
                v = self.eval(inner, st)
                if isinstance(v, (Vec, Mask)):
                    over = v.facts if isinstance(v, Vec) else v.over
                    self.iter_exact = v.exact if isinstance(v, Vec) else v.xo
                    return ({names[0]: ElemIdx(v.base, sym, v.align)},
                            v.base, [inst(f) for f in over], v.align)
            return None
        if len(names) == 1:
            r = one(self.eval(it, st))
            if r is None:
                return None
            return {names[0]: r[0]}, r[1], r[2], r[3]
        return None

    def comprehension(self, n, st):
        if len(n.generators) != 1 or n.generators[0].is_async:
            return self.opaque(n)
        g = n.generators[0]
        b = self.bind_iter(g.iter, g.target, st, EL)
        if b is None:
            return self.opaque(n)
        binds, base, over, align = b
        sub = st.copy()
        sub.env.update(binds)
        facts = list(over)
        src_exact = filt_exact = self.iter_exact
        for c in g.ifs:
            c = self.cond(c, sub)
            facts += list(c.t)
            filt_exact = filt_exact and (c.te or c.value is True)
        v = self.eval(n.elt, sub)
        # a filtered comprehension has positions of its own
        out_align = align if not g.ifs else 'comp(%s|%r)' % (
            align, facts[len(over):])
        if isinstance(v, Cond):
            return Mask(base, facts, v.t, v.f, self.w.fresh('mask'),
                        out_align, te=v.te, fe=v.fe, xo=filt_exact)
        if isinstance(v, ElemIdx) and v.sym == EL and v.base == base:
            # positions (in v.align) of the elements that pass the filter
            return IdxSet(Mask(base, over, facts[len(over):], (),
                               self.w.fresh('mask'), v.align,
                               te=filt_exact, xo=src_exact))
        p = self.num(v)
        if p is not None and not isinstance(v, (Vec, Mask)):
            return Vec(base, p, facts, out_align, filt_exact)
        return self.opaque(n)

    def subscript(self, n, st):
        v = self.ev(n.value, st)
        if isinstance(n.slice, ast.Slice):
            sl = n.slice
            if sl.lower is None and sl.upper is None and sl.step is None \
                    and isinstance(v, (Vec, IdxSet, Mask)):
                return v
            if isinstance(v, Vec) and sl.step is None:
                # a sub-sequence: same elements, other positions
                return Vec(v.base, v.val, v.facts,
                           'slice(%s|%s)' % (v.align, _s(sl)))
            if isinstance(v, IdxSet) and sl.step is None:
                return v
            return self.opaque(n)
        if isinstance(n.slice, ast.Tuple):
            return self.opaque(n)
        k = self.ev(n.slice, st)
        if isinstance(v, Vec):
            sel = 'sel(%s|%s)' % (v.align, k.id if isinstance(k, Mask) else
                                  k.mask.id if isinstance(k, IdxSet) else '')
            if isinstance(k, Mask):
                if k.base == v.base and k.align == v.align:
                    return Vec(v.base, v.val, v.facts + k.t, sel,
                               v.exact and k.te)
                return Vec(v.base, v.val, v.facts, sel)
            if isinstance(k, IdxSet):
                if k.mask.base == v.base and k.mask.align == v.align:
                    return Vec(v.base, v.val, v.facts + k.mask.t, sel,
                               v.exact and k.mask.te)
                return Vec(v.base, v.val, v.facts, sel)
            if isinstance(k, Idx):
                if k.mask.base == v.base and k.mask.align == v.align:
                    return self.elem_of(v, st, k.mask.t,
                                        order=k.pos if k.mask.te else None)
                return self.elem_of(v, st)
            if isinstance(k, ElemIdx):
                if k.base == v.base and k.align == v.align:
                    return Num(v.val.subs(EL, Poly.sym(k.sym))
                               if k.sym != EL else v.val)
                return self.elem_of(v, st)
            pk = self.num(k) if isinstance(k, (Num, Opaque)) else None
            return self.elem_of(v, st, index=pk, order={
                0: 'first', -1: 'last'}.get(const(n.slice)))
        if isinstance(v, Tup):
            c = const(n.slice)
            if isinstance(c, int) and -len(v.items) <= c < len(v.items):
                return v.items[c]
            return self.opaque(n)
        if isinstance(v, IdxSet):
            return Idx(v.mask, {0: 'first', -1: 'last'}.get(const(n.slice)))
        if isinstance(v, ListVal):
            return Num(Poly.sym(self.list_sym(v, const(n.slice) == -1)))
        if isinstance(v, Mask):
            return Cond()
        return self.opaque(n)

    # -- lists --
    def list_add(self, lv, v, node, st):
        p = self.num(v)
        if p is None or isinstance(v, (Vec, Mask)):
            lv.tainted = lv.tainted or node
        else:
            lv.items.append((p, node, list(st.facts), lv.version))
        lv.version += 1

    def list_sym(self, lv, last=False, version=None):
        """Symbol for `L[k]`: any item ever stored (a lazy case split);
        `L[-1]` gets its own symbol (np.diff needs to recognise it), one
        per state of the list."""
        name = '%s-of-%s.v%d' % ('last' if last else 'item', lv.id,
                                 lv.version if version is None else version)
        if name not in self.w.choice:
            self.w.choice[name] = lambda lv=lv: [(p, f)
                                                 for p, _, f, _v in lv.items]
        return name

    # -- calls --
    def call(self, n, st):
        nm = call_name(n) or ''
        f = n.func
        args = n.args
        meth = f.attr if isinstance(f, ast.Attribute) else None
        recv = f.value if isinstance(f, ast.Attribute) else None
        if any(isinstance(a, ast.Starred) for a in args):
            return self.opaque(n)
        kw = {k.arg: k.value for k in n.keywords}

        if nm in _ROUND and args:
            v = self.ev(args[0], st)
            d = args[1] if len(args) > 1 else kw.get('decimals',
                                                     kw.get('ndigits'))
            dv = const(d) if d is not None else 0
            if isinstance(dv, int) and dv >= ROUND_DIGITS:
                return v
            if isinstance(v, Vec):
                return self.opaque(n)
            p = self.num(v)
            if p is None:
                return self.opaque(n)
            return Num(p + Poly.sym(self.w.fresh(
                '<rounding to %s decimals>' % (dv,))))
        if meth == 'round' and not nm.startswith(('np.', 'numpy.')):
            v = self.eval(recv, st)
            dv = const(args[0]) if args else 0
            if isinstance(dv, int) and dv >= ROUND_DIGITS:
                return v
            return self.opaque(n)
        if nm in _PASS and len(args) >= 1:
            v = self.ev(args[0], st)
            if nm in ('np.sort', 'sorted', 'np.unique') and isinstance(
                    v, Vec):
                # the boundary set is sorted and unique (C05.R3): sorting an
                # increasing function of its elements moves nothing
                lin = v.val - _scale(Poly.sym(EL), v.val.t.get(
                    ((EL, 1),), Fraction(0)))
                if v.base == BNDS and EL not in lin.symbols() and \
                        v.val.t.get(((EL, 1),), 0) > 0 and not kw:
                    return v
                return Vec(v.base, v.val, v.facts, 'sorted(%s|%r)' % (
                    v.align, v.val))
            if isinstance(v, (Vec, Mask, Num, ListVal, IdxSet)):
                return v
            return self.opaque(n)
        if nm == 'int' and len(args) == 1:
            v = self.eval(args[0], st)
            if isinstance(v, (Idx, ElemIdx)):
                return v
            return self.opaque(n)
        if nm == 'bool' and len(args) == 1:
            return self.cond(args[0], st)
        if meth in _PASS_METH and nm.split('.')[0] not in ('np', 'numpy'):
            v = self.eval(recv, st)
            if isinstance(v, (Vec, Mask, Num, IdxSet)):
                return v
            return self.opaque(n)
        if nm in _ABS and len(args) == 1:
            v = self.eval(args[0], st)
            p = self.num(v)
            if p is None or isinstance(v, (Vec, Mask)):
                return self.opaque(n)
            return self.choice([(p, [-p]), (-p, [p])])
        if nm in _MIN or nm in _MAX or (meth in ('min', 'max') and
                                        not args):
            is_min = nm in _MIN or (nm not in _MAX and meth == 'min')
            if nm in _MIN or nm in _MAX:
                vals = [self.ev(a, st) for a in args]
            else:
                vals = [self.ev(recv, st)]
            return self.minmax(n, vals, is_min, st)
        if nm in _ANY and len(args) == 1 or (meth == 'any' and not args):
            v = self.eval(args[0] if nm in _ANY else recv, st)
            if isinstance(v, Mask):
                return Cond(any_t=(v.id,), none_f=_none_of(v))
            return Cond()
        if nm in ('all', 'np.all') or meth == 'all':
            return Cond()
        if nm in _AND + _OR and len(args) == 2:
            vals = [self.eval(a, st) for a in args]
            r = self.conj(vals, nm in _AND) if all(
                isinstance(v, (Mask, Cond)) for v in vals) else None
            return r if r is not None else self.opaque(n)
        if nm in _NOT and len(args) == 1:
            v = self.eval(args[0], st)
            if isinstance(v, Mask):
                return Mask(v.base, v.over, v.f, v.t, self.w.fresh('mask'),
                            v.align, te=v.fe, fe=v.te, xo=v.xo)
            if isinstance(v, Cond):
                return v.neg()
            return self.opaque(n)
        if nm in ('np.where', 'np.nonzero', 'numpy.where') and len(args) == 1 \
                or (meth == 'nonzero' and not args):
            v = self.eval(args[0] if args else recv, st)
            if isinstance(v, Mask):
                return Tup([IdxSet(v)])
            return self.opaque(n)
        if nm == 'np.where' and len(args) == 3:
            c = self.eval(args[0], st)
            a, b = self.eval(args[1], st), self.eval(args[2], st)
            pa, pb = self.num(a), self.num(b)
            if isinstance(c, Cond) and pa is not None and pb is not None \
                    and not isinstance(a, (Vec, Mask)) \
                    and not isinstance(b, (Vec, Mask)):
                return self.choice([(pa, list(c.t)), (pb, list(c.f))])
            return self.opaque(n)
        if nm == 'np.flatnonzero' and len(args) == 1:
            v = self.eval(args[0], st)
            return IdxSet(v) if isinstance(v, Mask) else self.opaque(n)
        if nm in ('np.argmax', 'np.nanargmax') and len(args) == 1 or \
                (meth == 'argmax' and not args):
            v = self.eval(args[0] if args else recv, st)
            if isinstance(v, Mask) and v.id in st.anyk:
                return Idx(v, 'first')      # of equal entries: the first
            return self.opaque(n)
        if meth == 'index' and len(args) == 1 and const(args[0]) is True:
            v = self.eval(recv, st)
            return Idx(v, 'first') if isinstance(v, Mask) else self.opaque(n)
        if nm == 'next' and args:
            v = self.eval(args[0], st)
            if isinstance(v, Vec):
                # (the facts of the element hold only where there is one)
                tmp = State()
                e = self.elem_of(v, tmp, order='first')
                if len(args) == 1:
                    st.facts += tmp.facts
                    return e
                d = self.eval(args[1], st)
                if isinstance(d, NoneVal):
                    return Maybe(e, tmp.facts, ((v.base, v.facts),)
                                 if v.exact else ())
                pd = self.num(d)
                if pd is not None:
                    return self.choice([(e.p, list(tmp.facts)), (pd, [])])
            return self.opaque(n)
        if nm == 'len' or meth in ('size',):
            if self.w.strict and nm == 'len' and len(args) == 1:
                v = self.eval(args[0], st)
                if isinstance(v, (IdxSet, Vec)):
                    return Len(v)
            return self.opaque(n)
        if self.w.strict and (nm in ('np.count_nonzero', 'np.sum', 'sum')
                              and len(args) == 1 and not kw or
                              meth == 'sum' and not args and not kw):
            # the number of true entries of a mask
            v = self.eval(args[0] if args else recv, st)
            if isinstance(v, Mask):
                return Len(IdxSet(v))
        # list mutation
        if meth in ('append', 'extend', 'insert') and recv is not None:
            lv = self.eval(recv, st)
            if isinstance(lv, ListVal):
                if meth == 'append' and len(args) == 1:
                    self.list_add(lv, self.eval(args[0], st), args[0], st)
                elif meth == 'extend' and len(args) == 1 and isinstance(
                        args[0], (ast.List, ast.Tuple)):
                    for x in args[0].elts:
                        self.list_add(lv, self.eval(x, st), x, st)
                elif meth == 'insert' and len(args) == 2:
                    self.list_add(lv, self.eval(args[1], st), args[1], st)
                else:
                    lv.tainted = lv.tainted or n
                    lv.version += 1
                lv.display = None
                return NoneVal()
            self.bump(recv)
            return NoneVal()
        if nm == 'np.diff' and len(args) == 1:
            v = self.eval(args[0], st)
            if isinstance(v, ListVal) and not v.tainted:
                out = ListVal(self.w.fresh('list'))
                for p, node, fs, ver in v.items[v.n_init:]:
                    last = Poly.sym(self.list_sym(v, True, ver))
                    out.items.append((p - last, node, fs, 0))
                if v.n_init != 1:
                    out.tainted = n
                return out
            return self.opaque(n)
        # package functions
        callee, drop = None, 0
        if isinstance(f, ast.Attribute) and isinstance(f.value, ast.Name) \
                and f.value.id == 'self' and self.fi.cls is not None:
            callee = self.w.repo.lookup_method(self.fi.cls, f.attr)
            drop = 1
        elif isinstance(f, ast.Name):
            r = st.env.get(f.id)
            if isinstance(r, FuncRef):
                callee = r.fi
            elif f.id not in st.env and f.id in self.fi.mod.funcs and \
                    self.fi.mod.funcs[f.id].cls is None and \
                    self.fi.mod.funcs[f.id].outer is None:
                callee = self.fi.mod.funcs[f.id]
        if callee is not None and not callee.is_property:
            if callee.full in self.w.summaries:
                return self.w.summaries[callee.full](self, n, st)
            v = self.inline(callee, n, drop, st)
            if v is not None:
                return v
        for a in args:
            v = self.eval(a, st)
            if isinstance(v, ListVal) and nm not in _PURE:
                v.tainted = v.tainted or n      # may be modified in there
                v.version += 1
        return Opaque(self.w.fresh(_s(n)))

    def minmax(self, n, vals, is_min, st):
        if len(vals) == 1:
            v = vals[0]
            if isinstance(v, Vec):
                # of a vector that increases / decreases with the element
                c = v.val.t.get(((EL, 1),), 0)
                lin = EL not in (v.val - _scale(Poly.sym(EL), c)).symbols()
                up = (c > 0) == is_min
                return self.elem_of(v, st, order=None if not lin or c == 0
                                    else 'first' if up else 'last')
            if isinstance(v, IdxSet):
                return Idx(v.mask, 'first' if is_min else 'last')
            if isinstance(v, Tup):
                vals = v.items
            elif isinstance(v, ListVal) and v.display:
                vals = v.display
            else:
                return self.opaque(n)
        ps = [self.num(v) for v in vals]
        if any(p is None for p in ps) or any(
                isinstance(v, (Vec, Mask)) for v in vals) or not ps:
            return self.opaque(n)
        cands = []
        for i, p in enumerate(ps):
            fs = [(p - q) if is_min else (q - p)
                  for j, q in enumerate(ps) if j != i]
            cands.append((p, fs))
        return self.choice(cands)

    def inline(self, callee, call, drop, st):
        if self.depth >= 4:
            return None
        a = callee.node.args
        if a.vararg or a.kwarg or a.kwonlyargs:
            return None
        params = callee.params[drop:]
        if len(call.args) > len(params):
            return None
        sub = Interp(self.w, callee, self.depth + 1)
        env = {}
        if drop:
            env[callee.params[0]] = Opaque('self')
        for p, x in zip(params, call.args):
            env[p] = self.eval(x, st)
        for k in call.keywords:
            if k.arg not in params or k.arg in env:
                return None
            env[k.arg] = self.eval(k.value, st)
        s0 = State(env, st.facts, st.anyk, st.nonek, st.exact)
        defaults = dict(zip(reversed(callee.params), reversed(a.defaults)))
        for p in params:
            if p not in s0.env:
                if p not in defaults:
                    return None
                s0.env[p] = sub.eval(defaults[p], State())
        nfacts, nnone = len(st.facts), len(st.nonek)
        try:
            outs = sub.run_body(s0)
        except _Unmodelled:
            return None
        rets = [(v, s) for _, v, s in sub.returns] + \
               [(NoneVal(), s) for s in outs]
        if not rets:
            return None
        if len(rets) == 1:
            v, s = rets[0]
            st.facts += s.facts[nfacts:]
            st.nonek += s.nonek[nnone:]
            st.exact = st.exact and s.exact
            return v
        st.exact = False        # (which return was taken is not in facts)
        some = [(v, s) for v, s in rets if not isinstance(v, NoneVal)]
        if len(some) < len(rets):
            if not some:
                return NoneVal()
            # what is known where the helper returns None
            none = [s.nonek[nnone:] for v, s in rets
                    if isinstance(v, NoneVal)]
            none = none[0] if len(none) == 1 else ()
            if len(some) == 1:
                return Maybe(some[0][0], some[0][1].facts[nfacts:], none)
            alts = []
            for v, s in some:
                p = self.num(v)
                if p is None or isinstance(v, (Vec, Mask)):
                    return None
                alts.append((p, list(s.facts[nfacts:])))
            return Maybe(self.choice(alts), none=none)
        cands = []
        for v, s in rets:
            p = self.num(v)
            if p is None or isinstance(v, (Vec, Mask)):
                return None
            cands.append((p, list(s.facts[nfacts:]) + (_known(
                s.nonek[nnone:]) if self.w.strict else [])))
        return self.choice(cands)

    # -- statements --
    def bump(self, target):
        """A store through an attribute / subscript: later reads of that
        text (and of its prefixes' extensions) denote another value."""
        t = _s(target)
        while True:
            self.w.ver[t] = self.w.ver.get(t, 0) + 1
            if isinstance(target, ast.Subscript):
                target = target.value
            else:
                break
            if isinstance(target, ast.Name):
                break
            t = _s(target)

    def assign(self, target, v, st, node=None):
        if isinstance(target, ast.Name):
            st.env[target.id] = v
        elif isinstance(target, (ast.Tuple, ast.List)):
            items = None
            if isinstance(v, Tup) and len(v.items) == len(target.elts):
                items = v.items
            elif isinstance(v, ListVal) and v.display and \
                    len(v.display) == len(target.elts):
                items = v.display
            for i, t in enumerate(target.elts):
                self.assign(t, items[i] if items else
                            Opaque(self.w.fresh('%s[%d]' % (
                                _s(node) if node is not None else '?', i))),
                            st, node)
        elif isinstance(target, ast.Starred):
            self.assign(target.value, Opaque(_s(target)), st, node)
        elif isinstance(target, ast.Subscript) and isinstance(
                target.value, ast.Name) and isinstance(
                    st.env.get(target.value.id), ListVal):
            lv = st.env[target.value.id]
            self.list_add(lv, v, node if node is not None else target, st)
            lv.display = None
        else:
            self.bump(target)

    def run_body(self, st):
        body = list(self.fi.node.body)
        outs = self.block(body, st)
        return [s for s, how in outs if how == 'next']

    def block(self, stmts, st):
        """[(state, 'next' | 'break' | 'continue')]"""
        live = [st]
        done = []
        for s in stmts:
            nxt = []
            for cur in live:
                for out, how in self.stmt(s, cur):
                    (nxt if how == 'next' else done).append((out, how))
            live = [o for o, _ in nxt]
            self.w.paths = max(self.w.paths, len(live) + len(done))
            if len(live) + len(done) > MAX_PATHS:
                raise AnalysisError('%s: more than %d paths' % (
                    self.fi.full, MAX_PATHS))
            if not live:
                break
        return [(s, 'next') for s in live] + done

    def branch(self, st, c, pol):
        out = st.copy()
        out.facts += list(c.t if pol else c.f)
        out.env.update(c.bind_t if pol else c.bind_f)
        out.anyk |= set(c.any_t if pol else c.any_f)
        out.nonek += list(c.none_t if pol else c.none_f)
        if c.value is None and not (c.te if pol else c.fe):
            out.exact = False
        return out

    def carried(self, loop):
        """Names assigned in the loop body on a path that can reach the
        next iteration (not always followed by break / return / raise)."""
        out = set()
        if any(isinstance(x, ast.Continue) for x in ast.walk(loop)):
            return self.assigned(loop.body)

        def exits(stmts):
            return bool(stmts) and isinstance(
                stmts[-1], (ast.Break, ast.Return, ast.Raise))

        def rec(stmts, leaving):
            lv = leaving or exits(stmts)
            for s in stmts:
                if isinstance(s, (ast.Assign, ast.AugAssign, ast.AnnAssign,
                                  ast.For, ast.With)):
                    from ..core import stmt_targets
                    for t in stmt_targets(s):
                        if isinstance(t, ast.Name) and not lv:
                            out.add(t.id)
                for x in ast.walk(s):
                    if isinstance(x, ast.NamedExpr) and isinstance(
                            x.target, ast.Name) and not lv:
                        out.add(x.target.id)
                for f in ('body', 'orelse', 'finalbody'):
                    b = getattr(s, f, None)
                    if isinstance(b, list) and b and isinstance(b[0],
                                                                ast.stmt):
                        inner_loop = isinstance(s, (ast.For, ast.While))
                        rec(b, False if inner_loop else lv)
                if isinstance(s, ast.Try):
                    for h in s.handlers:
                        rec(h.body, lv)
        rec(loop.body, False)
        return out

    def stmt(self, s, st):
        if isinstance(s, ast.Expr):
            self.eval(s.value, st)
            return [(st, 'next')]
        if isinstance(s, (ast.Pass, ast.Global, ast.Nonlocal, ast.Import,
                          ast.ImportFrom)):
            return [(st, 'next')]
        if isinstance(s, ast.Assign):
            v = self.eval(s.value, st)
            for t in s.targets:
                self.assign(t, v, st, s.value)
            return [(st, 'next')]
        if isinstance(s, ast.AnnAssign):
            if s.value is not None:
                self.assign(s.target, self.eval(s.value, st), st, s.value)
            return [(st, 'next')]
        if isinstance(s, ast.AugAssign):
            t = s.target
            if isinstance(t, ast.Name):
                cur = st.env.get(t.id)
                if isinstance(cur, ListVal) and isinstance(s.op, ast.Add):
                    if isinstance(s.value, (ast.List, ast.Tuple)):
                        for x in s.value.elts:
                            self.list_add(cur, self.eval(x, st), x, st)
                    else:
                        cur.tainted = cur.tainted or s
                        cur.version += 1
                    cur.display = None
                    return [(st, 'next')]
                bo = ast.BinOp(left=ast.Name(id=t.id, ctx=ast.Load()),
                               op=s.op, right=s.value)
                ast.copy_location(bo, s)
                ast.fix_missing_locations(bo)
                st.env[t.id] = self.eval(bo, st)
            else:
                self.eval(s.value, st)
                base = t
                while isinstance(base, (ast.Subscript, ast.Attribute)):
                    base = base.value
                if isinstance(base, ast.Name) and isinstance(
                        st.env.get(base.id), ListVal):
                    lv = st.env[base.id]
                    lv.tainted = lv.tainted or s
                    lv.version += 1
                self.bump(t)
            return [(st, 'next')]
        if isinstance(s, ast.Return):
            v = self.eval(s.value, st) if s.value is not None else NoneVal()
            self.returns.append((s, v, st))
            return []
        if isinstance(s, ast.Raise):
            return []
        if isinstance(s, ast.Break):
            return [(st, 'break')]
        if isinstance(s, ast.Continue):
            return [(st, 'continue')]
        if isinstance(s, ast.Assert):
            c = self.cond(s.test, st)
            return [(self.branch(st, c, True), 'next')]
        if isinstance(s, ast.Delete):
            for t in s.targets:
                if isinstance(t, ast.Name):
                    st.env.pop(t.id, None)
                else:
                    self.bump(t)
            return [(st, 'next')]
        if isinstance(s, (ast.FunctionDef, ast.AsyncFunctionDef)):
            q = self.fi.qual + '.' + s.name
            fi = self.fi.mod.funcs.get(q)
            st.env[s.name] = FuncRef(fi) if fi is not None else \
                Opaque(s.name)
            return [(st, 'next')]
        if isinstance(s, ast.ClassDef):
            st.env[s.name] = Opaque(s.name)
            return [(st, 'next')]
        if isinstance(s, ast.If):
            c = self.cond(s.test, st)
            out = []
            if c.value is not False:
                out += self.block(s.body, self.branch(st, c, True))
            if c.value is not True:
                out += self.block(s.orelse, self.branch(st, c, False))
            return out
        if isinstance(s, (ast.For, ast.While)):
            return self.loop(s, st)
        if isinstance(s, ast.With):
            for it in s.items:
                v = self.eval(it.context_expr, st)
                if it.optional_vars is not None:
                    self.assign(it.optional_vars, Opaque(_s(it.context_expr)),
                                st, it.context_expr)
            return self.block(s.body, st)
        if isinstance(s, ast.Try):
            pre = st.copy()
            out = []
            body = self.block(s.body, st)
            for o, how in body:
                if how == 'next' and s.orelse:
                    out += self.block(s.orelse, o)
                else:
                    out.append((o, how))
            for h in s.handlers:
                hs = pre.copy()
                hs.exact = False
                for nm in self.assigned(s.body):
                    hs.env[nm] = Opaque(self.w.fresh(nm))
                if h.name:
                    hs.env[h.name] = Opaque(h.name)
                out += self.block(h.body, hs)
            if s.finalbody:
                fin = []
                for o, how in out:
                    for o2, how2 in self.block(s.finalbody, o):
                        fin.append((o2, how if how2 == 'next' else how2))
                out = fin
            return out
        raise AnalysisError('%s: statement `%s` is not modelled by the step '
                            'interpreter' % (self.fi.full, short(s, 60)))

    def assigned(self, stmts):
        from ..core import stmt_targets
        out = set()
        for s in stmts:
            for x in ast.walk(s):
                if isinstance(x, (ast.Assign, ast.AugAssign, ast.AnnAssign,
                                  ast.For, ast.With)):
                    for t in stmt_targets(x):
                        if isinstance(t, ast.Name):
                            out.add(t.id)
                elif isinstance(x, ast.NamedExpr) and isinstance(
                        x.target, ast.Name):
                    out.add(x.target.id)
        return out

    def search_knowledge(self, search, nb, n0, ver0, leaving):
        """A `for` loop over an exact vector (see Vec) that is left by
        return / break under a condition on the current element alone is a
        search for the first element that satisfies it.  Returns the (base,
        predicate) pairs no element satisfies when the loop runs to its end
        and records, for the element of a leaving pass, that no earlier
        element satisfies them (C05.R2 on values).  A leaving path counts
        when its facts are equivalent to taking it (State.exact) and speak
        of nothing but the element and quantities fixed before the loop."""
        import re
        sym, base, over = search
        if self.w.ver != ver0:
            return []           # something the tests may read was stored to
        el = Poly.sym(EL)
        found = []
        for o in leaving:
            path = o.facts[nb:]
            # (symbols made during the pass, items of lists: not fixed)
            local = [x for f in path for x in f.symbols() if x != sym and (
                self.w.is_choice(x) or any(
                    int(k) > n0 for k in re.findall(r'#(\d+)', x)))]
            if not o.exact or local:
                continue
            k = (base, tuple(f.subs(sym, el) for f in over + path))
            if k not in found:
                found.append(k)
        for k in found:
            e = ('first',) + k
            if e not in self.w.order.setdefault(sym, []):
                self.w.order[sym].append(e)
        return found

    def loop(self, s, st, try_inv=True):
        carried = self.carried(s)
        every = self.assigned(s.body)
        if isinstance(s, ast.For):
            from ..core import stmt_targets
            every |= {t.id for t in stmt_targets(s)
                      if isinstance(t, ast.Name)}
        body0 = st.copy()
        n0, ret0, ver0 = self.w.n, len(self.returns), dict(self.w.ver)
        # a number carried round the loop: try the invariant "<= bound"
        # (assumed at the start of a pass, shown at its end; if it is not
        # inductive the loop is analysed again with the name unknown)
        inv = {}
        for nm in sorted(carried):
            pre = st.env.get(nm)
            if try_inv and self.w.bound is not None and \
                    isinstance(pre, Num) and prove_le(
                        self.w, pre.p, self.w.bound, st.facts)[0]:
                sym = self.w.fresh('carried-' + nm)
                inv[nm] = sym
                body0.env[nm] = Num(Poly.sym(sym))
                body0.facts.append(Poly.sym(sym) - self.w.bound)
            else:
                body0.env[nm] = Opaque(self.w.fresh(nm))
        search = None           # (element symbol, base, filter) of a search
        if isinstance(s, ast.For):
            # the element symbol is created first so that bind_iter can
            # instantiate the element facts with it
            sym = self.w.fresh('elem')
            b = self.bind_iter(s.iter, s.target, body0, sym)
            if b is not None:
                binds, base, over, _align = b
                self.w.elem[sym] = base
                body0.env.update(binds)
                body0.facts += list(over)
                if self.w.strict and self.iter_exact:
                    search = (sym, base, list(over))
            else:
                self.eval(s.iter, body0)
                self.assign(s.target, Opaque(self.w.fresh(_s(s.target))),
                            body0, s.iter)
        else:
            c = self.cond(s.test, body0)
            if c.value is False:
                return self.block(s.orelse, st) if s.orelse else \
                    [(st, 'next')]
            body0 = self.branch(body0, c, True)
        body0.exact = True
        nb = len(body0.facts)
        outs = self.block(s.body, body0)
        found = self.search_knowledge(search, nb, n0, ver0, [
            st_ for _, _, st_ in self.returns[ret0:]] + [
                o for o, how in outs if how == 'break']) if search else []
        for o, how in outs:
            # (that the loop was left / completed is not in the facts)
            o.exact = False
        for nm, sym in inv.items():
            back = [o.env.get(nm) for o, how in outs
                    if how in ('next', 'continue')]
            facts = [o.facts for o, how in outs if how in ('next', 'continue')]
            if not all(isinstance(v, Num) and prove_le(
                    self.w, v.p, self.w.bound, f)[0]
                       for v, f in zip(back, facts)):
                return self.loop(s, st, try_inv=False)
        # fall-through: zero or more complete passes
        after = st.copy()
        after.exact = False
        after.nonek += found    # no element made the loop leave
        for nm, sym in inv.items():
            out_sym = self.w.fresh('after-loop-' + nm)
            after.facts.append(Poly.sym(out_sym) - self.w.bound)
            vals = [st.env[nm].p] + [o.env[nm].p for o, how in outs
                                     if how in ('next', 'continue')]
            if all(l == Poly.sym(sym) or _landing(self.w, l)
                   for v in vals for l in leaves(self.w, v)):
                self.w.landing_ok |= {sym, out_sym}
            after.env[nm] = Num(Poly.sym(out_sym))
        for nm in every:
            if nm in inv:
                continue
            if nm in carried or nm not in after.env or \
                    isinstance(s, ast.For) and nm in {
                        x.id for x in ast.walk(s.target)
                        if isinstance(x, ast.Name)}:
                after.env[nm] = Opaque(self.w.fresh(nm))
        # a name assigned only on leaving paths keeps its value on the
        # fall-through path; one assigned on a continuing path is unknown
        res = []
        if s.orelse:
            res += self.block(s.orelse, after)
        else:
            res.append((after, 'next'))
        for o, how in outs:
            if how == 'break':
                res.append((o, 'next'))
        return res


# ---------------------------------------------------------------------------
# the rule

def _one_sym(p):
    if len(p.t) == 1:
        (k, v), = p.t.items()
        if v == 1 and len(k) == 1 and k[0][1] == 1:
            return k[0][0]
    return None


def _landing(world, p, zsym='z'):
    """The leaf value is req_dz, or b - z with b an element of the boundary
    set, or a loop-carried number that only ever holds such values."""
    if p == Poly.sym('R') or _one_sym(p) in world.landing_ok:
        return True
    e = _one_sym(p + Poly.sym(zsym))
    return e is not None and world.elem.get(world.split(e)[0]) == BNDS


def _check_anchor(ctx, rule, world):
    repo = ctx.repo
    fi = repo.func('reactor', ANCHOR)
    if len(fi.params) < 2:
        raise AnalysisError('%s: %s(self, z) lost its plane parameter'
                            % (rule, ANCHOR))
    it = Interp(world, fi)
    st = State({fi.params[0]: Opaque('self'),
                fi.params[1]: Num(Poly.sym('z'))})
    for p in fi.params[2:]:
        st.env[p] = Opaque(p)
    outs = it.run_body(st)
    if not it.returns and not outs:
        raise AnalysisError('%s: %s has no path to a return' % (rule, ANCHOR))
    if outs:
        ctx.violation(rule, fi, fi.node, 'a path through _check_dz reaches '
                      'the end of the function without returning a step',
                      key='%s | falls off the end' % fi.full)
    by_node = {}
    for node, v, s in it.returns:
        by_node.setdefault(id(node), (node, []))[1].append((v, s))
    R = Poly.sym('R')
    for node, paths in by_node.values():
        text = short(node.value, 90) if node.value is not None else 'None'
        bad, badland = [], []
        for v, s in paths:
            p = it.num(v)
            if p is None or isinstance(v, (Vec, Mask)):
                bad.append('`%s` is not a number the analysis can bound'
                           % text)
                continue
            ok, why = prove_le(world, p, R, s.facts)
            if not ok:
                bad.append(why)
            for leaf in leaves(world, p):
                if not _landing(world, leaf):
                    badland.append(_fmt(leaf))
        ctx.require(not bad, rule, fi, node,
                    'every step _check_dz returns must be at most the '
                    'stability requirement self.req_dz (a longer step makes '
                    'the self-weight 1 - dz * sum(coefficients) of the '
                    'limiting subchannel / gap cell negative: the update is '
                    'no longer a weighted average with non-negative '
                    'weights); `return %s`: %s (R = req_dz, z = plane, '
                    'elem = the selected element of %s)'
                    % (text, '; '.join(sorted(set(bad))[:2]), BNDS),
                    note='value <= req_dz on %d path(s)' % len(paths),
                    key='%s | returned step within req_dz | %s'
                    % (fi.full, text))
        ctx.require(not badland, rule, fi, node,
                    'a step returned by _check_dz must be self.req_dz or '
                    'the distance from the plane z to an element of %s (it '
                    'lands on the boundary plane, neither stretched nor '
                    'shrunk); `return %s` can be %s'
                    % (BNDS, text, ', '.join(sorted(set(badland))[:3])),
                    note='req_dz or boundary - z',
                    key='%s | returned step is req_dz or bound - z | %s'
                    % (fi.full, text))
    return fi


def _steps_component(ctx, rule):
    """Index of the component of _setup_zpts()'s result that becomes
    self.dz (the steps the sweep marches with)."""
    repo = ctx.repo
    hits = []
    for fi in repo.all_funcs():
        if fi.mod.name != 'dassh.reactor':
            continue
        for c in U.attr_calls(fi.node, '_setup_zpts'):
            hits.append((fi, c))
    if len(hits) != 1:
        raise AnalysisError('%s: expected one call of _setup_zpts in '
                            'dassh.reactor (found %d)' % (rule, len(hits)))
    fi, c = hits[0]
    from ..core import enclosing_stmt
    stt = enclosing_stmt(c)
    if isinstance(stt, ast.Assign) and stt.value is c and \
            len(stt.targets) == 1 and isinstance(stt.targets[0], ast.Tuple):
        names = [_s(t) for t in stt.targets[0].elts]
        if 'self.dz' in names:
            return names.index('self.dz'), len(names), stt
    # held in a local and unpacked / indexed later
    if isinstance(stt, ast.Assign) and stt.value is c and \
            len(stt.targets) == 1 and isinstance(stt.targets[0], ast.Name):
        loc = stt.targets[0].id
        for t, st2 in U.stores(fi.node):
            if _s(t) == 'self.dz' and isinstance(st2, ast.Assign):
                v = st2.value
                if isinstance(v, ast.Subscript) and _s(v.value) == loc and \
                        isinstance(const(v.slice), int):
                    return const(v.slice), None, st2
                if _s(v) == loc and isinstance(st2.targets[0], ast.Tuple):
                    names = [_s(x) for x in st2.targets[0].elts]
                    if 'self.dz' in names:
                        return names.index('self.dz'), len(names), st2
    ctx.violation(rule, fi, stt, 'self.dz (the steps of the sweep) must be '
                  'the step component of what _setup_zpts() returns, stored '
                  'as it is; no such store follows `%s`' % short(stt, 80),
                  key='%s | self.dz = steps of _setup_zpts()' % fi.full)
    return None, None, None


def _single_writer(ctx, rule, store):
    """self.dz is what _setup_zpts returned: nothing else stores into it
    (`store` = the statement that puts the result there)."""
    from ..core import access_path
    repo = ctx.repo
    init = None
    for fi in repo.all_funcs():
        if fi.cls is None or fi.cls.name != 'Reactor' or \
                fi.mod.name != 'dassh.reactor':
            continue
        for t, st in U.stores(fi.node):
            p = access_path(t)
            if p is None or p[:2] != ('self', 'dz'):
                continue
            if st is store and len(p) == 2:
                init = (fi, st)
                continue
            ctx.violation(
                rule, fi, st, 'self.dz must hold the steps _setup_zpts '
                'built (each at most self.req_dz); `%s` stores something '
                'else into it' % short(st, 80),
                key='%s | other writer of self.dz | %s' % (fi.full,
                                                           short(st, 80)))
    if init is not None:
        ctx.ok(rule, init[0], init[1], 'only writer of self.dz')


def _check_builder(ctx, rule, world, anchor):
    repo = ctx.repo
    fi = repo.func('reactor', BUILDER)
    idx, width, store = _steps_component(ctx, rule)
    sites = [f.full for f in repo.all_funcs()
             for c in U.attr_calls(f.node, anchor.name)]
    if set(sites) - {fi.full}:
        raise AnalysisError(
            '%s: _check_dz is expected to be called from _setup_zpts only '
            '(call sites: %s); another consumer of its steps is not analysed'
            % (rule, sorted(set(sites))))
    R = Poly.sym('R')

    def summary(interp, call, st):
        for a in call.args:
            interp.eval(a, st)
        c = world.fresh('step-of-_check_dz')
        st.facts.append(Poly.sym(c) - R)
        return Num(Poly.sym(c))
    world.summaries[anchor.full] = summary
    it = Interp(world, fi)
    st = State({fi.params[0]: Opaque('self')})
    for p in fi.params[1:]:
        st.env[p] = Opaque(p)
    it.run_body(st)
    if not it.returns:
        raise AnalysisError('%s: %s has no path to a return' % (rule, BUILDER))
    n = 0
    for node, v, s in it.returns if idx is not None else []:
        comp = None
        if isinstance(v, Tup) and (width is None or len(v.items) == width) \
                and -len(v.items) <= idx < len(v.items):
            comp = v.items[idx]
        text = short(node.value, 90) if node.value is not None else 'None'
        if not isinstance(comp, ListVal):
            ctx.violation(
                rule, fi, node, 'the steps _setup_zpts returns (component '
                '%d of `return %s`, stored in self.dz) must be the values '
                'returned by _check_dz, collected one per plane; the '
                'analysis cannot see them as such a list' % (idx, text),
                key='%s | step array | %s' % (fi.full, text))
            n += 1
            continue
        if comp.tainted:
            tn = comp.tainted
            ctx.violation(
                rule, fi, tn if isinstance(tn, ast.AST) else node,
                'a value the analysis cannot bound is stored in the step '
                'array of _setup_zpts: `%s`' % short(tn, 80),
                key='%s | step array entry | %s' % (fi.full, short(tn, 80)))
            n += 1
        groups = {}
        for p, item, fs, _ver in comp.items:
            groups.setdefault(id(item), (item, []))[1].append((p, fs))
        for item, alts in groups.values():
            res = [prove_le(world, p, R, fs) for p, fs in alts]
            ok = all(r[0] for r in res)
            why = '; '.join(sorted({r[1] for r in res if not r[0]}))
            n += 1
            ctx.require(ok, rule, fi, item,
                        'every entry of the step array of _setup_zpts (it '
                        'becomes self.dz, the steps of the sweep) must be a '
                        'value returned by _check_dz and hence at most '
                        'self.req_dz; `%s`: %s' % (short(item, 80), why),
                        note='entry <= req_dz',
                        key='%s | step array entry within req_dz | %s'
                        % (fi.full, short(item, 80)))
        if not comp.items and not comp.tainted:
            ctx.violation(rule, fi, node, 'no step is ever stored in the '
                          'step array _setup_zpts returns',
                          key='%s | step array empty' % fi.full)
            n += 1
    return store


def run(ctx):
    rule = RULES[ctx.prop]
    ctx.decided.append(
        '%s every value Reactor._check_dz can return (all paths, all planes, '
        'all boundary sets) is at most self.req_dz and is req_dz itself or '
        'the distance to an element of self.axial_bnds, and every entry of '
        'the step array _setup_zpts hands to the sweep is such a value '
        '(abstract interpretation of the returned values; the bound is '
        'discharged by exact linear arithmetic over the inequalities the '
        'selected boundary is known to satisfy)' % rule.split('.')[1])
    ctx.trusted.append('%s: np.around(x, d >= %d) is the identity; req_dz > '
                       '0 (C05.R1)' % (rule, ROUND_DIGITS))
    world = World(ctx.repo)
    world.bound = Poly.sym('R')
    anchor = _check_anchor(ctx, rule, world)
    store = _check_builder(ctx, rule, world, anchor)
    _single_writer(ctx, rule, store)
    # one return of the anchor (bound + landing) and one stored step at least
    ctx.min_instances(rule, 3)


# ---------------------------------------------------------------------------
# C05.R2 decided on values (called from rules/c05.py:r2, and through its
# alias from C03.R7)
#
# Clause: `_check_dz(z)` returns req_dz, or the distance to the FIRST
# boundary strictly inside (z, z + req_dz).  On values, for every return
# path with returned step s:
#   (landing)   s is req_dz or b - z for an element b of self.axial_bnds;
#   (crossing)  s <= req_dz;
#   (ahead)     s > 0 -- a boundary counts only if it is strictly ahead,
#               with z <= b the step at a boundary plane is 0 (hang);
#   (first)     no element of self.axial_bnds lies strictly inside
#               (z, z + s): the full step is taken only when nothing is
#               crossed, and of the crossed boundaries the first is taken.
# The interpreter above runs with World.strict: comparisons keep their
# strictness (a < b is the fact a - b + @s <= 0, @s an arbitrarily small
# positive number), and three kinds of knowledge beyond "an element for which
# P holds" are kept: which element of an exact vector (every element of the
# sorted boundary set that satisfies the filter, in order) was taken -- the
# first or the last with P (`np.where(M)[0][0]`, `M.index(True)`,
# `np.argmax`, `X[M][0]`, `hits[0]`, `min`, `next`, the element at which a
# search loop is left); that no element satisfies P (`not any(M)`, an empty
# filter result, `next(.., None) is None`, a helper returning None, a search
# loop that ran to its end) -- only for predicates whose facts are equivalent
# to the test, not merely implied by it.  (ahead) and (first) are refutations:
# the facts of the path, the assumption (s <= 0, resp. an element x with
# z < x < z + s) and the knowledge instantiated at x must have no solution;
# decided by Fourier-Motzkin elimination over the monomials (exact, complete
# for linear facts).  Anything else -- an element taken at an unknown
# position, a predicate the interpreter could not make exact -- leaves the
# refutation open and is reported.

def _infeasible(facts, cap=600):
    """No values satisfy all `f <= 0` (R > 0; @s > 0 as small as needed)."""
    eps_k = ((EPS, 1),)
    rows = [f for f in facts] + [Poly.sym(EPS) - Poly.sym('R')]

    def variables(p):
        return [k for k in p.t if k != () and k != eps_k]

    def absurd(p):
        c0, c1 = p.t.get((), 0), p.t.get(eps_k, 0)
        return c0 > 0 or (c0 == 0 and c1 > 0)
    seen = set()
    while True:
        live = []
        for r in rows:
            if not variables(r):
                if absurd(r):
                    return True
                continue
            key = repr(sorted(r.t.items()))
            if key not in seen:
                seen.add(key)
                live.append(r)
        if not live:
            return False
        count = {}
        for r in live:
            for k in variables(r):
                c = count.setdefault(k, [0, 0])
                c[0 if r.t[k] > 0 else 1] += 1
        m = min(sorted(count), key=lambda k: count[k][0] * count[k][1])
        pos = [r for r in live if r.t.get(m, 0) > 0]
        neg = [r for r in live if r.t.get(m, 0) < 0]
        rows = [r for r in live if m not in r.t]
        if len(rows) + len(pos) * len(neg) > cap:
            return False
        for a in pos:
            for b in neg:
                rows.append(_scale(a, -b.t[m]) + _scale(b, a.t[m]))
        seen = set()


def _cases(world, polys, depth=0):
    """Like _expand, but the case splits of the facts are opened as well
    (`min(R, d)` = R under the fact R <= d, d itself a split)."""
    cs = sorted({s for p in polys for s in p.symbols() if world.is_choice(s)})
    if not cs or depth > 8:
        yield polys
        return
    c = cs[0]
    for cand, cf in world.candidates(c):
        sub = [p.subs(c, cand) if c in p.symbols() else p
               for p in list(polys) + list(cf)]
        for out in _cases(world, sub, depth + 1):
            yield out


def _negated(f):
    """The inequality that holds when `f <= 0` does not."""
    c = f.t.get(((EPS, 1),), 0)
    eps = Poly.sym(EPS)
    if c > 0:
        return -(f - _scale(eps, c))
    return eps - f


def _refuted(facts, pieces, budget):
    """facts and one alternative of every piece have no common solution
    (pieces: [[fact, ...] alternatives]; a piece without alternatives cannot
    be satisfied at all)."""
    if _infeasible(facts):
        return True
    if not pieces:
        return False
    # a piece all of whose alternatives are impossible settles it
    for p in pieces:
        budget[0] -= len(p) + 1
        if budget[0] < 0:
            return False
        if all(_infeasible(facts + alt) for alt in p):
            return True
    first, rest = pieces[0], pieces[1:]
    return all(_refuted(facts + alt, rest, budget) for alt in first)


def _knowledge_at(world, st, syms, x):
    """The universally quantified knowledge of the path, instantiated at the
    element x of the boundary set: a list of pieces (see _refuted)."""
    xs = Poly.sym(x)
    pieces = []
    for base, pred in st.nonek:
        if base == BNDS:
            pieces.append([[_negated(f.subs(EL, xs))] for f in pred])
    for e in sorted(syms):
        for kind, base, pred in world.order.get(e, ()):
            if base != BNDS:
                continue
            es = Poly.sym(e)
            beyond = es - xs if kind == 'first' else xs - es
            pieces.append([[beyond]] + [[_negated(f.subs(EL, xs))]
                                        for f in pred])
    return pieces


def step_clause(ctx, rule):
    """C05.R2 on the values `_check_dz` returns (see above)."""
    repo = ctx.repo
    fi = repo.func('reactor', ANCHOR)
    if len(fi.params) < 2:
        raise AnalysisError('%s: %s(self, z) lost its plane parameter'
                            % (rule, ANCHOR))
    world = World(repo)
    world.bound = R = Poly.sym('R')
    world.strict = True
    it = Interp(world, fi)
    st = State({fi.params[0]: Opaque('self'),
                fi.params[1]: Num(Poly.sym('z'))})
    for p in fi.params[2:]:
        st.env[p] = Opaque(p)
    outs = it.run_body(st)
    if not it.returns and not outs:
        raise AnalysisError('%s: %s has no path to a return' % (rule, ANCHOR))
    if outs:
        ctx.violation(rule, fi, fi.node, 'a path through _check_dz reaches '
                      'the end of the function without returning a step',
                      key='%s | falls off the end' % fi.full)
    by_node = {}
    for node, v, s in it.returns:
        by_node.setdefault(id(node), (node, []))[1].append((v, s))
    z, eps = Poly.sym('z'), Poly.sym(EPS)
    n = 0
    ctx.trusted.append('%s: self.axial_bnds is sorted and free of duplicates '
                       '(np.unique, C05.R3); np.around(x, d >= %d) is the '
                       'identity; req_dz > 0 (C05.R1)' % (rule, ROUND_DIGITS))
    for node, paths in by_node.values():
        text = short(node.value, 90) if node.value is not None else 'None'
        bad = {'landing': [], 'crossing': [], 'ahead': [], 'first': []}
        for v, s in paths:
            p = it.num(v)
            if p is None or isinstance(v, (Vec, Mask)):
                for k in bad:
                    bad[k].append('`%s` is not a number the analysis can '
                                  'follow' % text)
                continue
            ok, why = prove_le(world, p, R, s.facts)
            if not ok:
                bad['crossing'].append(why)
            for polys in _cases(world, [p] + list(s.facts)):
                leaf, fs = polys[0], list(polys[1:])
                if not _landing(world, leaf):
                    bad['landing'].append(_fmt(leaf))
                    continue
                if _infeasible(fs):
                    continue        # this case of the split cannot occur
                if not _infeasible(fs + [leaf]):
                    bad['ahead'].append(_fmt(leaf))
                x = world.new_elem(BNDS)
                xs = Poly.sym(x)
                inside = [z - xs + eps, xs - z - leaf + eps]
                syms = set(leaf.symbols())
                for f in fs:
                    syms |= f.symbols()
                # (what is known in the case of a split travels with it)
                case = State(nonek=list(s.nonek) + [
                    k for f in fs if isinstance(f, Known) for k in f.none])
                if not _refuted(fs + inside,
                                _knowledge_at(world, case, syms, x), [400]):
                    bad['first'].append(_fmt(leaf))
        what = {
            'landing': (
                'returned step is req_dz or bound - z',
                '_check_dz may only return req_dz or the (rounded) distance '
                'from the plane z to an element of %s; `return %s` can be %%s'
                % (BNDS, text)),
            'crossing': (
                'returned step within req_dz',
                'a boundary is crossed only when z + req_dz passes it: the '
                'step to it must not exceed req_dz; `return %s`: %%s' % text),
            'ahead': (
                'strictly ahead',
                'a boundary counts as crossed only if it is strictly ahead '
                '(z < b): with z <= b the returned step is 0 at every '
                'boundary plane and the mesh loop never advances; `return '
                '%s` is not shown to be positive (step %%s; z = plane, elem '
                '= the selected element of %s)' % (text, BNDS)),
            'first': (
                'first crossed boundary',
                'the step must end at the *first* boundary strictly inside '
                '(z, z + req_dz), and be req_dz only when there is none; on '
                'a path to `return %s` nothing rules out another element of '
                '%s strictly between z and z + step (step %%s): a boundary '
                'plane is stepped over' % (text, BNDS)),
        }
        for k in ('landing', 'crossing', 'ahead', 'first'):
            tag, msg = what[k]
            n += 1
            ctx.require(not bad[k], rule, fi, node,
                        msg % '; '.join(sorted(set(bad[k]))[:3]),
                        note='%s, %d path(s)' % (tag, len(paths)),
                        key='%s | %s | %s' % (fi.full, tag, text))
    return n
