"""C01.R11 -- the energy-balance state is per assembly.

Clause: the tallies the balance is closed with (`ebal[...]`), the coolant
temperatures (`temp[...]`) and the delivered-power record are owned by one
region / assembly object; objects cloned from one template must not share
them at the depth at which the per-step code modifies them (a shallow
`dict(self.ebal)` gives every clone its own dict but the same arrays, so the
duct heat of all assemblies of a type lands in one tally and no assembly's
balance closes).  Decided by the clone-ownership analysis of C06.R1 (mutated
- rebound over the per-object entry points, with the depth of the mutation
compared with the depth of the copy), restricted to these attributes."""
from ..core import AnalysisError

PROPS = ('C01',)
ATTRS = ('ebal', 'temp', '_power_delivered')


class _Only:
    """View of a Ctx that keeps the reports about ATTRS only."""

    def __init__(self, ctx):
        self._ctx = ctx
        self.n = 0

    def __getattr__(self, name):
        return getattr(self._ctx, name)

    def _mine(self, key, what):
        text = '%s %s' % (key or '', what or '')
        return any((' ' + a) in text or ('.' + a) in text for a in ATTRS)

    def ok(self, rule, fi, node, note=''):
        if self._mine('', note):
            self.n += 1
            self._ctx.ok('C01.R11', fi, node, note)

    def violation(self, rule, fi, node, what, key=None):
        if self._mine(key, what):
            self.n += 1
            self._ctx.violation('C01.R11', fi, node, what, key=key)

    def require(self, cond, rule, fi, node, what, note='', key=None):
        if self._mine(key, what):
            self.n += 1
            return self._ctx.require(cond, 'C01.R11', fi, node, what,
                                     note=note, key=key)
        return bool(cond)

    def advisory(self, *a, **k):
        pass


def run(ctx):
    from . import c06
    from ..resolve import Resolver
    v = _Only(ctx)
    c06.r1(v, Resolver(ctx.repo))
    if v.n < 4:
        raise AnalysisError('C01.R11: clone-ownership analysis produced only '
                            '%d obligations about %s' % (v.n, ATTRS))
    ctx.decided.append(
        'R11 energy-balance tallies, coolant temperatures and delivered-power '
        'records are not shared between objects cloned from one template at '
        'the depth at which the per-step code modifies them (clone ownership '
        'of C06.R1 restricted to ebal / temp / _power_delivered)')
