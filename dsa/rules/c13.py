"""C13 -- pin radial temperatures ordered, radial conduction."""
import ast

from ..core import (AnalysisError, access_path, const, find_all, match, short,
                    src, walk_no_nested, parent, call_name)
from ..cfg import cfg_of
from .. import util as U
from ..interval import Iv, Interp

K_CALLS = ("self.clad['k']", "self.gap['k']", 'self._fuel_cond')


class PinInterp(Interp):
    """Conductivity evaluations are positive."""
    def call(self, n):
        f = src(n.func)
        if f in K_CALLS:
            return Iv.gt(0.0)
        return super().call(n)


def run(ctx):
    ctx.decided += [
        'R1 (interval abstract interpretation) every statement that derives a '
        'temperature from another one in calc_clad_temps / calc_fuel_temps '
        'adds an increment proved >= 0 under q >= 0, htc > 0, k > 0, dz > 0 '
        'and the geometric facts the constructor establishes; with q = 0 every '
        'increment is exactly 0; the zero-gap branch returns the clad '
        'temperature; column order of the returned clad array matches its use',
        'R2 the three conductivity iterations are bounded (counter, increment '
        'on every path, error on the limit)',
        'R4 the coolant temperature of a pin is the sum over its adjacent '
        'subchannels weighted by the pin-to-subchannel fractions',
        'R5 the fuel shell march runs from the surface inwards, evaluates '
        'every conductivity with the material of the shell being crossed '
        '(_fuel_cond(i, .) with the loop index) and carries nothing but the '
        'temperature from one shell to the next (no upward-exposed local in '
        'the loop body)']
    ctx.decided += [
        'R6 the power density the fuel shells see is linear power over the '
        'cross-section the shells tile: fuel area = pi (R^2 - r_in^2) with R '
        'the very radius the fractional shell radii are scaled with (pellet '
        'outer radius = clad inner radius - gap), and q_dens = q_lin / area']
    ctx.not_decided += ['gap with radiation (sign of the iterate)',
                        'clad ID >= MW (needs monotonicity of ln)',
                        'conduction residuals as numbers']
    ctx.assumptions += ['q >= 0, dz > 0, htc > 0, T > 0, conductivity '
                        'functions return k > 0', 'clad_thickness >= 0 and '
                        'smaller than the pin radius (check_pin)']
    r1(ctx)
    r2(ctx)
    r4(ctx)
    r5(ctx)
    ctx.min_instances('C13.R5', 3)
    r6(ctx)
    ctx.min_instances('C13.R6', 2)
    ctx.min_instances('C13.R1', 12)
    ctx.min_instances('C13.R2', 3)
    ctx.min_instances('C13.R4', 3)


def _geom_facts(ctx):
    """ln(r_outer / r_inner) terms of PinModel.__init__ are >= 0 because the
    radii are r2 - t, r2 - t/2, r2."""
    fi = ctx.repo.func('pin_model', 'PinModel.__init__')
    ok = bool(find_all("self.clad['r'][0] = self.clad['r'][2] - "
                       "clad_thickness", fi.node, 'stmt')) and \
        bool(find_all("self.clad['r'][1] = self.clad['r'][2] - "
                      "clad_thickness / 2", fi.node, 'stmt')) and \
        bool(find_all("self.clad['r'] = np.array([0.0, 0.0, d_pin / 2])",
                      fi.node, 'stmt'))
    ctx.require(ok, 'C13.R1', fi, fi.node, 'clad radii must be [r - t, '
                'r - t/2, r] (inner, mid, outer)',
                key=fi.full + ' | clad radii')
    facts = {}
    for pat, key in (
            ("self.clad['ln_r2r'] = np.log(self.clad['r'][Q_a] / "
             "self.clad['r'][Q_b])", "self.clad['ln_r2r']"),):
        h = find_all(pat, fi.node, 'stmt')
        good = bool(h) and const(h[0][1]['Q_a']) > const(h[0][1]['Q_b'])
        ctx.require(good, 'C13.R1', fi, h[0][0] if h else fi.node,
                    '%s must be ln(outer / inner) >= 0' % key,
                    key='%s | %s' % (fi.full, key))
        if good:
            facts[key] = Iv.ge(0.0)
    h = find_all("self.clad['ln_r2r_2node'] = [np.log(self.clad['r'][Q_a] / "
                 "self.clad['r'][Q_b]), np.log(self.clad['r'][Q_c] / "
                 "self.clad['r'][Q_d])]", fi.node, 'stmt')
    good = bool(h) and [const(h[0][1][k]) for k in
                        ('Q_a', 'Q_b', 'Q_c', 'Q_d')] == [1, 0, 2, 1]
    ctx.require(good, 'C13.R1', fi, h[0][0] if h else fi.node,
                'two-node log terms must be ln(r1/r0), ln(r2/r1)',
                key=fi.full + ' | ln_r2r_2node')
    if good:
        facts["self.clad['ln_r2r_2node']"] = Iv.ge(0.0)
    h = find_all("self.fuel['drsq_over_4'] = 0.25 * (self.fuel['r'][:, 1] ** 2"
                 " - self.fuel['r'][:, 0] ** 2)", fi.node, 'stmt')
    ctx.require(bool(h), 'C13.R1', fi, h[0][0] if h else fi.node,
                'fuel shell term must be (r_out^2 - r_in^2) / 4',
                key=fi.full + ' | drsq_over_4')
    if h:
        facts["self.fuel['drsq_over_4']"] = Iv.ge(0.0)
    facts["self.clad['r']"] = Iv.gt(0.0)
    return facts


def _assigns_in_order(fn):
    out = []
    for st in ast.walk(fn):
        if isinstance(st, (ast.Assign, ast.AugAssign)):
            out.append(st)
    out.sort(key=lambda s: (s.lineno, s.col_offset))
    return out


def _temp_increments(ctx, fi, temps, env_general, env_zero, expect):
    """Check every `X = <temp> +/- inc` statement of fi."""
    sts = _assigns_in_order(fi.node)
    found = 0
    for scen, env in (('general', env_general), ('zero', env_zero)):
        it = PinInterp(env)
        # two passes: loop bodies re-assign the same shapes
        for _ in range(2):
            for st in sts:
                it.stmt(st)
        it2 = PinInterp(env)
        for _ in range(2):
            for st in sts:
                v = st.value
                if isinstance(st, ast.Assign) and isinstance(v, ast.BinOp) \
                        and isinstance(v.op, (ast.Add, ast.Sub)) and \
                        src(v.left) in temps:
                    inc = it2.ev(v.right)
                    if isinstance(v.op, ast.Sub):
                        inc = -inc
                    if _ == 1:
                        if scen == 'general':
                            found += 1
                            ctx.require(
                                inc.nonneg(), 'C13.R1', fi, st,
                                'temperature %s is derived from %s with an '
                                'increment that is not provably >= 0 (%r): '
                                'the radial ordering coolant <= clad <= fuel '
                                'is broken' % (src(st.targets[0]),
                                               src(v.left), inc),
                                key='%s | %s from %s' % (
                                    fi.full, src(st.targets[0]), src(v.left)))
                        else:
                            ctx.require(
                                inc.is_zero(), 'C13.R1', fi, st,
                                'with zero power the increment of %s must be '
                                'exactly 0 (%r)' % (src(st.targets[0]), inc),
                                key='%s | zero power %s' % (
                                    fi.full, src(st.targets[0])))
                it2.stmt(st)
    if found < expect:
        raise AnalysisError('%s: expected >= %d temperature-advance '
                            'statements, found %d' % (fi.qual, expect, found))


def r1(ctx):
    repo = ctx.repo
    facts = _geom_facts(ctx)
    # ---- clad
    fi = repo.func('pin_model', 'PinModel.calc_clad_temps')
    q, dz, Tc, htc = fi.params[1:5]
    base = dict(facts)
    base.update({dz: Iv.gt(0.0), Tc: Iv.gt(0.0), htc: Iv.gt(0.0)})
    gen = dict(base)
    gen[q] = Iv.ge(0.0)
    zero = dict(base)
    zero[q] = Iv.point(0.0)
    temps = {Tc, 'T[:, 2]', 'T[:, 1]', 'T[:, 0]', 'T_in1', 'T_in2'}
    _temp_increments(ctx, fi, temps, gen, zero, 4)
    # structure: OD from coolant, ID and MW from OD; flipped on return
    h_od = find_all('T[:, 2] = %s + C / %s / self.clad[\'r\'][2]' % (Tc, htc),
                    fi.node, 'stmt')
    h_mw = find_all("T[:, 1] = T[:, 2] + C * self.clad['ln_r2r_2node'][1] / k",
                    fi.node, 'stmt')
    h_id = find_all('T[:, 0] = T_in1', fi.node, 'stmt')
    rets = [n for n in walk_no_nested(fi.node) if isinstance(n, ast.Return)]
    ok = bool(h_od and h_mw and h_id) and len(rets) == 1 and \
        src(rets[0].value) == 'np.fliplr(T)'
    ctx.require(ok, 'C13.R1', fi, rets[0] if rets else fi.node,
                'columns: [ID, MW, OD] flipped to [OD, MW, ID] on return',
                key=fi.full + ' | column order')
    c = U.single_def(fi.node, 'C')
    ctx.require(c is not None and src(c) == '%s / 2 / np.pi / %s' % (q, dz),
                'C13.R1', fi, c if c is not None else fi.node,
                'C = q / (2 pi dz)', key=fi.full + ' | C')
    # ID iterate: T_in1 = OD + dT / k with dT = C * ln(r2/r0)
    d = U.single_def(fi.node, 'dT')
    ctx.require(d is not None and src(d) == "C * self.clad['ln_r2r']",
                'C13.R1', fi, d if d is not None else fi.node,
                'clad drop uses ln(r_out / r_in)', key=fi.full + ' | dT')
    # use in calculate_temperatures
    ct = repo.func('pin_model', 'PinModel.calculate_temperatures')
    h = find_all('t[:, 4] = self.calc_fuel_surf_temp(q_tot, dz, t[:, 3], atol)',
                 ct.node, 'stmt')
    h2 = find_all('t[:, 5] = self.calc_fuel_temps(q_dens, t[:, 4], atol)',
                  ct.node, 'stmt')
    h3 = find_all('t[:, 1:4] = self.calc_clad_temps(q_tot, dz, T_cool, htc, '
                  'atol)', ct.node, 'stmt')
    ctx.require(bool(h and h2 and h3), 'C13.R1', ct,
                h[0][0] if h else ct.node,
                'fuel surface starts from clad ID (column 3), fuel centre '
                'from fuel surface (column 4)', key=ct.full + ' | chaining')
    qt = U.single_def(ct.node, 'q_tot')
    qd = U.single_def(ct.node, 'q_dens')
    # the product is matched modulo commutativity (dz * q_lin is the same
    # elementwise product); the quotient is matched literally
    ctx.require(qt is not None and match('q_lin * dz', qt) is not None
                and qd is not None
                and match("q_lin / self.fuel['area']", qd) is not None,
                'C13.R1', ct,
                qt if qt is not None else ct.node,
                'heat per step = q_lin * dz; power density = q_lin / area',
                key=ct.full + ' | power split')
    # ---- fuel
    ff = repo.func('pin_model', 'PinModel.calc_fuel_temps')
    qd_, To = ff.params[1:3]
    base = dict(facts)
    base.update({To: Iv.gt(0.0)})
    gen = dict(base)
    gen[qd_] = Iv.ge(0.0)
    zero = dict(base)
    zero[qd_] = Iv.point(0.0)
    _temp_increments(ctx, ff, {To, 'T_in1', 'T_in2'}, gen, zero, 2)
    lp = [n for n in walk_no_nested(ff.node) if isinstance(n, ast.For)]
    ok = len(lp) == 1 and src(lp[0].iter) == \
        "reversed(range(self.fuel['drsq_over_4'].shape[0]))"
    h = find_all('%s = T_in1' % To, ff.node, 'stmt')
    ok = ok and len(h) == 1 and any(h[0][0] is s for s in lp[0].body)
    rets = [n for n in walk_no_nested(ff.node) if isinstance(n, ast.Return)]
    ok = ok and len(rets) == 1 and src(rets[0].value) == 'T_in1'
    ctx.require(ok, 'C13.R1', ff, lp[0] if lp else ff.node,
                'shells are traversed from the surface inwards, each starting '
                'from the previous shell\'s inner temperature; the innermost '
                'is returned', key=ff.full + ' | shell chaining')
    # ---- gap: zero gap returns clad temperature
    fs = repo.func('pin_model', 'PinModel.calc_fuel_surf_temp')
    Tcl = fs.params[3]
    rets = [n for n in walk_no_nested(fs.node) if isinstance(n, ast.Return)]
    zr = [r for r in rets if src(r.value) == Tcl]
    ok = len(zr) == 1 and [(src(t), p) for t, p in U.guards(zr[0])] == \
        [("self.gap['dr'] == 0.0", True)]
    ctx.require(ok, 'C13.R1', fs, zr[0] if zr else fs.node,
                'zero gap: fuel surface = clad inner temperature',
                key=fs.full + ' | zero gap')


_REDUCE = ('np.max', 'np.amax', 'max', 'np.nanmax', 'np.any', 'any')
_ABS = ('np.abs', 'abs', 'np.absolute', 'np.fabs')


def _norm_test(test):
    """None if the loop test compares a norm of a difference with the
    tolerance (reduction outside, absolute value inside); else the reason."""
    t = test
    if isinstance(t, ast.BoolOp):
        parts = [x for x in t.values if any(
            isinstance(c, ast.Call) and (call_name(c) in _REDUCE + _ABS)
            for c in ast.walk(x))]
        if len(parts) != 1:
            return 'test shape'
        t = parts[0]
    if not (isinstance(t, ast.Compare) and len(t.ops) == 1):
        return 'not a comparison with the tolerance'
    lhs = t.left
    # np.any(np.abs(d) > tol) form
    if isinstance(lhs, ast.Call) and call_name(lhs) in ('np.any', 'any'):
        inner = lhs.args[0] if lhs.args else None
        if isinstance(inner, ast.Compare):
            lhs = inner.left
            red = True
        else:
            return 'any() of a non-comparison'
    elif isinstance(lhs, ast.Call) and (
            call_name(lhs) in _REDUCE or (isinstance(lhs.func, ast.Attribute)
                                          and lhs.func.attr == 'max')):
        red = True
        lhs = lhs.args[0] if lhs.args else lhs.func.value
    elif isinstance(lhs, ast.Call) and call_name(lhs) in (
            'np.linalg.norm',):
        return None
    else:
        if isinstance(lhs, ast.Call) and call_name(lhs) in _ABS and any(
                isinstance(c, ast.Call) and call_name(c) in _REDUCE
                for c in ast.walk(lhs)):
            return 'the absolute value is taken after the reduction: ' \
                   '|max(d)| ignores pins whose change is negative'
        return 'no reduction over the pins'
    if not (isinstance(lhs, ast.Call) and call_name(lhs) in _ABS):
        return 'the reduction is applied to a signed difference'
    d = lhs.args[0] if lhs.args else None
    if not (isinstance(d, ast.BinOp) and isinstance(d.op, ast.Sub)):
        return 'not a difference of two iterates'
    return None


def r2(ctx):
    repo = ctx.repo
    n = 0
    for q in ('PinModel.calc_clad_temps', 'PinModel.calc_fuel_surf_temp',
              'PinModel.calc_fuel_temps'):
        fi = repo.func('pin_model', q)
        g = cfg_of(fi)
        for w in [x for x in walk_no_nested(fi.node)
                  if isinstance(x, ast.While)]:
            ok, why = U.bounded_loop(fi, w, g)
            n += 1
            why_norm = _norm_test(w.test)
            ctx.require(why_norm is None, 'C13.R2', fi, w.test,
                        'the conductivity iteration must run until the '
                        'change of *every* pin is within tolerance: the '
                        'convergence measure has to be a norm, max(|T_new - '
                        'T_old|) > tol (%s)' % why_norm,
                        key='%s | convergence norm line-independent %d'
                        % (fi.full, n))
            ctx.require(ok, 'C13.R2', fi, w.test,
                        'conductivity iteration is not provably bounded: '
                        + why, note=why, key='%s | bounded loop' % fi.full)
    if n < 3:
        raise AnalysisError('pin_model: expected 3 iteration loops')


def r4(ctx):
    fi = ctx.repo.func('region_rodded',
                       'RoddedRegion.calculate_pin_temperatures')
    call = find_all('self.pin_model.calculate_temperatures(Q_p, Q_t, Q_h, '
                    'Q_z)', fi.node)
    ok = len(call) == 1
    val = None
    if ok:
        val = ' '.join(src(U.value_at(fi.node, call[0][1]['Q_t'],
                                      call[0][0].lineno)).split())
        ok = val == ("np.sum(np.ma.masked_array((self.temp['coolant_int'] * "
                     "self._q_p2sc)[self.subchannel.pin_adj], "
                     "self.subchannel.pin_adj < 0), axis=1)")
    ctx.require(ok, 'C13.R4', fi, call[0][0] if call else fi.node,
                'pin coolant temperature = sum over adjacent subchannels of '
                'T * (pin fraction of that subchannel type), missing '
                'neighbours masked (value handed to the pin model: %s)' % val,
                key=fi.full + ' | pin-adjacent average')
    ctx.require(bool(call) and src(call[0][1]['Q_p']) == 'pin_powers' and
                src(call[0][1]['Q_z']) == 'dz', 'C13.R4', fi,
                call[0][0] if call else fi.node,
                'the averaged coolant temperature is what the pin model gets',
                key=fi.full + ' | handed to pin model')
    # weights: _q_p2sc is q_p2sc indexed by subchannel type (C01.R1 checks
    # the incidence identities of the literal table)
    rr = ctx.repo.cls('region_rodded', 'RoddedRegion')
    defs = []
    for m in rr.methods.values():
        for t, st in U.stores(m.node):
            if src(t) == 'self._q_p2sc':
                defs.append((m, st))
    ok = len(defs) == 1 and 'q_p2sc[' in src(defs[0][1].value) and \
        'self.subchannel.type' in src(defs[0][1].value)
    ctx.require(ok, 'C13.R4', defs[0][0] if defs else fi,
                defs[0][1] if defs else None,
                'per-subchannel weights are the pin fractions by type',
                key='dassh.region_rodded:RoddedRegion | _q_p2sc definition')


# ---------------------------------------------------------------------------
# R5: shell march

def _loads(node):
    return [n for n in ast.walk(node) if isinstance(n, ast.Name)
            and isinstance(n.ctx, ast.Load)]


def _exposed(body, defined):
    """Names read before any definite definition in a statement list
    (definitions inside while/for/if bodies do not count afterwards, except
    those made on both branches of an if)."""
    out = []
    defined = set(defined)
    for st in body:
        if isinstance(st, (ast.While, ast.For)):
            for n in _loads(st.test if isinstance(st, ast.While)
                            else st.iter):
                if n.id not in defined:
                    out.append(n)
            inner = set(defined)
            if isinstance(st, ast.For):
                inner |= {x.id for x in ast.walk(st.target)
                          if isinstance(x, ast.Name)}
            # names assigned anywhere in the loop are loop-carried inside it:
            # only report reads of names never defined before the loop *and*
            # not defined earlier in the loop body itself
            out += _exposed(st.body, inner)
            continue
        if isinstance(st, ast.If):
            for n in _loads(st.test):
                if n.id not in defined:
                    out.append(n)
            out += _exposed(st.body, defined)
            out += _exposed(st.orelse, defined)
            both = _defined_by(st.body) & _defined_by(st.orelse)
            defined |= both
            continue
        val = st.value if isinstance(st, (ast.Assign, ast.AugAssign,
                                          ast.Expr, ast.Return)) else st
        if val is not None:
            for n in _loads(val):
                if n.id not in defined:
                    out.append(n)
        if isinstance(st, ast.AugAssign) and isinstance(st.target, ast.Name) \
                and st.target.id not in defined:
            out.append(st.target)
        if isinstance(st, ast.Assign):
            for t in st.targets:
                for x in ast.walk(t):
                    if isinstance(x, ast.Name) and isinstance(x.ctx,
                                                              ast.Store):
                        defined.add(x.id)
                    elif isinstance(x, ast.Name) and x.id not in defined:
                        out.append(x)
    return out


def _defined_by(body):
    """Names definitely bound by a statement list that completes normally:
    plain assignments of the list itself and, for a nested `if` with an
    `else`, the names bound by both of its branches (recursively)."""
    d = set()
    for st in body:
        if isinstance(st, ast.Assign):
            for t in st.targets:
                d |= {x.id for x in ast.walk(t) if isinstance(x, ast.Name)
                      and isinstance(x.ctx, ast.Store)}
        elif isinstance(st, ast.If) and st.orelse:
            d |= _defined_by(st.body) & _defined_by(st.orelse)
    return d


def r5(ctx):
    fi = ctx.repo.func('pin_model', 'PinModel.calc_fuel_temps')
    loops = [n for n in fi.node.body if isinstance(n, ast.For)]
    if len(loops) != 1 or not isinstance(loops[0].target, ast.Name):
        raise AnalysisError('calc_fuel_temps: shell loop')
    lp = loops[0]
    iv = lp.target.id
    ctx.require(call_name(lp.iter) == 'reversed', 'C13.R5', fi, lp,
                'the shell march must run from the outermost shell (known '
                'surface temperature) inwards: reversed(range(n))',
                key=fi.full + ' | march direction')
    calls = [c for c in ast.walk(lp) if isinstance(c, ast.Call)
             and call_name(c) == 'self._fuel_cond']
    bad = [c for c in calls if not (c.args and src(c.args[0]) == iv)]
    ctx.require(calls and not bad, 'C13.R5', fi, bad[0] if bad else lp,
                'every conductivity inside shell %s must be evaluated with '
                'that shell\'s own material: _fuel_cond(%s, T)' % (iv, iv),
                note='%d evaluations' % len(calls),
                key=fi.full + ' | own material')
    outside = [c for c in ast.walk(fi.node) if isinstance(c, ast.Call)
               and call_name(c) == 'self._fuel_cond' and c not in calls]
    allowed = set(fi.params) | {iv, 'self', 'np', '_ERROR_MSG'}
    exp = [n for n in _exposed(lp.body, allowed)]
    names = sorted({n.id for n in exp})
    ctx.require(not names and not outside, 'C13.R5', fi,
                exp[0] if exp else (outside[0] if outside else lp),
                'only the temperature is carried from one shell to the next; '
                '%s reach(es) a shell from the previous one / from before '
                'the march (a conductivity found for another shell\'s '
                'material would be used)' % (names or 'a conductivity '
                                             'evaluated outside the loop'),
                key=fi.full + ' | loop-carried state')


# ---------------------------------------------------------------------------
# R6: fuel cross-section consistent with the shell radii

def r6(ctx):
    from ..poly import Rat, from_ast, NotPolynomial
    init = ctx.repo.func('pin_model', 'PinModel.__init__')
    scale = [st for t, st in U.stores(init.node)
             if src(t) == "self.fuel['r']" and isinstance(st, ast.AugAssign)
             and isinstance(st.op, ast.Mult)]
    area = [st for t, st in U.stores(init.node)
            if src(t) == "self.fuel['area']"]
    if len(scale) != 1 or not area:
        raise AnalysisError('PinModel.__init__: fuel radii scale / area')
    S = ' '.join(src(U.expand_locals(init.node, scale[0].value,
                                     before=scale[0].lineno)).split())
    at = {'np.pi': 'pi', S: 'S', "self.fuel['r'][0, 0]": 'r0',
          "self.fuel['r'][0][0]": 'r0'}
    total = None
    ok = True
    try:
        for st in sorted(area, key=lambda x: x.lineno):
            v = from_ast(U.expand_locals(init.node, st.value,
                                         before=st.lineno), at, auto=True)
            if isinstance(st, ast.Assign):
                total = v
            elif isinstance(st.op, ast.Sub) and total is not None:
                total = total - v
            elif isinstance(st.op, ast.Add) and total is not None:
                total = total + v
            else:
                ok = False
    except NotPolynomial:
        ok = False
    pi, Ssym, r0 = Rat.sym('pi'), Rat.sym('S'), Rat.sym('r0')
    want = pi * (Ssym * Ssym - r0 * r0)
    ctx.require(ok and total is not None and total.equals(want), 'C13.R6',
                init, area[0],
                'fuel cross-section must be pi (R^2 - r_in^2) with R = %s, '
                'the radius the shell radii are scaled with (found %s)'
                % (S, None if total is None else repr(total.n)[:120]),
                key=init.full + ' | fuel area')
    ct = ctx.repo.func('pin_model', 'PinModel.calculate_temperatures')
    qd = U.single_def(ct.node, 'q_dens')
    ctx.require(qd is not None and ' '.join(src(qd).split()) ==
                "q_lin / self.fuel['area']", 'C13.R6', ct,
                qd if qd is not None else ct.node,
                'power density = linear power / fuel cross-section',
                key=ct.full + ' | power density')
