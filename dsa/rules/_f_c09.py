"""C09.R8 -- the wetted perimeter of every gap cell is its geometric one.

Clause decided (a necessary condition of "the total gap flow area depends
only on the layout and the duct and pitch dimensions, not on the meshes of
the assemblies"): for every gap cell, `Core._calculate_sc_wp` returns

    (sum over the adjacent assemblies of the cell's extent along that duct)
    + (length of the cell's open walls)

where the open wall of
  * an edge cell with one adjacent assembly is its own extent (pitch),
  * an isolated corner is its own extent + 2 d_gap / sqrt3,
  * a corner between TWO assemblies is, for each of the two, the corner
    length of that assembly's hex side that faces the EMPTY position
    (own mesh -- never the shared side, which carries the finer mesh of the
    pair),
  * a cell enclosed by assemblies is nothing.

How: finite-domain evaluation.  The function is evaluated by the checker's
own interpreter (dsa.finite.Evaluator extended below with a small exact
array model; nothing of /repo is imported or run) on MODEL cores: every
layout of one to three assemblies (quick; four in the thorough tier) on the
seven-position hexagonal grid, ids in position order (so that every
assembly -- in particular the one with id 1 -- occurs as either partner of a
two-assembly corner, at either end of the shared side, on every hex side),
with every assignment of three mesh kinds (two pin bundles of different
ring count, no pins).  All numbers are exact (Fractions, and a + b sqrt3),
so equality is decided, not approximated.  The model arrays (`asm_adj`,
`_geom_params`, `_asm_sc_adj`, `_asm_sc_xbnds`, `_sc_types`) are built from
the conventions of their producers (trusted base, see `Model`).
"""
import ast
import itertools
from fractions import Fraction

from ..core import AnalysisError, src
from .. import finite as FD
from ..finite import OPAQUE, Unsupported, Raised

PROPS = ('C09',)
RULE = 'C09.R8'


# ---------------------------------------------------------------------------
# exact numbers a + b sqrt3

class Q3:
    __slots__ = ('a', 'b')

    def __init__(self, a, b):
        self.a, self.b = Fraction(a), Fraction(b)

    @staticmethod
    def mk(a, b):
        a, b = Fraction(a), Fraction(b)
        if b == 0:
            return int(a) if a.denominator == 1 else a
        return Q3(a, b)

    @staticmethod
    def parts(x):
        if isinstance(x, Q3):
            return x.a, x.b
        if isinstance(x, bool):
            return Fraction(int(x)), Fraction(0)
        if isinstance(x, (int, Fraction)):
            return Fraction(x), Fraction(0)
        return None

    def __add__(self, o):
        p = Q3.parts(o)
        if p is None:
            return NotImplemented
        return Q3.mk(self.a + p[0], self.b + p[1])
    __radd__ = __add__

    def __neg__(self):
        return Q3.mk(-self.a, -self.b)

    def __sub__(self, o):
        p = Q3.parts(o)
        if p is None:
            return NotImplemented
        return Q3.mk(self.a - p[0], self.b - p[1])

    def __rsub__(self, o):
        p = Q3.parts(o)
        if p is None:
            return NotImplemented
        return Q3.mk(p[0] - self.a, p[1] - self.b)

    def __mul__(self, o):
        p = Q3.parts(o)
        if p is None:
            return NotImplemented
        return Q3.mk(self.a * p[0] + 3 * self.b * p[1],
                     self.a * p[1] + self.b * p[0])
    __rmul__ = __mul__

    def inv(self):
        n = self.a * self.a - 3 * self.b * self.b
        return Q3.mk(self.a / n, -self.b / n)

    def __truediv__(self, o):
        p = Q3.parts(o)
        if p is None:
            return NotImplemented
        d = Q3.mk(*p)
        if d == 0:
            raise ZeroDivisionError
        return self * (d.inv() if isinstance(d, Q3) else Fraction(1) / d)

    def __rtruediv__(self, o):
        p = Q3.parts(o)
        if p is None:
            return NotImplemented
        return Q3.mk(*p) * self.inv()

    def __pow__(self, k):
        if isinstance(k, int) and not isinstance(k, bool) and abs(k) <= 8:
            r = 1
            for _ in range(abs(k)):
                r = r * self
            return r if k >= 0 else 1 / r
        return NotImplemented

    def __eq__(self, o):
        p = Q3.parts(o)
        return p is not None and (self.a, self.b) == p

    def __hash__(self):
        return hash((self.a, self.b))

    def __float__(self):
        return float(self.a) + float(self.b) * 3 ** 0.5

    def __lt__(self, o):
        return float(self) < float(o)

    def __le__(self, o):
        return self == o or float(self) < float(o)

    def __gt__(self, o):
        return float(self) > float(o)

    def __ge__(self, o):
        return self == o or float(self) > float(o)

    def __bool__(self):
        return True

    def __repr__(self):
        return '(%s + %s r3)' % (self.a, self.b)


SQRT3 = Q3(0, 1)
NUM = (int, Fraction, Q3)


def _num(v):
    if isinstance(v, float):
        return Fraction(str(v))
    return v


def _sqrt(x):
    if x is OPAQUE:
        return OPAQUE
    if isinstance(x, Arr):
        return x.map(_sqrt)
    x = _num(x)
    if isinstance(x, bool) or not isinstance(x, (int, Fraction)) or x < 0:
        return OPAQUE

    def root(f):
        rn = int(round(f.numerator ** 0.5))
        rd = int(round(f.denominator ** 0.5))
        if rn * rn == f.numerator and rd * rd == f.denominator:
            return Fraction(rn, rd)
        return None
    f = Fraction(x)
    r = root(f)
    if r is not None:
        return Q3.mk(r, 0)
    r = root(f / 3)
    if r is not None:
        return Q3.mk(0, r)
    return OPAQUE


def _arith(op, a, b, node=None):
    if a is OPAQUE or b is OPAQUE:
        return OPAQUE
    a, b = _num(a), _num(b)
    if isinstance(a, bool):
        a = int(a)
    if isinstance(b, bool):
        b = int(b)
    if not (isinstance(a, NUM) and isinstance(b, NUM)):
        raise Unsupported('arithmetic on %r and %r' % (a, b))
    try:
        if isinstance(op, ast.Add):
            return a + b
        if isinstance(op, ast.Sub):
            return a - b
        if isinstance(op, ast.Mult):
            return a * b
        if isinstance(op, ast.Div):
            if isinstance(a, int) and isinstance(b, int):
                return Q3.mk(Fraction(a, b), 0)
            r = a / b
            return Q3.mk(r, 0) if isinstance(r, Fraction) else r
        if isinstance(op, ast.FloorDiv) and not isinstance(
                a, Q3) and not isinstance(b, Q3):
            return a // b
        if isinstance(op, ast.Mod) and not isinstance(
                a, Q3) and not isinstance(b, Q3):
            return a % b
        if isinstance(op, ast.Pow):
            if isinstance(b, int):
                r = a ** b
                return Q3.mk(r, 0) if isinstance(r, Fraction) else r
            if b == Fraction(1, 2):
                return _sqrt(a)
    except ZeroDivisionError:
        raise Raised(node)
    raise Unsupported('arithmetic operator %s on %r, %r'
                      % (type(op).__name__, a, b))


# ---------------------------------------------------------------------------
# a small exact model of numpy arrays: nested python lists; a row taken by
# an integer index shares its list with the parent (a view, as in numpy)

# A basic slice of a vector is a VIEW in numpy: a store through it reaches the
# parent and the other way round.  The model keeps, for every list made by
# slicing a list of scalars, the parent and the positions it was cut from;
# every scalar store goes through `_put`, which follows these links in both
# directions.  (Index arrays and masks give copies, as in numpy.)  The
# registries hold the lists themselves, so an id is never reused while it is
# registered; `reset_views` drops them between two evaluations.
_VIEW_OF = {}     # id(view list) -> (view list, parent list, positions)
_VIEWS_ON = {}    # id(parent list) -> [(view list, positions)]


def reset_views():
    _VIEW_OF.clear()
    _VIEWS_ON.clear()


def _link(view, parent, positions):
    _VIEW_OF[id(view)] = (view, parent, positions)
    _VIEWS_ON.setdefault(id(parent), []).append((view, positions, parent))


def _put(x, i, v, source=None):
    """x[i] = v, carried on to the lists x is a view of / that view x"""
    x[i] = v
    if not _VIEW_OF and not _VIEWS_ON:
        return
    i = i % len(x)
    up = _VIEW_OF.get(id(x))
    if up is not None and up[1] is not source:
        _put(up[1], up[2][i], v, x)
    for view, positions, _ in _VIEWS_ON.get(id(x), ()):
        if view is not source and i in positions:
            _put(view, positions.index(i), v, x)


class Arr:
    def __init__(self, d):
        self.d = d

    # -- shape --
    @property
    def shape(self):
        s, x = [], self.d
        while isinstance(x, list):
            s.append(len(x))
            x = x[0] if x else None
        return tuple(s)

    def __len__(self):
        return len(self.d)

    def flat(self):
        out = []

        def rec(x):
            if isinstance(x, list):
                for y in x:
                    rec(y)
            else:
                out.append(x)
        rec(self.d)
        return out

    def items(self):
        return [Arr(x) if isinstance(x, list) else x for x in self.d]

    def copy(self):
        def rec(x):
            return [rec(y) for y in x] if isinstance(x, list) else x
        return Arr(rec(self.d))

    def map(self, f):
        def rec(x):
            return [rec(y) for y in x] if isinstance(x, list) else f(x)
        return Arr(rec(self.d))

    def __contains__(self, v):
        if isinstance(v, Arr):
            raise Unsupported('array in array')
        return any(x is not OPAQUE and x == v for x in self.flat())

    # -- indexing --
    @staticmethod
    def _wrap(x):
        return Arr(x) if isinstance(x, list) else x

    def get(self, key, node=None):
        keys = list(key) if isinstance(key, tuple) else [key]

        def rec(x, ks):
            if not ks:
                return x
            k, rest = ks[0], ks[1:]
            if not isinstance(x, list):
                raise Raised(node)          # too many indices
            if isinstance(k, bool):
                raise Unsupported('boolean scalar index')
            if isinstance(k, int):
                try:
                    return rec(x[k], rest)
                except IndexError:
                    raise Raised(node)
            if isinstance(k, slice):
                if not rest and x and not any(isinstance(y, list)
                                              for y in x):
                    new = x[k]                  # a view of a vector
                    _link(new, x, list(range(len(x))[k]))
                    return new
                return [rec(y, rest) for y in x[k]]
            if isinstance(k, Arr):
                fl = k.d
                if any(isinstance(v, list) for v in fl):
                    # integer index array of rank > 1: the result has the
                    # shape of the index (numpy "fancy" indexing)
                    def fancy(ix):
                        if isinstance(ix, list):
                            return [fancy(i) for i in ix]
                        if isinstance(ix, bool) or not isinstance(ix, int):
                            raise Unsupported('index array of rank > 1 that '
                                              'is not made of integers')
                        try:
                            return rec(x[ix], rest)
                        except IndexError:
                            raise Raised(node)
                    return fancy(fl)
                if fl and all(isinstance(v, bool) for v in fl):
                    if len(fl) != len(x):
                        raise Raised(node)
                    return [rec(y, rest) for y, m in zip(x, fl) if m]
                if all(isinstance(v, int) and not isinstance(v, bool)
                       for v in fl):
                    try:
                        return [rec(x[i], rest) for i in fl]
                    except IndexError:
                        raise Raised(node)
                raise Unsupported('index array')
            if isinstance(k, list):
                return rec(x, [Arr(k)] + rest)
            raise Unsupported('array index %r' % (k,))
        if sum(isinstance(k, (Arr, list)) for k in keys) > 1:
            raise Unsupported('several index arrays')
        return self._wrap(rec(self.d, keys))

    def set(self, key, val, node=None):
        keys = list(key) if isinstance(key, tuple) else [key]
        if isinstance(val, (list, tuple)):
            val = Arr(list(val))

        def fill(x, v):
            """x[...] = v for a list x (broadcast a scalar, copy an array)"""
            if isinstance(v, Arr):
                if len(v.d) != len(x):
                    raise Raised(node)
                for i, y in enumerate(v.d):
                    if isinstance(x[i], list):
                        fill(x[i], Arr(y) if isinstance(y, list) else y)
                    else:
                        if isinstance(y, list):
                            raise Raised(node)
                        _put(x, i, y)
            else:
                for i in range(len(x)):
                    if isinstance(x[i], list):
                        fill(x[i], v)
                    else:
                        _put(x, i, v)

        def rec(x, ks, v):
            k, rest = ks[0], ks[1:]
            if not isinstance(x, list):
                raise Raised(node)
            if isinstance(k, int) and not isinstance(k, bool):
                try:
                    x[k]
                except IndexError:
                    raise Raised(node)
                if rest:
                    rec(x[k], rest, v)
                elif isinstance(x[k], list):
                    fill(x[k], v)
                else:
                    if isinstance(v, Arr):
                        if len(v.flat()) != 1:
                            raise Raised(node)
                        v = v.flat()[0]
                    _put(x, k, v)
                return
            if isinstance(k, slice) and not rest:
                idx = list(range(len(x)))[k]
                if isinstance(v, Arr):
                    if len(v.d) == 1 and len(idx) != 1 and not isinstance(
                            v.d[0], list):
                        v = v.d[0]              # a length-1 vector broadcasts
                if isinstance(v, Arr):
                    if len(v.d) != len(idx):
                        raise Raised(node)
                    for i, y in zip(idx, v.d):
                        if isinstance(x[i], list):
                            fill(x[i], Arr(y) if isinstance(y, list) else y)
                        else:
                            if isinstance(y, list):
                                raise Raised(node)
                            _put(x, i, y)
                else:
                    for i in idx:
                        if isinstance(x[i], list):
                            fill(x[i], v)
                        else:
                            _put(x, i, v)
                return
            if isinstance(k, slice):
                # rows k, each stored into through the remaining indices; a
                # matrix value is dealt out row by row, anything else goes
                # to every row
                idx = list(range(len(x)))[k]
                tnd = sum(isinstance(q, slice) for q in ks) + \
                    _depth(x) - len(ks)         # rank of the region stored to
                vnd = _depth(v.d) if isinstance(v, Arr) else 0
                if vnd > tnd or any(isinstance(q, (Arr, list))
                                    for q in rest):
                    raise Unsupported('store of rank %d into a region of '
                                      'rank %d' % (vnd, tnd))
                if vnd == tnd and len(v.d) != 1:
                    if len(v.d) != len(idx):
                        raise Raised(node)
                    for i, y in zip(idx, v.d):
                        rec(x[i], rest, Arr(y) if isinstance(y, list) else y)
                else:
                    if vnd == tnd:
                        v = Arr(v.d[0]) if isinstance(v.d[0], list) \
                            else v.d[0]
                    for i in idx:
                        rec(x[i], rest, v)
                return
            if isinstance(k, Arr) and not rest:
                fl = k.d
                if any(isinstance(m, list) for m in fl):
                    raise Unsupported('store through an index array of '
                                      'rank > 1')
                if fl and all(isinstance(m, bool) for m in fl):
                    if len(fl) != len(x):
                        raise Raised(node)
                    idx = [i for i, m in enumerate(fl) if m]
                else:
                    idx = list(fl)
                if isinstance(v, Arr) and len(v.d) != len(idx):
                    raise Raised(node)
                for j, i in enumerate(idx):
                    try:
                        x[i]
                    except (IndexError, TypeError):
                        raise Raised(node)
                    if isinstance(x[i], list):
                        fill(x[i], Arr(v.d[j]) if isinstance(v, Arr) and
                             isinstance(v.d[j], list) else
                             (v.d[j] if isinstance(v, Arr) else v))
                    else:
                        _put(x, i, v.d[j] if isinstance(v, Arr) else v)
                return
            raise Unsupported('array store index %r' % (k,))
        rec(self.d, keys, val)

    def assign(self, other):
        """in-place replacement of the contents (augmented assignment)"""
        if not isinstance(other, Arr) or other.shape != self.shape:
            raise Unsupported('in-place update changes the shape')
        def rec(x, y):
            for i in range(len(x)):
                if isinstance(x[i], list):
                    rec(x[i], y[i])
                else:
                    _put(x, i, y[i])
        rec(self.d, other.copy().d)

    def __repr__(self):
        return 'Arr(%r)' % (self.d,)


def _zip_map(f, a, b, node=None):
    """elementwise with scalar broadcast (and a row against a matrix)"""
    if isinstance(a, Arr) and isinstance(b, Arr):
        def rec(x, y):
            xl, yl = isinstance(x, list), isinstance(y, list)
            if xl and yl:
                if len(x) == len(y) and _depth(x) == _depth(y):
                    return [rec(p, q) for p, q in zip(x, y)]
                if _depth(x) > _depth(y):
                    return [rec(p, y) for p in x]
                if _depth(y) > _depth(x):
                    return [rec(x, q) for q in y]
                if len(x) == 1:
                    return [rec(x[0], q) for q in y]
                if len(y) == 1:
                    return [rec(p, y[0]) for p in x]
                raise Raised(node)          # shapes do not broadcast
            if xl:
                return [rec(p, y) for p in x]
            if yl:
                return [rec(x, q) for q in y]
            return f(x, y)
        return Arr(rec(a.d, b.d))
    if isinstance(a, Arr):
        return a.map(lambda x: f(x, b))
    return b.map(lambda y: f(a, y))


def _depth(x):
    d = 0
    while isinstance(x, list):
        d += 1
        x = x[0] if x else None
    return d


def _as_list(v):
    if isinstance(v, Arr):
        return v.items()
    if isinstance(v, (list, tuple)):
        return list(v)
    if isinstance(v, dict):
        return list(v)
    if isinstance(v, (set, frozenset)):
        return sorted(v)
    raise Unsupported('iteration over %r' % (v,))


def _to_arr(x):
    if isinstance(x, Arr):
        return x.copy()

    def rec(y):
        if isinstance(y, Arr):
            return rec(y.d)
        if isinstance(y, (list, tuple)):
            return [rec(z) for z in y]
        return _num(y)
    if isinstance(x, (list, tuple)):
        return Arr(rec(x))
    return x


def _zeros(shape, fill=0):
    if isinstance(shape, Arr):
        shape = shape.flat()
    if isinstance(shape, int):
        shape = (shape,)
    shape = tuple(shape)
    if not all(isinstance(s, int) and not isinstance(s, bool) and s >= 0
               for s in shape):
        raise Unsupported('array shape %r' % (shape,))

    def rec(k):
        if k == len(shape) - 1:
            return [fill] * shape[k]
        return [rec(k + 1) for _ in range(shape[k])]
    return Arr(rec(0)) if shape else fill


def _where(c, *ab):
    if ab:
        if len(ab) != 2:
            raise Unsupported('np.where arity')
        if not isinstance(c, Arr):
            return ab[0] if c else ab[1]
        a, b = ab
        pick = _zip_map(lambda m, x: (m, x), c, a) if isinstance(a, Arr) \
            else c.map(lambda m: (m, a))
        return _zip_map(lambda mx, y: mx[1] if mx[0] else y, pick, b) \
            if isinstance(b, Arr) else pick.map(
                lambda mx: mx[1] if mx[0] else b)
    if not isinstance(c, Arr):
        raise Unsupported('np.where of a scalar')
    nd = _depth(c.d)
    idx = [[] for _ in range(nd)]

    def rec(x, pre):
        if isinstance(x, list):
            for i, y in enumerate(x):
                rec(y, pre + [i])
        else:
            if x is OPAQUE:
                raise Unsupported('np.where of an undetermined value')
            if x:
                for k, i in enumerate(pre):
                    idx[k].append(i)
    rec(c.d, [])
    return tuple(Arr(i) for i in idx)


def _sum(x, axis=None):
    if not isinstance(x, Arr):
        x = _to_arr(x)
    if not isinstance(x, Arr):
        return x
    if axis is None:
        t = 0
        for v in x.flat():
            t = _arith(ast.Add(), t, v)
        return t
    if _depth(x.d) == 1 and axis in (0, -1):
        return _sum(x)
    if _depth(x.d) == 2:
        rows = x.d if axis in (1, -1) else [list(c) for c in zip(*x.d)]
        return Arr([_sum(Arr(r)) for r in rows])
    raise Unsupported('sum axis')


def _cumsum(x):
    x = _to_arr(x)
    if _depth(x.d) != 1:
        raise Unsupported('cumsum rank')
    out, t = [], 0
    for v in x.d:
        t = _arith(ast.Add(), t, v)
        out.append(t)
    return Arr(out)


def _diff(x, n=1, axis=-1, prepend=None, append=None):
    x = _to_arr(x)
    if not isinstance(x, Arr) or _depth(x.d) != 1 or n != 1 or \
            axis not in (-1, 0):
        raise Unsupported('diff of something else than a vector')
    v = list(x.d)
    for extra, front in ((prepend, True), (append, False)):
        if extra is None:
            continue
        e = _to_arr(extra)
        e = e.flat() if isinstance(e, Arr) else [e]
        v = e + v if front else v + e
    return Arr([_arith(ast.Sub(), q, p) for p, q in zip(v, v[1:])])


def _arange(*a):
    if not all(isinstance(v, int) and not isinstance(v, bool) for v in a):
        raise Unsupported('arange of non-integers')
    return Arr(list(range(*a)))


def _count_nonzero(x, axis=None):
    x = _to_arr(x)
    if axis is None:
        return sum(1 for v in x.flat() if v)
    if _depth(x.d) == 2 and axis in (1, -1):
        return Arr([sum(1 for v in r if v) for r in x.d])
    raise Unsupported('count_nonzero axis')


def _truthy_any(x):
    return any(bool(v) for v in (_to_arr(x).flat()
                                 if isinstance(x, (Arr, list, tuple))
                                 else [x]))


def _truthy_all(x):
    return all(bool(v) for v in (_to_arr(x).flat()
                                 if isinstance(x, (Arr, list, tuple))
                                 else [x]))


def _minmax(f):
    def g(*a):
        if len(a) == 1:
            v = a[0]
            return f(_to_arr(v).flat() if isinstance(v, (Arr, list, tuple))
                     else [v])
        return f(a)
    return g


def _isclose(a, b, **k):
    eq = lambda x, y: x == y      # the model is exact
    if isinstance(a, Arr) or isinstance(b, Arr):
        return _zip_map(eq, a, b)
    return a == b


def _append(a, b, axis=None):
    a = _to_arr(a)
    la = a.flat() if isinstance(a, Arr) else [a]
    b = _to_arr(b)
    lb = b.flat() if isinstance(b, Arr) else [b]
    return Arr(la + lb)


def _roll(a, k):
    a = _to_arr(a)
    if _depth(a.d) != 1 or not isinstance(k, int):
        raise Unsupported('roll')
    n = len(a.d)
    return Arr([a.d[(i - k) % n] for i in range(n)]) if n else a


def _abs(x):
    if isinstance(x, Arr):
        return x.map(_abs)
    if isinstance(x, Q3):
        return x if float(x) >= 0 else -x
    return abs(x)


def _int(x):
    if isinstance(x, Q3):
        return int(float(x))
    return int(x)


MODELS = {
    'zeros': lambda s, **k: _zeros(s, 0),
    'ones': lambda s, **k: _zeros(s, 1),
    'empty': lambda s, **k: _zeros(s, 0),
    'zeros_like': lambda a, **k: _to_arr(a).map(lambda v: 0),
    'ones_like': lambda a, **k: _to_arr(a).map(lambda v: 1),
    'array': lambda x, **k: _to_arr(x),
    'asarray': lambda x, **k: x if isinstance(x, Arr) else _to_arr(x),
    'copy': lambda x: _to_arr(x),
    'cumsum': _cumsum, 'arange': _arange, 'where': _where, 'diff': _diff,
    'nonzero': lambda c: _where(c),
    'flatnonzero': lambda c: _where(Arr(_to_arr(c).flat()))[0],
    'count_nonzero': _count_nonzero, 'sum': _sum,
    'any': _truthy_any, 'all': _truthy_all,
    'sqrt': _sqrt, 'abs': _abs, 'absolute': _abs,
    'isclose': _isclose, 'equal': lambda a, b: _isclose(a, b),
    'isin': lambda a, b: (a.map(lambda v: v in _to_arr(b))
                          if isinstance(a, Arr) else a in _to_arr(b)),
    'append': _append, 'roll': _roll,
    'min': _minmax(min), 'max': _minmax(max),
    'amin': _minmax(min), 'amax': _minmax(max),
    'flip': lambda x: Arr(list(reversed(_to_arr(x).d))),
    'mod': lambda a, b: _arith(ast.Mod(), a, b),
    'concatenate': lambda xs, **k: Arr([v for x in _as_list(xs)
                                        for v in _to_arr(x).d]),
}
BUILTINS = {
    'len': lambda x: len(x.d) if isinstance(x, Arr) else len(x),
    'range': lambda *a: list(range(*a)),
    'enumerate': lambda x, start=0: [(i, v) for i, v in enumerate(
        _as_list(x), start)],
    'zip': lambda *a: [tuple(t) for t in zip(*[_as_list(x) for x in a])],
    'list': lambda x=(): _as_list(x),
    'tuple': lambda x=(): tuple(_as_list(x)),
    'reversed': lambda x: list(reversed(_as_list(x))),
    'sorted': lambda x, reverse=False: sorted(_as_list(x), reverse=reverse),
    'int': _int, 'float': lambda x: _num(x), 'bool': lambda x: bool(x),
    'abs': _abs, 'min': _minmax(min), 'max': _minmax(max),
    'sum': lambda x, start=0: _arith(ast.Add(), start, _sum(Arr(
        _as_list(x)))) if _as_list(x) else start,
    'any': _truthy_any, 'all': _truthy_all,
    'divmod': lambda a, b: (a // b, a % b),
    'set': lambda x=(): set(_as_list(x)),
}
ARR_METHODS = {
    'sum': _sum, 'flatten': lambda a: Arr(a.flat()),
    'ravel': lambda a: Arr(a.flat()), 'copy': lambda a: a.copy(),
    'astype': lambda a, *t, **k: a.copy(), 'tolist': lambda a: a.copy().d,
    'any': _truthy_any, 'all': _truthy_all, 'cumsum': _cumsum,
    'nonzero': lambda a: _where(a), 'max': _minmax(max), 'min': _minmax(min),
    'item': lambda a: a.flat()[0],
}


_FAST = {ast.Eq: lambda x, y: x == y, ast.NotEq: lambda x, y: x != y,
         ast.Gt: lambda x, y: x > y, ast.GtE: lambda x, y: x >= y,
         ast.Lt: lambda x, y: x < y, ast.LtE: lambda x, y: x <= y}


class _Self:
    def __repr__(self):
        return '<model core>'


_NAMES = {}      # id(node) -> source text of callee expressions


class NEval(FD.Evaluator):
    """dsa.finite.Evaluator + exact numbers + the array model above +
    calls of sibling methods / module functions (evaluated, never run)."""

    def __init__(self, attrs, selfname, mod, cls, fuel):
        FD.Evaluator.__init__(self, {}, set(), fuel=fuel, attr_env=None)
        self.attrs = attrs
        self.selfname = selfname
        self.mod, self.cls = mod, cls
        self.cur = None
        self.stores = {}          # (id of list, index) -> statement
        self._names = _NAMES
        self.trail = []           # the last decisions taken (test, outcome)
        self.depth = 0

    # -- expressions --
    def ev(self, n, env):
        self.fuel -= 1
        if self.fuel < 0:
            raise Unsupported('evaluation budget exhausted')
        if isinstance(n, ast.Constant):
            return _num(n.value)
        if isinstance(n, ast.Name):
            if n.id in env:
                return env[n.id]
            if n.id in self.mod.globals:
                v = self.ev(self.mod.globals[n.id], {})
                return v
            return OPAQUE
        if isinstance(n, ast.Attribute):
            base = self.ev(n.value, env)
            if isinstance(base, _Self):
                if n.attr in self.attrs:
                    return self.attrs[n.attr]
                raise Unsupported('the model core has no attribute `%s`'
                                  % n.attr)
            if isinstance(base, Arr):
                if n.attr == 'shape':
                    return base.shape
                if n.attr == 'size':
                    return len(base.flat())
                if n.attr == 'ndim':
                    return len(base.shape)
                if n.attr == 'T' and _depth(base.d) == 2:
                    return Arr([list(c) for c in zip(*base.d)])
                if n.attr == 'T' and _depth(base.d) == 1:
                    return base
            if n.attr == 'pi' and src(n.value) in ('np', 'numpy', 'math'):
                return OPAQUE
            return OPAQUE
        if isinstance(n, ast.BinOp):
            return self._binop(n.op, self.ev(n.left, env),
                               self.ev(n.right, env), n)
        if isinstance(n, ast.UnaryOp):
            v = self.ev(n.operand, env)
            if isinstance(n.op, ast.Not):
                return not self.truth(v)
            if v is OPAQUE:
                return OPAQUE
            if isinstance(n.op, ast.USub):
                return v.map(lambda x: -x) if isinstance(v, Arr) else -v
            if isinstance(n.op, ast.UAdd):
                return v
            if isinstance(n.op, ast.Invert):
                if isinstance(v, Arr):
                    return v.map(lambda x: (not x) if isinstance(x, bool)
                                 else ~x)
                return (not v) if isinstance(v, bool) else ~v
        if isinstance(n, ast.Compare):
            left = self.ev(n.left, env)
            res = True
            for op, c in zip(n.ops, n.comparators):
                right = self.ev(c, env)
                r = self._cmp(op, left, right)
                if isinstance(r, Arr):
                    if len(n.ops) != 1:
                        raise Unsupported('chained comparison of arrays')
                    return r
                if not r:
                    return False
                left = right
            return res
        if isinstance(n, ast.IfExp):
            t = self.truth(self.ev(n.test, env))
            self.trail.append((n.test, t))
            del self.trail[:-6]
            return self.ev(n.body if t else n.orelse, env)
        if isinstance(n, ast.Subscript):
            base, key = self.ev(n.value, env), self.ev(n.slice, env)
            if base is OPAQUE or key is OPAQUE:
                raise Unsupported('subscript of an undetermined value: %s'
                                  % src(n))
            if isinstance(base, Arr):
                return base.get(key, n)
            if isinstance(base, dict):
                try:
                    return base[self._hashable(key)]
                except (KeyError, TypeError):
                    raise Raised(n)
            if isinstance(base, (list, tuple, str)):
                if isinstance(key, Arr) or isinstance(key, tuple):
                    raise Raised(n)
                try:
                    return base[key]
                except (IndexError, TypeError):
                    raise Raised(n)
            raise Raised(n)
        if isinstance(n, ast.Slice):
            parts = [None if x is None else self.ev(x, env)
                     for x in (n.lower, n.upper, n.step)]
            if any(p is OPAQUE for p in parts):
                raise Unsupported('slice with an undetermined bound')
            return slice(*parts)
        if isinstance(n, (ast.GeneratorExp, ast.ListComp, ast.SetComp)):
            return self._comp(n, env)
        if isinstance(n, ast.DictComp):
            raise Unsupported('dict comprehension')
        return FD.Evaluator.ev(self, n, env)

    def _binop(self, op, a, b, n):
        if isinstance(a, Arr) or isinstance(b, Arr):
            if isinstance(a, (list, tuple)) or isinstance(b, (list, tuple)):
                a, b = _to_arr(a), _to_arr(b)
            return _zip_map(lambda x, y: _arith(op, x, y, n), a, b, n)
        if isinstance(op, ast.Add) and type(a) is type(b) and \
                isinstance(a, (list, tuple, str)):
            return a + b
        if isinstance(op, ast.Mult) and isinstance(a, (list, tuple)) \
                and isinstance(b, int):
            return a * b
        if isinstance(a, str) or isinstance(b, str):
            return OPAQUE
        return _arith(op, a, b, n)

    def _comp(self, n, env):
        out = []

        def rec(k, e):
            if k == len(n.generators):
                out.append(self.ev(n.elt, e))
                return
            gen = n.generators[k]
            it = self.ev(gen.iter, e)
            if it is OPAQUE:
                raise Unsupported('comprehension over an undetermined value')
            for v in _as_list(it):
                e2 = dict(e)
                self.bind(gen.target, v, e2)
                if all(self.truth(self.ev(c, e2)) for c in gen.ifs):
                    rec(k + 1, e2)
        rec(0, env)
        return out

    @staticmethod
    def truth(v):
        if v is OPAQUE:
            raise Unsupported('decision depends on an undetermined value')
        if isinstance(v, Arr):
            fl = v.flat()
            if len(fl) != 1:
                raise Unsupported('truth value of an array')
            return bool(fl[0])
        return bool(v)

    def _cmp(self, op, a, b):
        if a is OPAQUE or b is OPAQUE:
            raise Unsupported('comparison with an undetermined value')
        a, b = _num(a), _num(b)
        if isinstance(op, (ast.In, ast.NotIn)):
            if isinstance(b, Arr):
                r = a in b
            else:
                try:
                    r = self._hashable(a) in b
                except TypeError:
                    raise Unsupported('membership in %r' % (b,))
            return r if isinstance(op, ast.In) else not r
        if isinstance(op, (ast.Is, ast.IsNot)):
            r = a is b or (a is None and b is None)
            return r if isinstance(op, ast.Is) else not r
        if isinstance(a, Arr) or isinstance(b, Arr):
            if isinstance(a, (list, tuple)) or isinstance(b, (list, tuple)):
                a, b = _to_arr(a), _to_arr(b)
            if isinstance(a, Arr) and isinstance(b, NUM) and OPAQUE not in \
                    a.flat() and type(op) in _FAST:
                f = _FAST[type(op)]
                return a.map(lambda x: f(x, b))
            return _zip_map(lambda x, y: self._cmp(op, x, y), a, b)
        if isinstance(op, ast.Eq):
            return a == b
        if isinstance(op, ast.NotEq):
            return a != b
        try:
            if isinstance(op, ast.Gt):
                return a > b
            if isinstance(op, ast.GtE):
                return a >= b
            if isinstance(op, ast.Lt):
                return a < b
            if isinstance(op, ast.LtE):
                return a <= b
        except TypeError:
            raise Unsupported('ordering of %r and %r' % (a, b))
        raise Unsupported('comparison operator')

    # -- calls --
    def call(self, n, env):
        f = n.func
        name = self._names.get(id(f))
        if name is None:
            name = self._names[id(f)] = src(f)

        def evargs():
            a = []
            for x in n.args:
                if isinstance(x, ast.Starred):
                    a += _as_list(self.ev(x.value, env))
                else:
                    a.append(self.ev(x, env))
            kw = {k.arg: self.ev(k.value, env) for k in n.keywords
                  if k.arg is not None}
            return a, kw
        head, _, tail = name.rpartition('.')
        if head in ('np', 'numpy', 'math') and tail in MODELS:
            args, kw = evargs()
            kw = {k: v for k, v in kw.items() if k not in ('dtype',)}
            if any(a is OPAQUE for a in args) or any(
                    v is OPAQUE for v in kw.values()):
                return OPAQUE
            return self._model(MODELS[tail], name, args, kw, n)
        if head in ('np', 'numpy', 'math'):
            raise Unsupported('no model of %s' % name)
        if isinstance(f, ast.Name) and f.id in BUILTINS and f.id not in env:
            args, kw = evargs()
            if any(a is OPAQUE for a in args):
                return OPAQUE
            return self._model(BUILTINS[f.id], name, args, kw, n)
        if isinstance(f, ast.Name) and f.id not in env and \
                f.id in self.mod.funcs and self.mod.funcs[f.id].cls is None:
            args, kw = evargs()
            return self._user(self.mod.funcs[f.id].node, args, kw, n)
        if isinstance(f, ast.Attribute):
            recv = self.ev(f.value, env)
            if isinstance(recv, _Self):
                m = self.cls.methods.get(f.attr) if self.cls else None
                if m is None or m.is_property:
                    return OPAQUE              # logging and the like
                args, kw = evargs()
                static = any(src(d) == 'staticmethod'
                             for d in m.node.decorator_list)
                return self._user(m.node, args if static else [recv] + args,
                                  kw, n)
            if isinstance(recv, Arr):
                if f.attr not in ARR_METHODS:
                    raise Unsupported('no model of array method .%s'
                                      % f.attr)
                args, kw = evargs()
                kw = {k: v for k, v in kw.items() if k not in ('dtype',)}
                return self._model(ARR_METHODS[f.attr], name, [recv] + args,
                                   kw, n)
            if isinstance(recv, list) and f.attr in FD.LIST_MUTATORS:
                args, kw = evargs()
                return self._list_method(n, recv, f.attr, args, env)
            if isinstance(recv, dict) and f.attr in ('get', 'keys', 'values',
                                                     'items'):
                return FD.Evaluator.call(self, n, env)
            return OPAQUE
        return OPAQUE

    def _model(self, fn, name, args, kw, node):
        try:
            return fn(*args, **kw)
        except (Unsupported, Raised):
            raise
        except (IndexError, ZeroDivisionError, ValueError):
            raise Raised(node)
        except Exception as e:
            raise Unsupported('model of %s: %s' % (name, e))

    def _user(self, fnode, args, kw, node):
        self.depth += 1
        if self.depth > 6:
            raise Unsupported('call depth')
        a = fnode.args
        if a.vararg or a.kwarg or a.kwonlyargs:
            raise Unsupported('signature of %s' % fnode.name)
        params = [x.arg for x in a.posonlyargs + a.args]
        if len(args) > len(params):
            raise Raised(node)
        env = dict(zip(params, args))
        defaults = dict(zip(params[len(params) - len(a.defaults):],
                            a.defaults))
        for k, v in kw.items():
            if k not in params or k in env:
                raise Raised(node)
            env[k] = v
        for p in params:
            if p not in env:
                if p not in defaults:
                    raise Raised(node)
                env[p] = self.ev(defaults[p], {})
        saved = self.cur
        try:
            self.run_block(fnode.body, env)
            val = None
        except FD._Return as r:
            val = r.value
        finally:
            self.depth -= 1
            self.cur = saved
        return val

    # -- statements --
    def bind(self, tgt, val, env):
        if isinstance(tgt, ast.Name):
            env[tgt.id] = val
        elif isinstance(tgt, (ast.Tuple, ast.List)):
            if val is OPAQUE:
                for e in tgt.elts:
                    self.bind(e, OPAQUE, env)
                return
            vals = _as_list(val)
            if len(vals) != len(tgt.elts) or any(
                    isinstance(e, ast.Starred) for e in tgt.elts):
                raise Raised(tgt)
            for e, v in zip(tgt.elts, vals):
                self.bind(e, v, env)
        elif isinstance(tgt, ast.Subscript):
            base = self.ev(tgt.value, env)
            key = self.ev(tgt.slice, env)
            if base is OPAQUE or key is OPAQUE:
                raise Unsupported('store into an undetermined value: %s'
                                  % src(tgt))
            if isinstance(base, Arr):
                if val is OPAQUE:
                    raise Unsupported('an undetermined value is stored '
                                      'into %s' % src(tgt))
                base.set(key, val, tgt)
                if isinstance(key, int):
                    self.stores[(id(base.d), key % max(len(base.d), 1))] = \
                        (self.cur, tuple(self.trail[-3:]))
                elif isinstance(key, tuple) and len(key) == 2 and all(
                        isinstance(k, int) and not isinstance(k, bool)
                        for k in key) and isinstance(base.d[key[0]], list):
                    row = base.d[key[0]]        # (row, column) of a matrix
                    self.stores[(id(row), key[1] % max(len(row), 1))] = \
                        (self.cur, tuple(self.trail[-3:]))
            elif isinstance(base, dict):
                base[self._hashable(key)] = val
            elif isinstance(base, list):
                try:
                    base[key] = val
                except (IndexError, TypeError):
                    raise Raised(tgt)
            else:
                raise Unsupported('store into %s' % src(tgt))
        elif isinstance(tgt, ast.Attribute):
            base = self.ev(tgt.value, env)
            if isinstance(base, _Self):
                self.attrs[tgt.attr] = val
            else:
                raise Unsupported('attribute store %s' % src(tgt))
        else:
            raise Unsupported('assignment target')

    def run(self, st, env):
        self.cur = st
        if isinstance(st, ast.AugAssign):
            self.fuel -= 1
            old = self.ev(st.target, env)
            new = self._binop(st.op, old, self.ev(st.value, env), st)
            if isinstance(st.target, ast.Name) and isinstance(old, Arr) \
                    and isinstance(new, Arr) and new.shape == old.shape:
                old.assign(new)              # in place, as numpy does
            elif isinstance(old, list) and isinstance(st.op, ast.Add) \
                    and isinstance(new, list):
                old[:] = new                 # list += list is in place
            else:
                self.bind(st.target, new, env)
            return
        if isinstance(st, ast.If):
            self.fuel -= 1
            t = self.truth(self.ev(st.test, env))
            self.trail.append((st.test, t))
            del self.trail[:-6]
            self.run_block(st.body if t else st.orelse, env)
            return
        if isinstance(st, ast.For):
            it = self.ev(st.iter, env)
            if it is OPAQUE:
                raise Unsupported('loop over an undetermined value: %s'
                                  % src(st.iter))
            broke = False
            for v in _as_list(it):
                self.bind(st.target, v, env)
                try:
                    self.run_block(st.body, env)
                except FD._Continue:
                    continue
                except FD._Break:
                    broke = True
                    break
            if not broke:
                self.run_block(st.orelse, env)
            return
        if isinstance(st, ast.While):
            n = 0
            while self.truth(self.ev(st.test, env)):
                n += 1
                if n > 500:
                    raise Unsupported('while loop does not end')
                try:
                    self.run_block(st.body, env)
                except FD._Continue:
                    continue
                except FD._Break:
                    break
            return
        if isinstance(st, (ast.FunctionDef, ast.ClassDef)):
            raise Unsupported('nested definition %s' % st.name)
        FD.Evaluator.run(self, st, env)


# ---------------------------------------------------------------------------
# model cores

DIRS = [(1, 0), (1, -1), (0, -1), (-1, 0), (-1, 1), (0, 1)]
POS7 = [(0, 0)] + DIRS
# hexagon side L; mesh kind -> (edge cells per side, pitch); the corner
# length follows from tiling: n pp + 2 dwc = L (C09.R4).  Finer first.
L_SIDE = Fraction(61)
D_GAP = Fraction(4)
MESH = {'fine': (2, Fraction(17)), 'coarse': (1, Fraction(26)),
        'nopin': (0, Fraction(0))}
ORDER = ['fine', 'coarse', 'nopin']


def _dwc(kind):
    n, pp = MESH[kind]
    return (L_SIDE - n * pp) / 2


class Model:
    """A core of assemblies at `pos` (subset of the 7-position grid, ids =
    1 + index in position order) with mesh kinds `kinds`.

    Conventions taken from the producers (trusted base):
      * `asm_adj[a][s]`: 1-based id of the neighbour across hex side s, 0 =
        none; the neighbour sees the shared side as its side s - 3; the
        trailing corner of side s also touches the neighbour across s + 1
        (map_adjacent_assemblies, _find_side_sc, _find_corner_sc);
      * `_geom_params['dims'][a, s] = [pitch, corner length]` and
        `['sc_per_side'][a, s]` of the FINER of a and its neighbour across s
        (own mesh when there is none) (_collect_sc_geom_params);
      * row a of `_asm_sc_adj`: for s = 0..5 the edge cells of side s, then
        its trailing corner, 1-based cell ids, zero padded; a shared side is
        walked in opposite directions by the two neighbours
        (_map_asm_gap_adjacency, Core.load);
      * row a of `_asm_sc_xbnds`: the start of each cell, s L + dwc + j pp
        (_calculate_gap_xbnds); `_sc_types`: 0 edge, 1 corner."""

    def __init__(self, pos, kinds):
        self.pos, self.kinds = list(pos), list(kinds)
        n = len(pos)
        idx = {p: i for i, p in enumerate(pos)}
        self.nb = [[idx.get((p[0] + d[0], p[1] + d[1])) for d in DIRS]
                   for p in pos]

        def finer(a, s):
            b = self.nb[a][s]
            if b is None:
                return kinds[a]
            return min(kinds[a], kinds[b], key=ORDER.index)
        self.side_kind = [[finer(a, s) for s in range(6)] for a in range(n)]
        ids = {}
        rows, self.cell = [], {}

        def cid(key, info):
            if key not in ids:
                ids[key] = len(ids) + 1
                self.cell[ids[key]] = info
            return ids[key]
        self.extent = {}            # cell id -> {asm: extent along its duct}
        for a in range(n):
            row = []
            p = pos[a]
            for s in range(6):
                k = self.side_kind[a][s]
                ne, pp = MESH[k]
                b = self.nb[a][s]
                for j in range(ne):
                    if b is None or a < b:
                        key = ('e', a, s, j)
                    else:
                        key = ('e', b, (s + 3) % 6, ne - 1 - j)
                    c = cid(key, {'type': 0})
                    self.extent.setdefault(c, {})[a] = pp
                    self.cell[c].setdefault('sides', {})[a] = s
                    row.append(c)
                s2 = (s + 1) % 6
                tri = frozenset([p, (p[0] + DIRS[s][0], p[1] + DIRS[s][1]),
                                 (p[0] + DIRS[s2][0], p[1] + DIRS[s2][1])])
                c = cid(('c', tri), {'type': 1})
                self.extent.setdefault(c, {})[a] = _dwc(k) + _dwc(
                    self.side_kind[a][s2])
                self.cell[c].setdefault('sides', {})[a] = s
                row.append(c)
            rows.append(row)
        self.n_sc = len(ids)
        width = max(len(r) for r in rows)
        xb = []
        for a in range(n):
            r = []
            for s in range(6):
                k = self.side_kind[a][s]
                ne, pp = MESH[k]
                for j in range(ne + 1):
                    r.append(L_SIDE * s + _dwc(k) + j * pp)
            xb.append(r + [0] * (width - len(r)))
        self.rows = rows
        self.attrs = {
            'n_asm': n, 'n_sc': self.n_sc,
            'duct_oftf': Q3(0, L_SIDE), 'hex_side_len': L_SIDE,
            'd_gap': D_GAP, 'asm_pitch': Q3(D_GAP, L_SIDE),
            'asm_adj': Arr([[0 if b is None else b + 1 for b in r]
                            for r in self.nb]),
            '_geom_params': {
                'dims': Arr([[[MESH[k][1], _dwc(k)] for k in r]
                             for r in self.side_kind]),
                'sc_per_side': Arr([[MESH[k][0] for k in r]
                                    for r in self.side_kind])},
            '_asm_sc_adj': Arr([r + [0] * (width - len(r)) for r in rows]),
            '_asm_sc_xbnds': Arr(xb),
            '_sc_types': Arr([self.cell[c]['type']
                              for c in range(1, self.n_sc + 1)]),
            '_asm_sc_types': [Arr([self.cell[c]['type'] for c in r])
                              for r in rows],
            '_n_sc_per_asm': Arr([len(r) for r in rows]),
        }

    def describe(self):
        return 'assemblies %s' % ', '.join(
            '#%d (%s, position %d)' % (i + 1, k, POS7.index(p))
            for i, (p, k) in enumerate(zip(self.pos, self.kinds)))

    def expected(self):
        """cell id -> (kind of cell, geometric wetted perimeter, text)"""
        out = {}
        for c in range(1, self.n_sc + 1):
            ext = self.extent[c]
            base = sum(ext.values(), Fraction(0))
            m = len(ext)
            if self.cell[c]['type'] == 0:
                if m == 1:
                    out[c] = ('outer edge cell', 2 * base,
                              'duct wall + an equal open wall')
                else:
                    out[c] = ('edge cell between two assemblies', base,
                              'the two duct walls')
            elif m == 3:
                out[c] = ('corner between three assemblies', base,
                          'the three duct walls')
            elif m == 1:
                out[c] = ('isolated corner', 2 * base + 2 * D_GAP / SQRT3,
                          'duct wall + open wall (same + 2 d_gap/sqrt3)')
            else:
                opn, txt = Fraction(0), []
                for a, s in self.cell[c]['sides'].items():
                    s2 = (s + 1) % 6
                    free = [t for t in (s, s2) if self.nb[a][t] is None]
                    assert len(free) == 1
                    w = _dwc(self.side_kind[a][free[0]])
                    opn += w
                    txt.append('#%d side %d (%s)' % (a + 1, free[0], w))
                out[c] = ('corner between two assemblies', base + opn,
                          'the duct walls + the corner lengths of the two '
                          'sides facing the empty position: '
                          + ', '.join(txt))
        return out


def _adjacent(i, j):
    p, q = POS7[i], POS7[j]
    return (q[0] - p[0], q[1] - p[1]) in DIRS


MIXED3 = [k for k in itertools.product(ORDER, repeat=3)
          if len(set(k)) == 3 or 'coarse' not in k]
ROTATED3 = [('fine', 'coarse', 'nopin'), ('nopin', 'coarse', 'fine'),
            ('coarse', 'fine', 'nopin'), ('nopin', 'fine', 'coarse')]


def scenarios(tier):
    """(positions, mesh kinds) of the model cores.  Ids follow the position
    order (centre, then the ring), so with the centre empty a ring assembly
    is #1.  quick: one assembly; every adjacent pair (12: all six hex sides
    as the shared side, #1 as either partner) with all 9 mesh assignments;
    two assemblies apart; every triangle (centre + two adjacent ring
    positions) with the 14 assignments that mix the kinds; bent / straight
    / ring rows of three with 4 assignments.  thorough: every set of 1-3
    positions with every assignment, every set of 4 with fine/nopin."""
    out = []
    if tier == 'thorough':
        for k in (1, 2, 3):
            for sub in itertools.combinations(range(7), k):
                for kinds in itertools.product(ORDER, repeat=k):
                    out.append(([POS7[i] for i in sub], kinds))
        for sub in itertools.combinations(range(7), 4):
            for kinds in itertools.product(('fine', 'nopin'), repeat=4):
                out.append(([POS7[i] for i in sub], kinds))
        return out
    for kind in ORDER:
        out.append(([POS7[0]], (kind,)))
    for sub in itertools.combinations(range(7), 2):
        if _adjacent(*sub):
            for kinds in itertools.product(ORDER, repeat=2):
                out.append(([POS7[i] for i in sub], kinds))
    for kinds in (('fine', 'nopin'), ('coarse', 'coarse'),
                  ('nopin', 'fine')):
        out.append(([POS7[1], POS7[3]], kinds))
    for sub in itertools.combinations(range(7), 3):
        links = sum(_adjacent(a, b)
                    for a, b in itertools.combinations(sub, 2))
        if links == 3:
            if 0 in sub:
                for kinds in MIXED3:
                    out.append(([POS7[i] for i in sub], kinds))
        elif links == 2:
            for kinds in ROTATED3:
                out.append(([POS7[i] for i in sub], kinds))
    return out


# ---------------------------------------------------------------------------

KINDS = ('outer edge cell', 'edge cell between two assemblies',
         'corner between three assemblies', 'isolated corner',
         'corner between two assemblies')


def run(ctx):
    ctx.decided.append(
        'R8 the wetted perimeter of every gap cell is its geometric one '
        '(duct walls of the adjacent assemblies + open walls; at a corner '
        'between two assemblies the open wall is, for each of them, the '
        'corner length of its side facing the EMPTY position): finite-'
        'domain evaluation of Core._calculate_sc_wp by the checker\'s own '
        'interpreter over model cores -- every layout of 1-3 assemblies on '
        'the 7-position grid x every assignment of three mesh kinds, exact '
        'arithmetic')
    ctx.trusted.append('C09.R8: model of asm_adj / _geom_params / '
                       '_asm_sc_adj / _asm_sc_xbnds / _sc_types built from '
                       'the conventions of their producers '
                       '(dsa/rules/_f_c09.py: Model)')
    fi = ctx.repo.func('core', 'Core._calculate_sc_wp')
    cls = ctx.repo.cls('core', 'Core')
    if len(fi.params) != 1:
        raise AnalysisError('%s: expected the signature (self)' % fi.full)
    scen = scenarios(ctx.tier)
    _NAMES.clear()
    seen = {k: 0 for k in KINDS}
    bad = {}                      # kind -> [count, first text, node]
    crashes = []
    n_eval = 0
    for pos, kinds in scen:
        m = Model(pos, kinds)
        reset_views()
        ev = NEval(m.attrs, fi.params[0], fi.mod, cls, fuel=400000)
        try:
            got = ev._user(fi.node, [_Self()], {}, fi.node)
        except Unsupported as e:
            raise AnalysisError(
                '%s is not evaluable on the model core (%s): %s [at `%s`]'
                % (fi.full, m.describe(), e,
                   ' '.join(src(ev.cur).split())[:120] if ev.cur is not None
                   else ''))
        except Raised as r:
            crashes.append((m.describe(), r.node if r.node is not None
                            else ev.cur))
            continue
        except RecursionError:
            raise AnalysisError('%s: recursion while evaluating' % fi.full)
        n_eval += 1
        if not isinstance(got, Arr) or _depth(got.d) != 1 or \
                len(got.d) != m.n_sc:
            ctx.violation(RULE, fi, fi.node, 'for %s the function returns '
                          '%s instead of one wetted perimeter per gap cell '
                          '(%d cells)' % (m.describe(), _show(got), m.n_sc),
                          key='%s | one perimeter per cell' % fi.full)
            return
        exp = m.expected()
        ok_all = True
        for c in range(1, m.n_sc + 1):
            kind, want, why = exp[c]
            seen[kind] += 1
            val = got.d[c - 1]
            if val is OPAQUE:
                raise AnalysisError('%s: perimeter of a cell is '
                                    'undetermined (%s)' % (fi.full,
                                                           m.describe()))
            if val == want:
                continue
            ok_all = False
            rec = bad.setdefault(kind, [0, None, None])
            rec[0] += 1
            if rec[1] is None:
                adj = ', '.join('#%d' % (a + 1) for a in sorted(
                    m.extent[c]))
                rec[1] = ('%s; cell %d (adjacent to %s): returned %s, '
                          'geometric %s = %s (difference %s)'
                          % (m.describe(), c, adj, _show(val), _show(want),
                             why, _show(val - want)
                             if isinstance(val, NUM) else '?'))
                st = ev.stores.get((id(got.d), c - 1))
                if st is not None:
                    rec[2] = st[0]
                    rec[1] += '; decisions taken before the last store ' \
                        'into the cell: ' + (', '.join(
                            '`%s` -> %s' % (' '.join(src(t).split()), o)
                            for t, o in st[1]) or 'none')
                else:
                    rec[2] = fi.node
        if ok_all:
            ctx.ok(RULE, fi, None, '%s: %d cells' % (m.describe(), m.n_sc))
    for desc, node in crashes[:1]:
        ctx.violation(RULE, fi, node if isinstance(node, ast.AST)
                      else fi.node,
                      'the perimeter calculation fails (index / arithmetic '
                      'error) on %d of %d model cores, first: %s'
                      % (len(crashes), len(scen), desc),
                      key='%s | evaluable on every layout' % fi.full)
    for kind in KINDS:
        if kind in bad:
            cnt, text, node = bad[kind]
            ctx.violation(
                RULE, fi, node,
                'wetted perimeter of a gap cell must be its duct walls plus '
                'its open walls (at a corner between two assemblies: for '
                'each of them the corner length of its side facing the '
                'empty position, never the shared side, which carries the '
                'finer mesh of the pair) -- %s wrong in %d case(s), first: '
                '%s.  The gap flow area then depends on the meshes of the '
                'assemblies.' % (kind, cnt, text),
                key='%s | perimeter of %s' % (fi.full, kind))
    ctx.extra['C09.R8 model cores evaluated'] = n_eval
    ctx.extra['C09.R8 cells compared'] = dict(seen)
    if not crashes:
        for kind in KINDS:
            if seen[kind] < 20:
                raise AnalysisError('C09.R8: the model cores contain only '
                                    '%d %s' % (seen[kind], kind))
    ctx.min_instances(RULE, 100)


def _show(v):
    if isinstance(v, Fraction):
        return str(float(v)) if v.denominator != 1 else str(v.numerator)
    if isinstance(v, Q3):
        return '%s+%s*sqrt3' % (_show(v.a), _show(v.b))
    return repr(v)
