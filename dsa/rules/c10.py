"""C10 -- duct <-> gap mesh mapping positive, exact on constants,
conservative (structural clauses only)."""
import ast

from ..core import (AnalysisError, access_path, const, find_all, match, short,
                    src, walk_no_nested, parent, call_name)
from .. import util as U


def run(ctx):
    ctx.decided += [
        'R1 both transfer matrices derive from the single interval-overlap '
        'matrix; the one whose rows are region cells is divided by the region '
        'cell widths, the other by the gap cell widths and transposed; both '
        'get the same split-corner fold; overlap entries are minima of '
        'interval lengths (non-negative by construction of the walk)',
        'R2 every return yields (fine->coarse, coarse->fine) and the caller '
        'stores them under gap2duct, duct2gap in that order; the transfer is '
        'a matrix-vector product with the stored map',
        'R3 the identity branch is taken only for equal-shape, allclose '
        'bounds and returns identity blocks',
        'R4 the duct mesh handed to the overlap map walks the outer face of '
        'the outermost duct: element widths (pin pitch, 2 x corner length) '
        'sum, side by side, to the boundary the walk ends on, 6 / sqrt3 x '
        'outer flat-to-flat, with the corner length closed form of C08.R4 '
        '(so the corner length must be that of the last duct\'s outer face)',
        'R5 every region owns its pair of maps: the container reg._map is '
        'bound to a fresh dict for each region where the maps are stored '
        '(regions are shallow clones of a template: a dict created once in '
        'the constructor would be shared by all assemblies of a type and keep '
        'only the maps of the last one)']
    ctx.not_decided += ['positivity, exactness on constants and '
                        'conservation as numeric facts of the run-time '
                        'matrices']
    fi = ctx.repo.func('mesh_functions', '_map_asm2gap')
    # R1, the function-internal part of R2 and R3 read source forms of
    # _map_asm2gap; what they cannot read is decided by the matrices the
    # function returns on the model mesh pairs (C10.R7, rules/_f_c10.py)
    from . import _f_c10
    cv = _ByValue(ctx, fi, _f_c10.evaluate(ctx))
    r1(cv, fi)
    r2(cv, fi)
    r3(cv, fi)
    r4(ctx)
    ctx.min_instances('C10.R4', 3)
    r5(ctx)
    ctx.min_instances('C10.R5', 1)
    ctx.min_instances('C10.R1', 8)
    ctx.min_instances('C10.R2', 5)
    ctx.min_instances('C10.R3', 2)


def _s(e):
    return ' '.join(src(e).split())


class _ByValue:
    """The context as seen by r1 / r2 / r3.  A clause about the inside of
    `_map_asm2gap` (keys below) whose recorded source form is not found is
    not rejected when the value rule C10.R7 evaluated the function as
    written on every model mesh pair and found both matrices exactly right:
    the clause is then a fact about those matrices (overlap / width, same
    corner fold, order, zero padding, identity blocks), whatever the
    spelling.  If R7 reports anything -- or did not cover all pairs -- every
    form violation stands as before.  Clauses about other functions (the
    caller's storage keys, map_across_gap, the call sites) are never
    deferred."""
    FORM_KEYS = ('overlap shape', 'overlap entries', 'walk condition',
                 'walk advance', 'walk start', 'widths', 'f2c normaliser',
                 'c2f normaliser', 'corner fold', 'return order', 'padding',
                 'identity condition', 'identity maps')

    def __init__(self, ctx, fi, verdict):
        self._ctx, self._fi, self._v = ctx, fi, verdict

    def __getattr__(self, name):
        return getattr(self._ctx, name)

    def require(self, cond, rule, fi_or_loc, node, what, note='', key=None):
        if not cond and self._v.all_ok and self._v.n_pairs >= 100 and \
                fi_or_loc is self._fi and key in [
                    '%s | %s' % (self._fi.full, k) for k in self.FORM_KEYS]:
            self._ctx.ok(rule, fi_or_loc, node,
                         'recorded source form not found; decided on values: '
                         'both maps exact on all %d model mesh pairs '
                         '(C10.R7)' % self._v.n_pairs)
            if key.endswith('| identity condition'):
                # (r3 reads the identity blocks only under the recorded
                # condition; they are part of the same value verdict)
                self._ctx.ok(rule, fi_or_loc, node, 'identity maps: decided '
                             'on values (C10.R7, coincident and nearly '
                             'coincident model pairs)')
            return True
        return self._ctx.require(cond, rule, fi_or_loc, node, what,
                                 note=note, key=key)


def r1(ctx, fi):
    reg, core = fi.params[:2]
    pre = find_all('mapping_f2c = np.zeros((%s.shape[0] - 1, %s.shape[0] - 1))'
                   % (reg, core), fi.node, 'stmt')
    ctx.require(len(pre) == 1, 'C10.R1', fi, pre[0][0] if pre else fi.node,
                'overlap matrix: rows = region cells, columns = gap cells',
                key=fi.full + ' | overlap shape')
    # overlap entries: min of two interval lengths, both ending minus a
    # lower bound that is not above them
    ent = [st for t, st in U.stores(fi.node)
           if _s(t) == 'mapping_f2c[CME, FME]']
    def _minform(v):
        # min([a, b]) and min(a, b) are one form
        if isinstance(v, ast.Call) and _s(v.func) in ('min', 'np.min') and \
                len(v.args) == 1 and isinstance(v.args[0], (ast.List,
                                                            ast.Tuple)):
            return 'min(%s)' % ', '.join(_s(e) for e in v.args[0].elts)
        return _s(v)
    forms = sorted(_minform(st.value) for st in ent)
    ctx.require(forms == ['min(CME_UBND - CME_LBND, FME_UBND - CME_LBND)',
                          'min(CME_UBND - FME_LBND, FME_UBND - FME_LBND)'],
                'C10.R1', fi, ent[0] if ent else fi.node,
                'overlap of a region cell with a gap cell must be '
                'min(upper bounds) - max(lower bound in play): first cell '
                'from the region lower bound, following cells from the gap '
                'cell lower bound (found %s)' % forms,
                key=fi.full + ' | overlap entries')
    w = [n for n in walk_no_nested(fi.node) if isinstance(n, ast.While)]
    ctx.require(len(w) == 1 and _s(w[0].test) == 'FME_UBND < CME_UBND',
                'C10.R1', fi, w[0].test if w else fi.node,
                'the walk continues while the gap cell ends before the region '
                'cell does', key=fi.full + ' | walk condition')
    if w:
        inc = [st for st in w[0].body if isinstance(st, ast.AugAssign)
               and _s(st.target) == 'FME' and const(st.value) == 1]
        upd = [st for st in w[0].body if isinstance(st, ast.Assign)
               and _s(st.targets[0]) == 'FME_UBND'
               and _s(st.value) == '%s[FME + 1]' % core]
        ctx.require(len(inc) == 1 and len(upd) == 1 and
                    inc[0].lineno < upd[0].lineno, 'C10.R1', fi, w[0],
                    'the walk advances one gap cell per iteration and '
                    're-reads its upper bound (termination: bounds increase)',
                    key=fi.full + ' | walk advance')
    start = U.assigns_of(fi.node, 'FME')
    s0 = [a for a in start if isinstance(a, ast.Assign)]
    ctx.require(len(s0) == 1 and _s(U.expand_locals(
        fi.node, s0[0].value, before=s0[0].lineno, depth=2,
        keep=('CME', core, reg))) ==
                'np.searchsorted(%s, %s[CME]) - 1' % (core, reg), 'C10.R1',
                fi, s0[0] if s0 else fi.node,
                'first gap cell = the one containing the region cell lower '
                'bound', key=fi.full + ' | walk start')
    # normalisation
    dxr = U.single_def(fi.node, 'dx_reg')
    dxc = U.single_def(fi.node, 'dx_core')
    def _widths(e, x):
        # x[1:] - x[:-1], or np.diff(x) (first difference along the last
        # axis: the same thing for the 1-D bound vectors, which the walk
        # above indexes with one scalar index)
        if isinstance(e, ast.Call) and _s(e.func) in ('np.diff',
                                                       'numpy.diff') and \
                len(e.args) == 1 and not e.keywords:
            return _s(e.args[0]) == x
        return _s(e) == '%s[1:] - %s[:-1]' % (x, x)
    ok = dxr is not None and dxc is not None and \
        _widths(dxr, reg) and _widths(dxc, core)
    ctx.require(ok, 'C10.R1', fi, dxr if dxr is not None else fi.node,
                'cell widths are differences of consecutive bounds of the '
                'respective mesh', key=fi.full + ' | widths')
    f2c = [a for a in U.assigns_of(fi.node, 'm_f2c')
           if isinstance(a, ast.Assign) and 'mapping_f2c' in src(a.value)]
    c2f = [a for a in U.assigns_of(fi.node, 'm_c2f')
           if isinstance(a, ast.Assign) and 'mapping_f2c' in src(a.value)]
    ctx.require(len(f2c) == 1 and _s(f2c[0].value) ==
                '(mapping_f2c.T / dx_reg).T', 'C10.R1', fi,
                f2c[0] if f2c else fi.node,
                'gap->region matrix: each region-cell row divided by that '
                'region cell width (rows sum to one)',
                key=fi.full + ' | f2c normaliser')
    ctx.require(len(c2f) == 1 and _s(c2f[0].value) ==
                '(mapping_f2c / dx_core).T', 'C10.R1', fi,
                c2f[0] if c2f else fi.node,
                'region->gap matrix: each gap-cell column divided by that gap '
                'cell width, then transposed (rows sum to one)',
                key=fi.full + ' | c2f normaliser')
    # identical corner fold for both
    folds = {}
    for nm in ('m_f2c', 'm_c2f'):
        seq = []
        for st in fi.node.body:
            if isinstance(st, (ast.Assign, ast.AugAssign)):
                tgt = st.targets[0] if isinstance(st, ast.Assign) \
                    else st.target
                if _s(tgt).startswith(nm) and 'mapping_f2c' not in src(st):
                    seq.append(_s(st).replace(nm, 'M'))
        folds[nm] = seq
    want = ['M[-1, :] += M[0, :]', 'M[:, -1] += M[:, 0]', 'M[-1] *= 0.5',
            'M = M[1:, 1:]']
    ctx.require(folds['m_f2c'] == want and folds['m_c2f'] == want, 'C10.R1',
                fi, fi.node, 'both matrices must get the same split-corner '
                'fold: add first row/column to the last, halve the last row, '
                'drop first row and column (f2c: %s; c2f: %s)'
                % (folds['m_f2c'], folds['m_c2f']),
                key=fi.full + ' | corner fold')


def r2(ctx, fi):
    rets = [n for n in walk_no_nested(fi.node) if isinstance(n, ast.Return)]
    want = [('m_f2c', 'm_c2f'), ('expanded_mf2c', 'expanded_mc2f')]
    got = [tuple(_s(e) for e in r.value.elts) for r in rets
           if isinstance(r.value, ast.Tuple)]
    ctx.require(sorted(got) == sorted(want), 'C10.R2', fi,
                rets[0] if rets else fi.node,
                'every return must yield (fine->coarse, coarse->fine); found '
                '%s' % got, key=fi.full + ' | return order')
    # expanded copies are filled from the right matrices
    h1 = find_all('expanded_mf2c[:, :m_f2c.shape[1]] = m_f2c', fi.node, 'stmt')
    h2 = find_all('expanded_mc2f[:m_c2f.shape[0], :] = m_c2f', fi.node, 'stmt')
    ctx.require(bool(h1 and h2), 'C10.R2', fi, h1[0][0] if h1 else fi.node,
                'zero padding keeps each matrix in its own slot',
                key=fi.full + ' | padding')
    sm = ctx.repo.func('reactor', 'Reactor._setup_gap_mesh_params')
    un = find_all('map_fine2coarse, map_coarse2fine = '
                  'dassh.mesh_functions._map_asm2gap(xb_reg, '
                  'self.core._asm_sc_xbnds[a])', sm.node, 'stmt')
    s1 = find_all("reg._map['gap2duct'] = map_fine2coarse", sm.node, 'stmt')
    s2 = find_all("reg._map['duct2gap'] = map_coarse2fine", sm.node, 'stmt')
    if not (s1 and s2):
        # one dict display instead of two keyed stores
        for t_, st_ in U.stores(sm.node):
            if _s(t_) == 'reg._map' and isinstance(st_, ast.Assign) and \
                    isinstance(st_.value, ast.Dict):
                kv = {const(k): _s(v) for k, v in zip(st_.value.keys,
                                                       st_.value.values)}
                if kv == {'gap2duct': 'map_fine2coarse',
                          'duct2gap': 'map_coarse2fine'}:
                    s1 = s2 = [(st_, {})]
    ctx.require(bool(un and s1 and s2), 'C10.R2', sm,
                un[0][0] if un else sm.node,
                'caller must store fine->coarse as gap2duct and coarse->fine '
                'as duct2gap, built from the bounds of the same region and of '
                'the same assembly position',
                key=sm.full + ' | unpack order')
    xb = U.single_def(sm.node, 'xb_reg')
    lp = [l for l in walk_no_nested(sm.node) if isinstance(l, ast.For)]
    ok = xb is not None and _s(xb) == 'reg.calculate_xbnds()' and \
        any(_s(l.iter) == 'asm.region' for l in lp) and \
        any(_s(l.iter) == 'range(len(self.assemblies))' for l in lp)
    ctx.require(ok, 'C10.R2', sm, xb if xb is not None else sm.node,
                'every region of every assembly gets its own pair of maps',
                key=sm.full + ' | all regions')
    mg = ctx.repo.func('mesh_functions', 'map_across_gap')
    rets = [n for n in walk_no_nested(mg.node) if isinstance(n, ast.Return)]
    ctx.require(len(rets) == 1 and _s(rets[0].value) ==
                'np.dot(%s, %s)' % (mg.params[1], mg.params[0]), 'C10.R2', mg,
                rets[0] if rets else mg.node,
                'transfer = map @ vector', key=mg.full + ' | product')
    # orientation used at the call sites: gap quantities with gap2duct, duct
    # quantities with duct2gap
    n = 0
    for f in ctx.repo.all_funcs():
        for c in ast.walk(f.node):
            if isinstance(c, ast.Call) and (call_name(c) or '').endswith(
                    'map_across_gap') and len(c.args) == 2:
                # the mapped quantity is classified on its value: a local
                # that carries it (`h = self.core.adjacent_coolant_gap_htc(i)`)
                # is expanded flow-sensitively at the call
                a0, a1 = _s(U.value_at(f.node, c.args[0], c.lineno)), \
                    _s(c.args[1])
                n += 1
                gapq = 'gap' in a0 and 'duct_outer' not in a0
                ok = ("'gap2duct'" in a1) == gapq and \
                    ("'duct2gap'" in a1) == (not gapq)
                ctx.require(ok, 'C10.R2', f, c, 'gap-mesh quantities must be '
                            'mapped with gap2duct, duct-mesh quantities with '
                            'duct2gap', key='%s | orientation %s' % (f.full,
                                                                     a0[:40]))
    if n < 7:
        raise AnalysisError('expected >= 7 map_across_gap call sites, got %d'
                            % n)


def r3(ctx, fi):
    reg, core = fi.params[:2]
    ifs = [n for n in fi.node.body if isinstance(n, ast.If)
           and _s(n.test) == '%s.shape == %s.shape' % (core, reg)]
    ok = len(ifs) == 1 and len(ifs[0].body) == 1 and isinstance(
        ifs[0].body[0], ast.If) and _s(ifs[0].body[0].test) in (
            'np.allclose(%s, %s)' % (core, reg),
            'np.allclose(%s, %s)' % (reg, core))
    ctx.require(ok, 'C10.R3', fi, ifs[0] if ifs else fi.node,
                'identity shortcut only for equal-shape, allclose bounds',
                key=fi.full + ' | identity condition')
    if ok:
        inner = ifs[0].body[0]
        tmp = [s for s in inner.body if isinstance(s, ast.Assign)
               and _s(s.targets[0]) == 'tmp']
        blocks = sorted(_s(s) for s in inner.body if isinstance(s, ast.Assign)
                        and _s(s.value) == 'tmp')
        ctx.require(len(tmp) == 1 and _s(tmp[0].value) ==
                    'np.identity(%s.shape[0] - 2)' % reg and blocks == [
                        'm_c2f[:%s.shape[0] - 2, :] = tmp' % reg,
                        'm_f2c[:, :%s.shape[0] - 2] = tmp' % reg], 'C10.R3',
                    fi, inner, 'coincident meshes: both maps are identity '
                    'blocks (zero padded)', key=fi.full + ' | identity maps')


# ---------------------------------------------------------------------------
# R4: the duct mesh tiles the outer perimeter

def r4(ctx):
    """Decided on values by the perimeter-vector evaluator shared with
    C07.R7 (rules/_f_c07.py): the element widths -- wherever they are taken
    from -- must evaluate to pin pitch / 2 x corner length of the outermost
    duct's outer face, start with the top corner element and close on
    6 / sqrt3 x outer flat-to-flat."""
    from . import _f_c07
    _f_c07.check(ctx, 'C10.R4')


# ---------------------------------------------------------------------------
# R5: per-region ownership of the maps

def r5(ctx):
    sm = ctx.repo.func('reactor', 'Reactor._setup_gap_mesh_params')
    keyed = [(t, st) for t, st in U.stores(sm.node)
             if isinstance(t, ast.Subscript) and _s(t.value).endswith('._map')]
    whole = [(t, st) for t, st in U.stores(sm.node)
             if isinstance(t, ast.Attribute) and t.attr == '_map'
             and isinstance(st, ast.Assign)]
    ok = bool(whole) and all(isinstance(st.value, ast.Dict) or (
        isinstance(st.value, ast.Call) and _s(st.value.func) == 'dict')
        for t, st in whole)
    if ok and keyed:
        # the rebinding happens in the same loop body, before the keyed stores
        for t, st in keyed:
            owner = _s(t.value)
            pre = [w for tw, w in whole if _s(tw) == owner
                   and w.lineno < st.lineno and
                   [id(l) for l in U.enclosing_loops(w)] ==
                   [id(l) for l in U.enclosing_loops(st)]
                   and not U.guards(w, stop=(U.enclosing_loops(w) or [None])[0])]
            ok = ok and bool(pre)
    ctx.require(ok, 'C10.R5', sm, whole[0][1] if whole else sm.node,
                'reg._map must be bound to a fresh dict for every region '
                'before / when the two maps are stored (found %d whole '
                'bindings, %d keyed stores)' % (len(whole), len(keyed)),
                key=sm.full + ' | fresh map container')
    # and no constructor creates a container that clones would share
    for ci in ctx.repo.all_classes():
        if not ci.mod.name.startswith('dassh.region'):
            continue
        m = ci.methods.get('__init__')
        if m is None:
            continue
        for t, st in U.stores(m.node):
            if isinstance(t, ast.Attribute) and t.attr == '_map' and \
                    isinstance(st, ast.Assign) and isinstance(
                        st.value, (ast.Dict, ast.Call)):
                ctx.require(ok, 'C10.R5', m, st, 'a _map container created '
                            'in the constructor is shared by shallow clones '
                            'unless it is re-bound per region',
                            key=m.full + ' | constructor container')
