"""Rule shared by C02 (R6) and C07 (R3): the distance between an edge gap
cell and a corner gap cell is one quantity.

Core._calculate_dist_between_sc fills L[i, j] cell by cell.  For an edge
cell the value comes from the parameters of its own hex side; for a corner
cell from the parameters of the *adjacent* cell's hex side.  Conduction
d_gap / L is conservative (C02) and independent of the numbering (C07) only
if both directions of a link look the parameters up the same way:

    dims[A(c), S(c)]   with (A, L) = where(_asm_sc_adj == id(c)),
                       S = count_nonzero(_asm_sc_types[A[0]][:L[0]])

where c is the edge cell of the link -- the cell itself in the edge branch,
the neighbour in the corner branch -- and the formula on top is the same
polynomial.  The rule canonicalises the two look-ups (locals expanded, the
np.where result names replaced by placeholders) and compares them.
"""
import ast

from ..core import AnalysisError, src, walk_no_nested, parent, call_name
from .. import util as U
from ..poly import from_ast


def _n(e):
    return ' '.join(src(e).split())


def _in(node, stmts):
    for s in stmts:
        for x in ast.walk(s):
            if x is node:
                return True
    return False


def _defs_in(scope_stmts, name):
    out = []
    for s in scope_stmts:
        for st in ast.walk(s):
            if isinstance(st, ast.Assign):
                for t in st.targets:
                    names = [x.id for x in ast.walk(t)
                             if isinstance(x, ast.Name)]
                    if name in names:
                        out.append(st)
    return out


def _lookup(fi, scope, formula_names, i_name):
    """Canonical (template, where-key) of the parameter look-up that feeds
    the names used by the distance formula in the given scope (list of
    statements, searched innermost first)."""
    # the tuple assignment that binds the formula's parameter names
    binds = [st for st in _defs_in(scope, formula_names[0])
             if isinstance(st.targets[0], ast.Tuple)]
    if len(binds) != 1:
        return None, None, 'parameters %s are not bound by one tuple ' \
            'assignment in this branch' % (formula_names,)
    val = binds[0].value
    text = _n(val)
    # expand single-definition locals of the scope (side, side_adj ...)
    for _ in range(4):
        changed = False
        for nm in sorted({x.id for x in ast.walk(ast.parse(text, mode='eval'))
                          if isinstance(x, ast.Name)}):
            ds = [d for d in _defs_in(scope, nm)
                  if isinstance(d.targets[0], ast.Name)]
            if len(ds) == 1 and nm not in (i_name,):
                tree = ast.parse(text, mode='eval')

                class R(ast.NodeTransformer):
                    def visit_Name(self, n):
                        if n.id == nm:
                            return ast.parse('(%s)' % _n(ds[0].value),
                                             mode='eval').body
                        return n
                text2 = _n(R().visit(tree).body)
                if text2 != text:
                    text, changed = text2, True
        if not changed:
            break
    # the np.where statement(s) whose result names occur in the template
    names = {x.id for x in ast.walk(ast.parse(text, mode='eval'))
             if isinstance(x, ast.Name)}
    wh = []
    for s in scope:
        for st in ast.walk(s):
            if isinstance(st, ast.Assign) and isinstance(
                    st.targets[0], ast.Tuple) and isinstance(
                        st.value, ast.Call) and call_name(st.value) == \
                    'np.where':
                tn = [x.id for x in st.targets[0].elts
                      if isinstance(x, ast.Name)]
                if set(tn) & names:
                    wh.append((st, tn))
    if len(wh) != 1:
        return None, None, 'the look-up uses the result names of %d ' \
            'np.where statements (expected exactly one)' % len(wh)
    st, tn = wh[0]
    tree = ast.parse(text, mode='eval')

    class P(ast.NodeTransformer):
        def visit_Name(self, n):
            if n.id in tn:
                return ast.Name(id='W%d' % tn.index(n.id), ctx=ast.Load())
            return n
    template = _n(P().visit(tree).body)
    leftover = {x.id for x in ast.walk(ast.parse(template, mode='eval'))
                if isinstance(x, ast.Name)} - {'W0', 'W1', 'self', 'np'}
    if leftover:
        return None, None, 'the look-up also depends on %s' % sorted(leftover)
    cond = st.value.args[0] if st.value.args else None
    if not (isinstance(cond, ast.Compare) and len(cond.ops) == 1 and
            isinstance(cond.ops[0], ast.Eq)):
        return None, None, 'np.where condition shape'
    key = cond.comparators[0]
    table = _n(cond.left)
    ktext = _n(key)
    if isinstance(key, ast.Name):
        ds = [d for d in _defs_in(scope, key.id)
              if isinstance(d.targets[0], ast.Name)]
        if len(ds) == 1:
            ktext = _n(ds[0].value)
    return template, (table, ktext), None


def check(ctx, rule):
    fi = ctx.repo.func('core', 'Core._calculate_dist_between_sc')
    loops = [n for n in walk_no_nested(fi.node) if isinstance(n, ast.For)]
    outer = [l for l in loops if not any(
        isinstance(p, ast.For) for p in _anc(l, fi.node))]
    if len(outer) != 1 or not isinstance(outer[0].target, ast.Name):
        raise AnalysisError('_calculate_dist_between_sc: cell loop')
    lp = outer[0]
    iv = lp.target.id
    br = [s for s in lp.body if isinstance(s, ast.If)
          and isinstance(s.test, ast.Compare)
          and _n(s.test.left) == 'self._sc_types[%s]' % iv]
    if len(br) != 1 or not br[0].orelse:
        raise AnalysisError('_calculate_dist_between_sc: edge/corner branch')
    edge_is_body = _n(br[0].test).endswith('== 0')
    edge = br[0].body if edge_is_body else br[0].orelse
    corner = br[0].orelse if edge_is_body else br[0].body
    pre = [s for s in lp.body if s is not br[0]]

    def link_store(stmts, other_type_is_corner):
        """L[i, j] = F stored for the neighbour type (1 = corner)."""
        out = []
        for s in stmts:
            for st in ast.walk(s):
                if isinstance(st, ast.Assign) and isinstance(
                        st.targets[0], ast.Subscript) and \
                        _n(st.targets[0].value) == 'L_global':
                    gs = [(t, p) for t, p in U.guards(st)
                          if '_sc_types[' in _n(t) and _in(t, stmts)]
                    for t, p in gs:
                        is_c = _n(t).endswith('== 1')
                        nb_corner = p if is_c else (not p)
                        if nb_corner == other_type_is_corner:
                            out.append((st, t))
        return out
    e2c = link_store(edge, True)       # edge cell -> corner neighbour
    c2e = link_store(corner, False)    # corner cell -> edge neighbour
    if len(e2c) != 1 or len(c2e) != 1:
        raise AnalysisError('_calculate_dist_between_sc: link stores '
                            '(%d, %d)' % (len(e2c), len(c2e)))
    fe, fc = e2c[0][0].value, c2e[0][0].value
    pe = from_ast(fe, {}, auto=True)
    pc = from_ast(fc, {}, auto=True)
    ctx.require(pe.equals(pc), rule, fi, c2e[0][0],
                'edge->corner and corner->edge distance of one link must be '
                'the same formula (%s vs %s)' % (_n(fe), _n(fc)),
                key=fi.full + ' | link formula')
    names = sorted({x.id for x in ast.walk(fe) if isinstance(x, ast.Name)}
                   & {x.id for t in ast.walk(ast.Module(body=edge,
                                                        type_ignores=[]))
                      if isinstance(t, ast.Tuple)
                      and isinstance(t.ctx, ast.Store)
                      for x in t.elts if isinstance(x, ast.Name)})
    if not names:
        raise AnalysisError('_calculate_dist_between_sc: link parameters')
    te, ke, why_e = _lookup(fi, edge + pre, names, iv)
    tc, kc, why_c = _lookup(fi, corner + pre, names, iv)
    # in the corner branch the look-up must be the one made *in* the branch
    tc2, kc2, why_c2 = _lookup(fi, corner, names, iv)
    if tc2 is not None:
        tc, kc, why_c = tc2, kc2, None
    if te is None or tc is None:
        ctx.violation(rule, fi, c2e[0][0] if tc is None else e2c[0][0],
                      'cannot establish where the link parameters come '
                      'from: %s' % (why_e or why_c),
                      key=fi.full + ' | link parameter look-up')
        return
    ctx.require(te == tc, rule, fi, c2e[0][0],
                'both directions of an edge-corner link must look the side '
                'parameters up the same way (edge branch: %s; corner branch: '
                '%s)' % (te, tc), key=fi.full + ' | look-up template')
    # keys: the edge cell of the link
    own = (ke[1].replace(' ', '') in ('%s+1' % iv, '1+%s' % iv))
    ctx.require(own, rule, fi, e2c[0][0],
                'edge branch: the parameters must be those of the cell '
                'itself (where(%s == %s + 1)), found key %s'
                % (ke[0], iv, ke[1]), key=fi.full + ' | edge key')
    # neighbour id: the expression E with sc_adj = E - 1 used by the type
    # test that selects this store
    tst = c2e[0][1]
    idx = [x for x in ast.walk(tst) if isinstance(x, ast.Subscript)
           and '_sc_types' in _n(x.value)]
    nb = _n(idx[0].slice) if idx else None
    nb_def = None
    if nb is not None:
        ds = [d for d in _defs_in(corner, nb)
              if isinstance(d.targets[0], ast.Name)]
        if len(ds) == 1:
            nb_def = _n(ds[0].value)
    want = None
    if nb_def and nb_def.endswith('- 1'):
        want = nb_def[:-3].strip()
    ctx.require(want is not None and kc[1] == want and kc[0] == ke[0],
                rule, fi, c2e[0][0],
                'corner branch: the parameters must be those of the '
                'adjacent (edge) cell: where(%s == %s), found where(%s == '
                '%s)' % (ke[0], want, kc[0], kc[1]),
                key=fi.full + ' | corner key')


def _anc(n, stop):
    p = parent(n)
    while p is not None and p is not stop:
        yield p
        p = parent(p)
