"""C11 -- duct-wall temperatures solve steady 1-D conduction with the BCs."""
import ast
from fractions import Fraction

from ..core import (AnalysisError, access_path, const, find_all, match, short,
                    src, walk_no_nested, parent, call_name)
from .. import util as U
from ..poly import Rat, Poly, from_ast, NotPolynomial


def run(ctx):
    ctx.decided += [
        'R2 adiabatic branches are independent of the gap arguments (shared '
        'with C02.R5)',
        'R3 the two surface temperatures differ only in the sign of the '
        'c1*L/2 term',
        'R4 (exact polynomial algebra on the straight-line formulas) the '
        'closed-form coefficients satisfy the slab equations: with T(x) = '
        '-q x^2/(2k) + c1 x + c2, the flux entering from the inner coolant '
        'h_in (t_in - T(-L/2)) equals -q L/2 - k c1, the flux leaving to the '
        'outer coolant h_out (T(L/2) - t_out) equals q L/2 - k c1, and with '
        'the adiabatic option the outer flux is identically 0; mid-wall = c2, '
        'surfaces = T(-L/2), T(L/2); the geometry constants are L/2, L^2/8 of '
        'the wall thickness; the unrodded formulas are the q = 0 instance',
        'R5 without wall heating the wall temperatures are convex '
        'combinations of the two coolant temperatures (weights are ratios of '
        'sums of positive monomials)',
        'R6 (finite index domain, n_duct = 1..6) which coolant each wall '
        'face sees: duct i takes its inner boundary condition from the bundle '
        'interior (i = 0) or bypass gap i-1, its outer one from the '
        'inter-assembly gap arguments (i = n_duct-1) or bypass gap i, always '
        'a valid gap index; the bypass solvers read the mirror relation '
        '(gap j touches face 1 of duct j and face 0 of duct j+1)']
    ctx.not_decided += ['floating-point evaluation error of the closed forms']
    ctx.assumptions += ['k, h_in, h_out, L > 0']
    r3(ctx)
    r4(ctx)
    r6(ctx)
    ctx.min_instances('C11.R6', 8)
    from fractions import Fraction
    from . import _ductftf
    _ductftf.check(
        ctx, 'C11.R7', 'region_unrodded', 'SingleNodeHomogeneous.__init__',
        'duct_ftf',
        lambda n, V: {'self.duct_ftf': [V[2 * n - 2], V[2 * n - 1]],
                      'self.duct_thickness': Fraction(
                          V[2 * n - 1] - V[2 * n - 2], 2)})
    ctx.min_instances('C11.R7', 3)
    ctx.decided.append(
        'R7 the wall the low-fidelity regions conduct through is the outer '
        'duct: its flat-to-flat pair is the two largest input distances and '
        'its thickness is half their difference, for every order of the '
        'input (finite-domain evaluation over all permutations, 1-3 ducts)')
    ctx.min_instances('C11.R3', 2)
    ctx.min_instances('C11.R4', 12)


def r3(ctx):
    fi = ctx.repo.func('region_rodded', 'RoddedRegion._calc_duct_temp')
    s_in = find_all("self.temp['duct_surf'][i, 0] = Q_v", fi.node, 'stmt')
    s_out = find_all("self.temp['duct_surf'][i, 1] = Q_v", fi.node, 'stmt')
    ok = len(s_in) == 1 and len(s_out) == 1
    if ok:
        ti = sorted(U.linear_terms(s_in[0][1]['Q_v']))
        to = sorted(U.linear_terms(s_out[0][1]['Q_v']))
        di = [(sg, t) for sg, t in ti if (sg, t) not in to]
        do = [(sg, t) for sg, t in to if (sg, t) not in ti]
        ok = len(di) == 1 and len(do) == 1 and di[0][1] == do[0][1] == \
            'c1_L_over_2' and di[0][0] == -1 and do[0][0] == 1
    ctx.require(ok, 'C11.R3', fi, s_in[0][0] if s_in else fi.node,
                'inner/outer surface temperatures must differ only in the '
                'sign of c1*L/2 (inner: minus, outer: plus)',
                key=fi.full + ' | mirror pair')
    fu = ctx.repo.func('region_unrodded',
                       'SingleNodeHomogeneous._calc_duct_temp')
    a = find_all("self.temp['duct_surf'][0, 0] = c1 * -L_over_2 + c2",
                 fu.node, 'stmt')
    b = find_all("self.temp['duct_surf'][0, 1] = c1 * L_over_2 + c2",
                 fu.node, 'stmt')
    ctx.require(bool(a and b), 'C11.R3', fu, a[0][0] if a else fu.node,
                'unrodded surfaces: c2 -/+ c1 L/2',
                key=fu.full + ' | mirror pair')


def _branch_env(fi, stmts, atoms, env0=None):
    """Convert a straight-line block of assignments to Rats."""
    env = dict(env0 or {})
    for st in stmts:
        if isinstance(st, ast.Assign) and len(st.targets) == 1 and \
                isinstance(st.targets[0], ast.Name):
            try:
                env[st.targets[0].id] = from_ast(st.value, atoms, env, auto=True)
            except NotPolynomial as e:
                raise AnalysisError('%s: %s is not polynomial arithmetic (%s)'
                                    % (fi.qual, st.targets[0].id, e))
    return env


def _positive_combination(expr_rat, var):
    """d(expr)/d(var) numerator and denominator are sums of monomials with
    coefficients of one sign (so the weight of `var` is in [0, 1] if the
    weights of all temperatures sum to one)."""
    # expr is affine in var: weight = coefficient of var
    n = expr_rat.n
    lin = Poly({tuple((s, e) for s, e in k if s != var): v
                for k, v in n.t.items() if dict(k).get(var, 0) == 1})
    return lin, expr_rat.d


def _one_sign(p):
    vs = list(p.t.values())
    return bool(vs) and (all(v > 0 for v in vs) or all(v < 0 for v in vs))


def _sign(p):
    vs = list(p.t.values())
    return 1 if all(v > 0 for v in vs) else (-1 if all(v < 0 for v in vs)
                                             else 0)


def r4(ctx):
    repo = ctx.repo
    # ---- geometry constants from calculate_geometry
    cg = repo.func('region_rodded', 'calculate_geometry')
    gat = {"duct['thickness'][i]": 't'}
    genv = {}
    for pat, nm in (("duct['L/2'][i] = Q_v", 'L2'),
                    ("duct['L^2/4'][i] = Q_v", 'L24'),
                    ("duct['L^2/8'][i] = Q_v", 'L28')):
        h = find_all(pat, cg.node, 'stmt')
        if len(h) != 1:
            raise AnalysisError('calculate_geometry: %s' % pat)
        at = dict(gat)
        at["duct['L/2'][i]"] = 'L2' if 'L2' in genv else None
        at = {k: v for k, v in at.items() if v}
        e = from_ast(h[0][1]['Q_v'], {**gat, **{
            "duct['L/2'][i]": '_L2', "duct['L^2/4'][i]": '_L24'}}, auto=True)
        if '_L2' in e.n.symbols() | e.d.symbols():
            e = e.subs('_L2', genv['L2'])
        if '_L24' in e.n.symbols() | e.d.symbols():
            e = e.subs('_L24', genv['L24'])
        genv[nm] = e
    t = Rat.sym('t')
    half = Rat.const(Fraction(1, 2))
    ctx.require(genv['L2'].equals(t * half), 'C11.R4', cg, None,
                "duct['L/2'] must be thickness / 2 (is %r)" % genv['L2'],
                key=cg.full + ' | L/2')
    ctx.require(genv['L28'].equals(t * t * Rat.const(Fraction(1, 8))),
                'C11.R4', cg, None, "duct['L^2/8'] must be thickness^2 / 8 "
                "(is %r)" % genv['L28'], key=cg.full + ' | L^2/8')
    th = find_all("duct['thickness'][i] = 0.5 * (dftf[i][1] - dftf[i][0])",
                  cg.node, 'stmt')
    ctx.require(bool(th), 'C11.R4', cg, th[0][0] if th else cg.node,
                'wall thickness = (outer - inner flat-to-flat) / 2',
                key=cg.full + ' | thickness')
    # ---- rodded closed form
    fi = repo.func('region_rodded', 'RoddedRegion._calc_duct_temp')
    atoms = {
        'qtp': 'q', "self.duct_params['L/2'][i]": 'a',
        "self.duct_params['thickness'][i]": 'th',
        "self.duct_params['L^2/8'][i]": 'l28',
        'self.duct.thermal_conductivity': 'k', 'htc_in': 'hi',
        'htc_out': 'ho', 't_in': 'ti', 't_out': 'to'}
    lp = [n for n in walk_no_nested(fi.node) if isinstance(n, ast.For)]
    if len(lp) != 1:
        raise AnalysisError('_calc_duct_temp: duct loop')
    ifs = [n for n in lp[0].body if isinstance(n, ast.If)
           and 'adiabatic' in src(n.test)]
    if len(ifs) != 1:
        raise AnalysisError('_calc_duct_temp: adiabatic branch')
    pre = [s for s in lp[0].body if isinstance(s, ast.Assign)
           and src(s.targets[0]) == 'qLsq_over_8k']
    # locals of the loop body that merely carry a value into the formulas
    # (`k_wall = self.duct.thermal_conductivity` read once per wall): bound
    # once in the function, by a plain assignment at the top level of the
    # loop body in front of the branch; the formulas are judged on the value
    # they expand to.  (Whether that value belongs to this wall's material
    # state is C11.R10's clause.)
    env0 = {}
    for s in lp[0].body:
        if not (isinstance(s, ast.Assign) and len(s.targets) == 1 and
                isinstance(s.targets[0], ast.Name)
                and s.lineno < ifs[0].lineno):
            continue
        nm_ = s.targets[0].id
        if s in pre:
            env0 = _branch_env(fi, [s], atoms, env0)
        elif nm_ not in atoms and len(U.assigns_of(fi.node, nm_)) == 1:
            try:
                env0[nm_] = from_ast(s.value, atoms, env0, auto=True)
            except NotPolynomial:
                pass
    for s in pre:
        if s.lineno >= ifs[0].lineno:
            env0 = _branch_env(fi, [s], atoms, env0)
    a = Rat.sym('a')
    q, k, hi, ho, ti, to = (Rat.sym(x) for x in ('q', 'k', 'hi', 'ho', 'ti',
                                                 'to'))
    # geometry relations: thickness = 2a, L^2/8 = a^2 / 2
    def geo(r):
        r = r._subs_rat('th', a * Rat.const(2))
        r = r._subs_rat('l28', a * a * half)
        return r
    # stored results
    mw = find_all("self.temp['duct_mw'][i] = Q_v", fi.node, 'stmt')
    s_in = find_all("self.temp['duct_surf'][i, 0] = Q_v", fi.node, 'stmt')
    s_out = find_all("self.temp['duct_surf'][i, 1] = Q_v", fi.node, 'stmt')
    if not (len(mw) == len(s_in) == len(s_out) == 1):
        raise AnalysisError('_calc_duct_temp: result stores')
    # which arm holds the adiabatic formulas is decided by the value of the
    # test for the outermost duct under the adiabatic option, not by the
    # polarity it is written in (`if not (adiabatic and last): <coupled>
    # else: <adiabatic>` is the same function)
    iv_ = lp[0].target.id if isinstance(lp[0].target, ast.Name) else 'i'
    pol = U.eval_test(ifs[0].test, {'adiabatic': True, iv_: 2, iv_ + ' + 1': 3,
                                    'self.n_duct': 3})
    if pol is None:
        raise AnalysisError('_calc_duct_temp: adiabatic test %s is not '
                            'decided for the outermost duct'
                            % src(ifs[0].test))
    arms = (ifs[0].body, ifs[0].orelse) if pol else (ifs[0].orelse,
                                                     ifs[0].body)
    for name, body in (('coupled', arms[1]), ('adiabatic', arms[0])):
        env = _branch_env(fi, body, atoms, env0)
        if 'c1' not in env or 'c2' not in env:
            raise AnalysisError('_calc_duct_temp %s branch: c1/c2' % name)
        c1, c2 = geo(env['c1']), geo(env['c2'])
        Tmw = geo(from_ast(mw[0][1]['Q_v'], atoms, env, auto=True))
        Tin = geo(from_ast(s_in[0][1]['Q_v'], atoms, env, auto=True))
        Tout = geo(from_ast(s_out[0][1]['Q_v'], atoms, env, auto=True))
        # slab profile
        def T(x):
            return -q * x * x / (Rat.const(2) * k) + c1 * x + c2
        ctx.require(Tmw.equals(T(Rat.const(0))), 'C11.R4', fi, mw[0][0],
                    '%s: mid-wall temperature must be T(0) = c2' % name,
                    key='%s | %s mid-wall' % (fi.full, name))
        ctx.require(Tin.equals(T(-a)), 'C11.R4', fi, s_in[0][0],
                    '%s: inner surface must be T(-L/2)' % name,
                    key='%s | %s inner surface' % (fi.full, name))
        ctx.require(Tout.equals(T(a)), 'C11.R4', fi, s_out[0][0],
                    '%s: outer surface must be T(+L/2)' % name,
                    key='%s | %s outer surface' % (fi.full, name))
        # flux identities
        lhs_in = hi * (ti - Tin)
        rhs_in = -q * a - k * c1
        ctx.require(lhs_in.equals(rhs_in), 'C11.R4', fi, ifs[0],
                    '%s: flux entering from the inner coolant h_in (t_in - '
                    'T_s,in) must equal the conduction flux -q L/2 - k c1 at '
                    'the inner face (residual numerator %r)' % (
                        name, (lhs_in - rhs_in).n),
                    key='%s | %s inner flux' % (fi.full, name))
        if name == 'coupled':
            lhs_o = ho * (Tout - to)
            rhs_o = q * a - k * c1
            ctx.require(lhs_o.equals(rhs_o), 'C11.R4', fi, ifs[0],
                        'coupled: flux leaving to the outer coolant h_out '
                        '(T_s,out - t_out) must equal q L/2 - k c1 '
                        '(residual numerator %r)' % ((lhs_o - rhs_o).n,),
                        key=fi.full + ' | coupled outer flux')
            # energy: in + generated = out
            ctx.require((lhs_in + q * a * Rat.const(2)).equals(lhs_o),
                        'C11.R4', fi, ifs[0], 'coupled: inner flux + q L = '
                        'outer flux', key=fi.full + ' | coupled balance')
            # R5: q = 0 -> convex combination of t_in, t_out
            for nm, e in (('mid-wall', Tmw), ('inner', Tin), ('outer', Tout)):
                e0 = e._subs_rat('q', Rat.const(0))
                wi, d = _positive_combination(e0, 'ti')
                wo, d2 = _positive_combination(e0, 'to')
                tot = Rat(wi + wo, d)
                ok = tot.equals(Rat.const(1)) and _sign(wi) * _sign(d) > 0 \
                    and _sign(wo) * _sign(d) > 0
                ctx.require(ok, 'C11.R5', fi, ifs[0],
                            'without wall heating the %s temperature must be '
                            'a convex combination of the two coolant '
                            'temperatures (weights %r, %r over %r)'
                            % (nm, wi, wo, d),
                            key='%s | convex %s' % (fi.full, nm))
        else:
            outer = q * a - k * c1
            ctx.require(outer.is_zero(), 'C11.R4', fi, ifs[0],
                        'adiabatic: the conduction flux at the outer face '
                        'q L/2 - k c1 must vanish identically (is %r)'
                        % (outer,), key=fi.full + ' | adiabatic outer flux')
            ctx.require(not ({'to', 'ho'} & (c1.n.symbols() | c1.d.symbols()
                                             | c2.n.symbols()
                                             | c2.d.symbols())), 'C11.R4',
                        fi, ifs[0], 'adiabatic coefficients must not depend '
                        'on the outer coolant', key=fi.full + ' | adiabatic '
                        'independent')
    # qtp definition: linear power / cross-section area of the cell
    dp = repo.func('region_rodded', 'RoddedRegion._calc_duct_power')
    # the value returned on the heated path, expanded flow-sensitively at the
    # return (through locals or directly): p_duct[lo:hi] / wall cell area
    rets_ = [r_ for r_ in walk_no_nested(dp.node)
             if isinstance(r_, ast.Return) and r_.value is not None
             and 'np.zeros' not in src(r_.value)]
    pd = None
    if len(rets_) == 1:
        pd = U.value_at(dp.node, rets_[0].value, rets_[0].lineno)
    # block d of the concatenated duct power vector: [d N, (d + 1) N); the
    # bounds are those of the slice actually read, whatever the locals that
    # carry them are called and however they are spelled (d N + N, ...)
    N_ = "self.subchannel.n_sc['duct']['total']"
    did = dp.params[-1]
    pvec = dp.params[-2] if len(dp.params) >= 2 else None
    sl = None
    if isinstance(pd, ast.BinOp) and isinstance(pd.op, ast.Div) \
            and isinstance(pd.left, ast.Subscript) \
            and isinstance(pd.left.value, ast.Name) \
            and pd.left.value.id == pvec \
            and isinstance(pd.left.slice, ast.Slice) \
            and pd.left.slice.step is None:
        sl = pd.left.slice
    elif isinstance(pd, ast.BinOp) and isinstance(pd.op, ast.Div) \
            and isinstance(pd.left, ast.Subscript) \
            and isinstance(pd.left.value, ast.Name) \
            and pd.left.value.id == pvec \
            and isinstance(pd.left.slice, ast.Call) \
            and isinstance(pd.left.slice.func, ast.Name) \
            and pd.left.slice.func.id == 'slice' \
            and len(pd.left.slice.args) == 2 \
            and not pd.left.slice.keywords \
            and not any(isinstance(a_, ast.Starred)
                        for a_ in pd.left.slice.args) \
            and not U.assigns_of(dp.node, 'slice') \
            and 'slice' not in dp.params:
        # x[slice(lo, hi)] is x[lo:hi] (the builtin; not re-bound here)
        sl = ast.Slice(lower=pd.left.slice.args[0],
                       upper=pd.left.slice.args[1], step=None)
    for nm_, bnd, want in (
            ('start', sl.lower if sl is not None else None,
             Rat.sym('d') * Rat.sym('N')),
            ('end', sl.upper if sl is not None else None,
             (Rat.sym('d') + Rat.const(1)) * Rat.sym('N'))):
        okb = False
        if bnd is not None:
            try:
                okb = from_ast(bnd, {did: 'd', N_: 'N'}).equals(want)
            except NotPolynomial:
                okb = False
        ctx.require(okb, 'C11.R4', dp, rets_[0] if rets_ else dp.node,
                    'duct %s reads block %s of the duct power vector (inner '
                    'duct first): %s = %s x cells per duct' % (
                        did, did, nm_, 'duct id' if nm_ == 'start'
                        else '(duct id + 1)'),
                    key='%s | power block %s' % (dp.full, nm_))
    ctx.require(sl is not None and ' '.join(src(pd.right).split()) ==
                "self.duct_params['q_area'][%s, self._duct_idx]" % did,
                'C11.R4', dp, rets_[0] if rets_ else dp.node,
                'volumetric heating = linear power / wall cell area',
                key=dp.full + ' | qtp')
    # ---- unrodded closed form (q = 0)
    fu = repo.func('region_unrodded',
                   'SingleNodeHomogeneous._calc_duct_temp')
    uat = {"self.coolant_params['htc']": 'hi', 'htc_gap': 'ho',
           'temp_gap': 'to', "self.temp['coolant_int']": 'ti',
           'self.duct.thermal_conductivity': 'k',
           'self.duct_thickness': 'th'}
    ifs = [n for n in fu.node.body if isinstance(n, ast.If)
           and src(n.test) == 'adiabatic']
    if len(ifs) != 1:
        raise AnalysisError('unrodded _calc_duct_temp: adiabatic branch')
    env = _branch_env(fu, ifs[0].orelse, uat)
    if not {'c1', 'c2', 'L_over_2'} <= set(env):
        raise AnalysisError('unrodded _calc_duct_temp: c1/c2/L_over_2')
    def geo_u(r):
        return r._subs_rat('th', a * Rat.const(2))
    c1, c2 = geo_u(env['c1']), geo_u(env['c2'])
    ctx.require(geo_u(env['L_over_2']).equals(a), 'C11.R4', fu, None,
                'L_over_2 = thickness / 2', key=fu.full + ' | L/2')
    Tin = c2 - c1 * a
    Tout = c2 + c1 * a
    ctx.require((hi * (ti - Tin)).equals(-k * c1), 'C11.R4', fu, ifs[0],
                'unrodded: inner flux h_in (t_in - T_s,in) must equal -k c1',
                key=fu.full + ' | inner flux')
    ctx.require((ho * (Tout - to)).equals(-k * c1), 'C11.R4', fu, ifs[0],
                'unrodded: outer flux h_out (T_s,out - t_gap) must equal '
                '-k c1', key=fu.full + ' | outer flux')
    ad = ifs[0].body
    ok = len(ad) == 2 and all(
        isinstance(s, ast.Assign) and src(s.value) ==
        "self.temp['coolant_int']" for s in ad) and \
        sorted(src(s.targets[0]) for s in ad) == \
        ["self.temp['duct_mw'][0, :]", "self.temp['duct_surf'][0, :, :]"]
    ctx.require(ok, 'C11.R4', fu, ad[0] if ad else fu.node,
                'unrodded adiabatic wall: no gradient (wall = coolant)',
                key=fu.full + ' | adiabatic')


# ---------------------------------------------------------------------------
# R6: which coolant does each wall face see

def _first_index(sub):
    sl = sub.slice
    return sl.elts[0] if isinstance(sl, ast.Tuple) else sl


def _int_eval(e, env):
    """Integer value of an index expression over env, or None."""
    try:
        return U.const_eval(e, env)
    except (ValueError, KeyError, TypeError):
        pass
    if isinstance(e, ast.Name) and e.id in env:
        return env[e.id]
    if isinstance(e, ast.BinOp) and isinstance(e.op, (ast.Add, ast.Sub)):
        l, r = _int_eval(e.left, env), _int_eval(e.right, env)
        if l is None or r is None:
            return None
        return l + r if isinstance(e.op, ast.Add) else l - r
    if src(e) in env:
        return env[src(e)]
    return None


def r6(ctx):
    repo = ctx.repo
    fi = repo.func('region_rodded', 'RoddedRegion._calc_duct_temp')
    lp = [n for n in walk_no_nested(fi.node) if isinstance(n, ast.For)
          and call_name(n.iter) == 'range' and 'n_duct' in src(n.iter)]
    if len(lp) != 1 or not isinstance(lp[0].target, ast.Name):
        raise AnalysisError('_calc_duct_temp: duct loop')
    iv = lp[0].target.id
    gap_params = set(fi.params[2:4])
    roles = {'t_in': 'inner', 'htc_in': 'inner', 't_out': 'outer',
             'htc_out': 'outer'}
    BYP = ("self.temp['coolant_byp']", "self.coolant_byp_params['htc']")
    INT = ("self.temp['coolant_int']", "self.coolant_int_params['htc']")
    seen_roles = set()
    for st in walk_no_nested(lp[0]):
        if not (isinstance(st, ast.Assign) and len(st.targets) == 1 and
                isinstance(st.targets[0], ast.Name) and
                st.targets[0].id in roles):
            continue
        name = st.targets[0].id
        role = roles[name]
        subs = [n for n in ast.walk(st.value) if isinstance(n, ast.Subscript)]
        byp = [n for n in subs if ' '.join(src(n.value).split()) in BYP]
        is_int = any(' '.join(src(n).split()) in INT for n in subs)
        is_gap = any(isinstance(n, ast.Name) and n.id in gap_params
                     for n in ast.walk(st.value))
        if not (byp or is_int or is_gap):
            continue                 # re-indexing of the value itself
        kind = 'byp' if byp else ('int' if is_int else 'gap')
        gs = U.guards(st)
        bad = None
        npts = 0
        for n in range(1, 7):
            for i in range(n):
                env = {iv: i, 'self.n_duct': n}
                ok = True
                for t, pol in gs:
                    v = U.eval_test(t, env)
                    if v is not None and v != pol:
                        ok = False
                if not ok:
                    continue
                npts += 1
                if role == 'inner':
                    want = ('int', None) if i == 0 else ('byp', i - 1)
                else:
                    want = ('gap', None) if i == n - 1 else ('byp', i)
                if kind != want[0]:
                    bad = bad or 'duct %d of %d takes its %s boundary ' \
                        'condition from %s, expected %s' % (
                            i, n, role, kind, want[0])
                    continue
                for b in byp:
                    v = _int_eval(_first_index(b), env)
                    if v != want[1] or not 0 <= v <= n - 2:
                        bad = bad or 'duct %d of %d: %s face reads bypass ' \
                            'gap %s via %s, expected gap %d' % (
                                i, n, role, v, src(b)[:50], want[1])
        seen_roles.add((name, kind))
        ctx.require(bad is None and npts > 0, 'C11.R6', fi, st,
                    bad or 'boundary-condition assignment is unreachable for '
                    'every duct count', note='%s <- %s (%d index points)'
                    % (name, kind, npts),
                    key='%s | %s from %s' % (fi.full, name, kind))
    need = {(a, 'byp') for a in roles} | {
        ('t_in', 'int'), ('htc_in', 'int'), ('t_out', 'gap'),
        ('htc_out', 'gap')}
    ctx.require(need <= seen_roles, 'C11.R6', fi, lp[0],
                'every wall face needs its three boundary-condition sources; '
                'missing %s' % sorted(need - seen_roles),
                key=fi.full + ' | boundary condition sources')
    # mirror relation in the bypass solvers
    for q in ('RoddedRegion._calc_coolant_byp_temp',
              'RoddedRegion._calc_coolant_byp_temp_stagnant'):
        f = repo.func('region_rodded', q)
        for lp2 in [n for n in walk_no_nested(f.node)
                    if isinstance(n, ast.For) and call_name(n.iter) == 'range'
                    and 'n_bypass' in src(n.iter)
                    and isinstance(n.target, ast.Name)]:
            jv = lp2.target.id
            faces = set()
            bad = None
            for n in walk_no_nested(lp2):
                if not isinstance(n, ast.Subscript):
                    continue
                base = ' '.join(src(n.value).split())
                if base == "self.temp['duct_surf']" and isinstance(
                        n.slice, ast.Tuple) and len(n.slice.elts) == 2:
                    d = _int_eval(n.slice.elts[0], {jv: 10})
                    fc = _int_eval(n.slice.elts[1], {jv: 10})
                    if (d, fc) not in ((10, 1), (11, 0)):
                        bad = bad or 'bypass gap j reads duct_surf[%s]: it ' \
                            'touches face 1 of duct j and face 0 of duct ' \
                            'j+1 only' % src(n.slice)
                    faces.add((d, fc))
                elif base == "self.temp['coolant_byp']" and isinstance(
                        n.ctx, ast.Load):
                    d = _int_eval(_first_index(n), {jv: 10})
                    if d != 10:
                        bad = bad or 'bypass gap j reads coolant_byp[%s]' \
                            % src(n.slice)
            if not faces:
                continue
            ctx.require(bad is None and faces == {(10, 1), (11, 0)},
                        'C11.R6', f, lp2, bad or 'a bypass gap must exchange '
                        'heat with both adjacent duct faces',
                        key=f.full + ' | faces of a bypass gap')
