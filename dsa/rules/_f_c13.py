"""C13.R8 -- the fuel-clad gap carries the pin heat through the pellet surface.

Clause (a necessary condition of "the gap temperature drop equals the
closed-form value for the heat that must cross it"): the temperature that
`PinModel.calc_fuel_surf_temp` reports satisfies the heat balance of the
pellet surface,

    K (T_f - T_ci) / dr  +  e sigma (T_f^4 - T_ci^4)  =  q_lin / (2 pi r_f),

with r_f the pellet outer radius (= clad inner radius - gap, the radius the
fuel shells are scaled with), dr the gap width, K a mean of gap-material
conductivities, and q_lin the linear power handed to the pin model.

How it is decided (exact algebra, no source forms).  The function is a
fixed-point iteration T_new = F(T_old) that stops when |T_new - T_old| is
within tolerance.  The rule executes the statements that lead to the loop and
one pass of the loop body symbolically over `poly.Rat` (every loop-assigned
name starts as a fresh symbol, conductivity evaluations are symbols), reads
the two iterates from the convergence test, and requires the rational-function
identity

    K (F(T) - T_ci) / dr + e sigma (T^4 - T_ci^4)  ==  q_lin / (2 pi (r_ci - dr))

for a K that is built from gap conductivities only: at convergence F(T) = T
and the identity *is* the balance above.  q and dz are bound to what
`calculate_temperatures` passes (q_lin * dz, dz).  Hoisting, renaming,
commuting, `+=`, helper methods (inlined by the evaluator), np.power, an
equivalent spelling of the pellet radius -- none of it changes the rational
function.  Companion instances: the value returned is the converged iterate;
without iterations (loop bypassed) and at zero power the result is exactly
the clad temperature; the constructor makes `fuel['r'][-1, 1]` the clad inner
radius minus `gap['dr']` -- algebraically for the guarded store, and on every
control-flow path between the zero-initialisation of the shell table and its
scaling (CFG must-pass-through); the Stefan-Boltzmann constant has its value.

Finding on the pinned tree (see notes/NOTES-F-C13.md): the store of the last
shell's outer fraction is guarded by `not params['r_frac'][-1] == 1.0`; for a
radius list that ends in 1.0 the last row stays [0, 0], the pellet radius the
gap model divides by is 0 and the fuel temperatures are inf / NaN whenever
gap_thickness > 0.
"""
import ast
from fractions import Fraction

from ..core import (AnalysisError, ancestors, call_name, const, src,
                    walk_no_nested)
from ..poly import Poly, Rat
from ..cfg import cfg_of
from .. import util as U

PROPS = ('C13',)
RULE = 'C13.R8'
SIGMA = 5.670374419e-8

_ABS = ('np.abs', 'abs', 'np.absolute', 'np.fabs', 'numpy.abs')
# conductivity look-ups of the pin model: source text -> kind
_KFUN = {"self.gap['k']": 'gap', "self.clad['k']": 'clad'}
_LAST_ROW = ("self.fuel['r'][-1]", "self.fuel['r'][-1, 1]",
             "self.fuel['r'][-1][1]")


def _s(n):
    return ' '.join(src(n).split())


class _Unmodelled(Exception):
    """A statement / shape the symbolic evaluator does not model."""


class _KFun:
    def __init__(self, kind):
        self.kind = kind


def _is_sym(r, prefix=''):
    """Name of the symbol if the Rat is one bare symbol (coefficient 1)."""
    if r.d == Poly.const(1) and len(r.n.t) == 1:
        (k, v), = r.n.t.items()
        if v == 1 and len(k) == 1 and k[0][1] == 1 and \
                k[0][0].startswith(prefix):
            return k[0][0]
    return None


def _symbols(r):
    return r.n.symbols() | r.d.symbols()


def _name_stores(stmts):
    out = set()
    for st in stmts:
        for n in ast.walk(st):
            if isinstance(n, ast.Name) and isinstance(n.ctx, (ast.Store,
                                                               ast.Del)):
                out.add(n.id)
    return out


class _Alg:
    """Symbolic execution of straight-line arithmetic over poly.Rat."""

    def __init__(self, repo, fi, atoms, ksyms, depth=0):
        self.repo, self.fi, self.atoms = repo, fi, atoms
        self.ksyms = ksyms          # symbol name -> kind of conductivity
        self.env = {}
        self.depth = depth

    # -- expressions --
    def conv(self, n):
        s = _s(n)
        if s in self.atoms:
            return self.atoms[s]
        if isinstance(n, ast.Name):
            v = self.env.get(n.id)
            if isinstance(v, Rat):
                return v
            if v is None and n.id in self.fi.mod.globals:
                try:
                    c = U.const_eval(self.fi.mod.globals[n.id])
                    if isinstance(c, (int, float)) and not isinstance(c, bool):
                        return Rat.const(Fraction(str(c)))
                except (ValueError, TypeError, ZeroDivisionError):
                    pass
            return Rat.sym('<%s>' % n.id)
        c = const(n)
        if isinstance(c, (int, float)) and not isinstance(c, bool):
            return Rat.const(Fraction(str(c)))
        if isinstance(n, ast.UnaryOp) and isinstance(n.op, ast.USub):
            return -self.conv(n.operand)
        if isinstance(n, ast.UnaryOp) and isinstance(n.op, ast.UAdd):
            return self.conv(n.operand)
        if isinstance(n, ast.BinOp):
            if isinstance(n.op, ast.Pow):
                return self._pow(n.left, n.right)
            l, r = self.conv(n.left), self.conv(n.right)
            if isinstance(n.op, ast.Add):
                return l + r
            if isinstance(n.op, ast.Sub):
                return l - r
            if isinstance(n.op, ast.Mult):
                return l * r
            if isinstance(n.op, ast.Div):
                if r.is_zero():
                    raise _Unmodelled('division by zero in `%s`' % s)
                return l / r
        if isinstance(n, ast.Call):
            return self._call(n)
        # anything else is an opaque quantity: it surfaces as a residual
        return Rat.sym('<%s>' % s)

    def _pow(self, base, exp):
        e = const(exp)
        if isinstance(e, float) and e == int(e):
            e = int(e)
        b = self.conv(base)
        if isinstance(e, int) and not isinstance(e, bool) and abs(e) <= 8:
            if e < 0 and b.is_zero():
                raise _Unmodelled('0 ** negative')
            return b ** e
        return Rat.sym('pow[%r, %s]' % (b, _s(exp)))

    def _kfun(self, f):
        k = _KFUN.get(_s(f))
        if k:
            return _KFun(k)
        if isinstance(f, ast.Name) and isinstance(self.env.get(f.id), _KFun):
            return self.env[f.id]
        return None

    def _call(self, n):
        kf = self._kfun(n.func)
        if kf is not None and len(n.args) == 1 and not n.keywords:
            name = 'k_%s[%r]' % (kf.kind, self.conv(n.args[0]))
            self.ksyms[name] = kf.kind
            return Rat.sym(name)
        nm = call_name(n) or ''
        if nm in ('np.power', 'numpy.power') and len(n.args) == 2 \
                and not n.keywords:
            return self._pow(n.args[0], n.args[1])
        if nm in ('float', 'np.array', 'np.asarray', 'np.float64') \
                and len(n.args) == 1 and not n.keywords:
            return self.conv(n.args[0])
        if nm in ('np.multiply', 'numpy.multiply') and len(n.args) == 2 \
                and not n.keywords:
            return self.conv(n.args[0]) * self.conv(n.args[1])
        callee = None
        if nm.startswith('self.') and nm.count('.') == 1 and \
                self.fi.cls is not None:
            callee = self.repo.lookup_method(self.fi.cls, nm[5:])
            drop = 1
        elif isinstance(n.func, ast.Name) and n.func.id in self.fi.mod.funcs:
            callee = self.fi.mod.funcs[n.func.id]
            drop = 0
        if callee is not None and self.depth < 3 and not callee.is_property:
            v = self._inline(callee, n, drop)
            if v is not None:
                return v
        return Rat.sym('<%s>' % _s(n))

    def _inline(self, callee, call, drop):
        a = callee.node.args
        if a.vararg or a.kwarg or a.kwonlyargs or any(
                isinstance(x, ast.Starred) for x in call.args):
            return None
        params = callee.params[drop:]
        if len(call.args) > len(params):
            return None
        sub = _Alg(self.repo, callee, self.atoms, self.ksyms, self.depth + 1)
        for p, x in zip(params, call.args):
            sub.env[p] = self.value(x)
        for k in call.keywords:
            if k.arg not in params or k.arg in sub.env:
                return None
            sub.env[k.arg] = self.value(k.value)
        defaults = dict(zip(reversed(callee.params), reversed(a.defaults)))
        for p in params:
            if p not in sub.env:
                if p not in defaults:
                    return None
                sub.env[p] = sub.value(defaults[p])
        body = list(callee.node.body)
        if body and isinstance(body[0], ast.Expr) and isinstance(
                body[0].value, ast.Constant):
            body = body[1:]
        if not body or not isinstance(body[-1], ast.Return) or \
                body[-1].value is None:
            return None
        try:
            for st in body[:-1]:
                sub.exec(st)
            return sub.conv(body[-1].value)
        except _Unmodelled:
            return None

    def value(self, n):
        """Rat, or a conductivity-function reference."""
        kf = self._kfun(n)
        return kf if kf is not None else self.conv(n)

    # -- statements --
    def exec(self, st):
        if isinstance(st, (ast.Expr, ast.Pass)):
            return
        if isinstance(st, ast.Assign) and len(st.targets) == 1:
            t = st.targets[0]
            if isinstance(t, ast.Name):
                self.env[t.id] = self.value(st.value)
                return
            if isinstance(t, ast.Tuple) and isinstance(st.value, ast.Tuple) \
                    and len(t.elts) == len(st.value.elts) and all(
                        isinstance(x, ast.Name) for x in t.elts):
                vals = [self.value(v) for v in st.value.elts]
                for x, v in zip(t.elts, vals):
                    self.env[x.id] = v
                return
        if isinstance(st, ast.AugAssign) and isinstance(st.target, ast.Name):
            cur = self.conv(ast.Name(id=st.target.id, ctx=ast.Load()))
            v = self.conv(st.value)
            if isinstance(st.op, ast.Add):
                r = cur + v
            elif isinstance(st.op, ast.Sub):
                r = cur - v
            elif isinstance(st.op, ast.Mult):
                r = cur * v
            elif isinstance(st.op, ast.Div) and not v.is_zero():
                r = cur / v
            else:
                raise _Unmodelled(_s(st)[:80])
            self.env[st.target.id] = r
            return
        if isinstance(st, ast.If):
            inner = st.body + st.orelse
            jumps = any(isinstance(x, (ast.Break, ast.Continue))
                        for s in inner for x in ast.walk(s))
            if not _name_stores(inner) and not jumps:
                return      # error exits / early returns of other cases
        raise _Unmodelled(_s(st)[:80])

    def run(self, stmts):
        for st in stmts:
            self.exec(st)


# ---------------------------------------------------------------------------

def _chain(fn, node):
    """Statements executed before / after `node` on the way from the function
    entry to it and from it to the function end, through enclosing ifs."""
    pre, post = [], []
    child = node
    for a in ancestors(node):
        hit = False
        for f in ('body', 'orelse', 'finalbody'):
            b = getattr(a, f, None)
            if isinstance(b, list) and any(x is child for x in b):
                i = [k for k, x in enumerate(b) if x is child][0]
                pre = b[:i] + pre
                post = post + b[i + 1:]
                hit = True
        if a is fn:
            return pre, post
        if not hit or not isinstance(a, ast.If):
            break
        child = a
    raise _Unmodelled('the iteration is nested in a construct other than if')


def _difference(test):
    """(A, B) of the difference A - B of two iterates in the loop test."""
    subs = [n for n in ast.walk(test) if isinstance(n, ast.BinOp)
            and isinstance(n.op, ast.Sub)]
    inabs = [n for c in ast.walk(test) if isinstance(c, ast.Call)
             and call_name(c) in _ABS and c.args
             for n in [c.args[0]] if n in subs]
    for n in inabs + subs:
        if isinstance(n.left, ast.Name) and isinstance(n.right, ast.Name):
            return n.left, n.right
    return None


def _geometry(ctx, atoms):
    """fuel['r'][-1, 1] == clad['r'][0] - gap['dr'] by construction."""
    init = ctx.repo.func('pin_model', 'PinModel.__init__')
    scale = [st for t, st in U.stores(init.node)
             if _s(t) == "self.fuel['r']" and isinstance(st, ast.AugAssign)
             and isinstance(st.op, ast.Mult)]
    gdr = [st for t, st in U.stores(init.node)
           if _s(t) == "self.gap['dr']" and isinstance(st, ast.Assign)]
    last = [st for t, st in U.stores(init.node)
            if _s(t) in _LAST_ROW and isinstance(st, ast.Assign)]
    zero = [st for t, st in U.stores(init.node)
            if _s(t) == "self.fuel['r']" and isinstance(st, ast.Assign)]
    if len(scale) != 1 or len(gdr) != 1 or not last or len(zero) != 1:
        raise AnalysisError(
            "PinModel.__init__: expected one `self.fuel['r'] = <zeros>`, one "
            "`self.fuel['r'] *= R`, one `self.gap['dr'] = g` and a store of "
            "the last shell `self.fuel['r'][-1] = [.., 1.0]` (found %d / %d "
            "/ %d / %d)" % (len(zero), len(scale), len(gdr), len(last)))
    g = _s(U.expand_locals(init.node, gdr[0].value, before=gdr[0].lineno))
    at = dict(atoms)
    at[g] = Rat.sym('dr')
    ev = _Alg(ctx.repo, init, at, {})
    try:
        R = ev.conv(U.expand_locals(init.node, scale[0].value,
                                    before=scale[0].lineno))
    except _Unmodelled as e:
        raise AnalysisError('PinModel.__init__: pellet radius: %s' % e)
    want = Rat.sym('rci') - Rat.sym('dr')
    outer_one = True
    for st in last:
        v = st.value
        if _s(st.targets[0]) == "self.fuel['r'][-1]":
            outer_one &= isinstance(v, (ast.List, ast.Tuple)) and \
                len(v.elts) == 2 and const(v.elts[1]) == 1.0
        else:
            outer_one &= const(v) == 1.0
    ctx.require(R.equals(want) and outer_one, RULE, init, scale[0],
                "the pellet outer radius self.fuel['r'][-1, 1] must be the "
                "clad inner radius minus the gap width stored in "
                "self.gap['dr'] (outer fraction 1.0 scaled with %s; gap "
                "width %s): the gap model divides the pin heat by this "
                "radius" % (_s(scale[0].value), g),
                note='R = rci - dr', key='%s | pellet outer radius = clad '
                'inner radius - gap' % init.full)
    # ... on every path: between the zero-initialisation of the table and
    # its scaling the last row must have been given its outer fraction
    cfg = cfg_of(init)
    nz, ns = cfg.node_of(zero[0]), cfg.node_of(scale[0])
    nl = [cfg.node_of(st) for st in last]
    if nz is None or ns is None or any(x is None for x in nl):
        raise AnalysisError('PinModel.__init__: shell table statements not '
                            'in the control-flow graph')
    bypass = cfg.path_exists(nz, ns, avoid=nl)
    gs = [('' if pol else 'not ') + '(%s)' % _s(t)
          for st in last for t, pol in U.guards(st)]
    ctx.require(not bypass, RULE, init, last[0],
                "on every path through PinModel.__init__ the last row of "
                "self.fuel['r'] must receive the outer fraction 1.0 before "
                "the table is scaled: the store is guarded by `%s`; on the "
                "other path the row keeps its initial zeros, so the pellet "
                "surface radius self.fuel['r'][-1, 1] read by the gap model "
                "is 0 (the gap heat flux divides by it: inf / NaN fuel "
                "temperatures with gap_thickness > 0)" % ' and '.join(gs),
                key='%s | last shell outer radius set on every path | '
                'guard %s' % (init.full, ' and '.join(gs)))


def _log_ratio(ctx, atoms):
    """self.gap['ln_rc_rf'] == ln(r_ci / (r_ci - gap)) (only needed when the
    gap model uses the cylindrical conductance)."""
    init = ctx.repo.func('pin_model', 'PinModel.__init__')
    st = [st for t, st in U.stores(init.node)
          if _s(t) == "self.gap['ln_rc_rf']" and isinstance(st, ast.Assign)]
    gdr = [st for t, st in U.stores(init.node)
           if _s(t) == "self.gap['dr']" and isinstance(st, ast.Assign)]
    if len(st) != 1 or len(gdr) != 1:
        raise AnalysisError("PinModel.__init__: self.gap['ln_rc_rf'] store")
    at = dict(atoms)
    at[_s(U.expand_locals(init.node, gdr[0].value,
                          before=gdr[0].lineno))] = Rat.sym('dr')
    v = U.expand_locals(init.node, st[0].value, before=st[0].lineno)
    ok = isinstance(v, ast.Call) and call_name(v) in ('np.log', 'math.log') \
        and len(v.args) == 1
    if ok:
        try:
            x = _Alg(ctx.repo, init, at, {}).conv(v.args[0])
            ok = x.equals(Rat.sym('rci') / (Rat.sym('rci') - Rat.sym('dr')))
        except _Unmodelled:
            ok = False
    ctx.require(ok, RULE, init, st[0],
                "self.gap['ln_rc_rf'] must be ln(clad inner radius / pellet "
                "radius): the gap model uses it as the cylindrical "
                "conductance", key='%s | ln(r_ci / r_f)' % init.full)


def run(ctx):
    ctx.decided.append(
        'R8 the fuel surface temperature calc_fuel_surf_temp converges to '
        'satisfies the heat balance of the pellet surface: conduction '
        'K (T_f - T_ci) / dr plus radiation e sigma (T_f^4 - T_ci^4) equals '
        'q_lin / (2 pi r_pellet), r_pellet = clad inner radius - gap (exact '
        'rational-function identity on the symbolically executed iteration; '
        'K any mean of gap conductivities); the converged iterate is what '
        'is returned; no iterations + zero power gives the clad temperature')
    repo = ctx.repo
    fs = repo.func('pin_model', 'PinModel.calc_fuel_surf_temp')
    ct = repo.func('pin_model', 'PinModel.calculate_temperatures')
    if len(fs.params) < 4 or len(ct.params) < 5:
        raise AnalysisError('%s: calc_fuel_surf_temp(self, q, dz, T_clad, ..)'
                            ' / calculate_temperatures(self, q_lin, T_cool, '
                            'htc, dz, ..) changed their parameters' % RULE)
    rci, dr = Rat.sym('rci'), Rat.sym('dr')
    rf = rci - dr
    atoms = {'np.pi': Rat.sym('pi'), 'math.pi': Rat.sym('pi'),
             'numpy.pi': Rat.sym('pi'),
             "self.gap['dr']": dr, "self.clad['r'][0]": rci,
             "self.fuel['r'][-1, 1]": rf, "self.fuel['r'][-1][1]": rf,
             "self.fuel['e']": Rat.sym('e'),
             "self.gap['ln_rc_rf']": Rat.sym('L')}
    _geometry(ctx, atoms)

    # Stefan-Boltzmann constant
    sb = fs.mod.globals.get('_SBCONST')
    try:
        sbv = U.const_eval(sb) if sb is not None else None
    except ValueError:
        sbv = None
    if sb is None or not isinstance(sbv, float):
        raise AnalysisError('%s: module constant _SBCONST vanished' % RULE)
    ctx.require(abs(sbv / SIGMA - 1.0) < 5e-4, RULE, 'dassh/pin_model.py:%d'
                % sb.lineno, sb, 'the Stefan-Boltzmann constant of the gap '
                'radiation term must be 5.6704e-8 W/m2K4 (found %r)' % sbv,
                key='dassh.pin_model | _SBCONST value')
    sigma = Rat.const(Fraction(str(sbv)))

    # what the caller passes: q = q_lin * dz, dz = dz
    calls = [c for c in walk_no_nested(ct.node) if isinstance(c, ast.Call)
             and call_name(c) == 'self.calc_fuel_surf_temp']
    if len(calls) != 1:
        raise AnalysisError('%s: calculate_temperatures must call '
                            'calc_fuel_surf_temp once (found %d calls)'
                            % (RULE, len(calls)))
    bound = {}
    for p, a in zip(fs.params[1:], calls[0].args):
        bound[p] = a
    for k in calls[0].keywords:
        bound[k.arg] = k.value
    qn, dzn, tcn = fs.params[1:4]
    if qn not in bound or dzn not in bound:
        raise AnalysisError('%s: call of calc_fuel_surf_temp without q / dz'
                            % RULE)
    cev = _Alg(repo, ct, dict(atoms), {})
    cev.atoms[ct.params[1]] = Rat.sym('ql')
    cev.atoms[ct.params[4]] = Rat.sym('dz')
    keep = tuple(ct.params)
    try:
        qv = cev.conv(U.value_at(ct.node, bound[qn], calls[0].lineno,
                                 keep=keep))
        dzv = cev.conv(U.value_at(ct.node, bound[dzn], calls[0].lineno,
                                  keep=keep))
    except _Unmodelled as e:
        raise AnalysisError('%s: arguments of calc_fuel_surf_temp: %s'
                            % (RULE, e))

    # the iteration
    loops = [n for n in walk_no_nested(fs.node) if isinstance(n, ast.While)]
    if len(loops) != 1:
        raise AnalysisError('%s: calc_fuel_surf_temp: expected one '
                            'conductivity iteration (while), found %d'
                            % (RULE, len(loops)))
    w = loops[0]
    ksyms = {}
    ev = _Alg(repo, fs, atoms, ksyms)
    Tc = Rat.sym('Tc')
    ev.env[qn], ev.env[dzn], ev.env[tcn] = qv, dzv, Tc
    diff = _difference(w.test)
    try:
        pre, post = _chain(fs.node, w)
        ev.run(pre)
        env0 = dict(ev.env)
        carried = sorted(_name_stores(w.body))
        for x in carried:
            ev.env[x] = Rat.sym('@' + x)
        ev.run(w.body)
        if w.orelse:
            raise _Unmodelled('while ... else')
        if diff is None:
            raise _Unmodelled('the convergence test `%s` does not compare '
                              'two named iterates' % _s(w.test))
        a_end, b_end = ev.conv(diff[0]), ev.conv(diff[1])
    except _Unmodelled as e:
        raise AnalysisError('%s: calc_fuel_surf_temp has a shape the '
                            'algebraic evaluator does not model: %s'
                            % (RULE, e))
    told = _is_sym(b_end, '@')
    F, upd = a_end, diff[0].id
    if told is None:
        told = _is_sym(a_end, '@')
        F, upd = b_end, diff[1].id
    if told is None:
        raise AnalysisError(
            '%s: calc_fuel_surf_temp: neither side of the convergence test '
            '`%s` is the iterate the other one was computed from' % (
                RULE, _s(w.test)))
    T = Rat.sym(told)
    upd_st = [st for st in w.body if upd in _name_stores([st])]
    site = upd_st[-1] if upd_st else w

    # --- the heat balance at the pellet surface
    two, pi = Rat.const(2), Rat.sym('pi')
    e = Rat.sym('e')
    want = Rat.sym('ql') / (two * pi * rf)
    rad = e * sigma * (T ** 4 - Tc ** 4)

    def pure_gap(r):
        sy = _symbols(r)
        return bool(sy) and all(ksyms.get(x) == 'gap' for x in sy)

    cands = []
    for x in carried + sorted(ev.env):
        v = ev.env.get(x)
        if isinstance(v, Rat) and pure_gap(v) and not any(
                v.equals(c) for c in cands):
            cands.append(v)
    gk = sorted(k for k, kind in ksyms.items() if kind == 'gap')
    for i, x in enumerate(gk):
        for y in gk[i:]:
            v = (Rat.sym(x) + Rat.sym(y)) / two
            if not any(v.equals(c) for c in cands):
                cands.append(v)
    # gap conductance per unit pellet surface: K / dr (slab, "hb = k/dr" of
    # the pinned tree) or the exact cylindrical K / (r_f ln(r_ci / r_f))
    L = Rat.sym('L')
    widths = (('slab k/dr', dr), ('cylindrical k/(r_f ln(r_ci/r_f))', rf * L))
    found = None
    for wname, wd in widths:
        for K in cands:
            if (K * (F - Tc) / wd + rad - want).is_zero():
                found = (K, wname)
                break
        if found:
            break
    if found and found[1] != widths[0][0]:
        _log_ratio(ctx, atoms)
    what = ''
    if found is None:
        hint = ''
        if cands:
            got = cands[0] * (F - Tc) / dr + rad
            radii = {'rci': "the clad inner radius self.clad['r'][0]"}
            for sname in sorted(_symbols(got)):
                if "['r']" in sname or "['rm']" in sname:
                    radii[sname] = '`%s`' % sname.strip('<>')
            for sname, txt in radii.items():
                if (got * two * pi * Rat.sym(sname)
                        - Rat.sym('ql')).is_zero():
                    hint = ' -- the heat flux is referred to %s, not to ' \
                           'the pellet surface' % txt
            if not hint:
                res = got - want
                hint = ' -- residual numerator: %s' % repr(res.n)[:160]
        else:
            hint = ' -- no conductivity of the gap material enters the ' \
                   'iterate'
        what = ('the gap iteration `%s` must converge to the heat balance of '
                'the pellet surface, k (T_f - T_ci) / dr + e sigma (T_f^4 - '
                'T_ci^4) = q_lin / (2 pi r_pellet) with r_pellet = '
                "self.fuel['r'][-1, 1] (clad inner radius - gap) and k a "
                'mean of gap conductivities: all of the pin heat leaves '
                'through the pellet surface%s' % (_s(site)[:120], hint))
    ctx.require(found is not None, RULE, fs, site, what,
                note='identity holds with K = %s, conductance %s' % (
                    (repr(found[0].n), found[1]) if found else ('', '')),
                key='%s | gap heat balance at the pellet surface' % fs.full)

    # --- what is returned is the converged iterate
    rets = [st for st in post if isinstance(st, ast.Return)]
    if not rets or rets[0].value is None:
        raise AnalysisError('%s: calc_fuel_surf_temp: no return after the '
                            'iteration' % RULE)
    ret = rets[0]
    tail = post[:[k for k, st in enumerate(post) if st is ret][0]]
    conv_env = {}
    for x, v in ev.env.items():
        if isinstance(v, Rat) and (v.equals(a_end) or v.equals(b_end)):
            v = T
        conv_env[x] = v
    try:
        ev.env = conv_env
        ev.run(tail)
        r_conv = ev.conv(ret.value)
        ev.env = env0
        ev.run(tail)
        r_zero = ev.conv(ret.value)
    except _Unmodelled as e:
        raise AnalysisError('%s: calc_fuel_surf_temp: statements after the '
                            'iteration: %s' % (RULE, e))
    ctx.require(r_conv.equals(T), RULE, fs, ret,
                'calc_fuel_surf_temp must return the converged iterate of '
                'the gap iteration (one of the two temperatures its '
                'convergence test `%s` compares); `%s` is something else'
                % (_s(w.test), _s(ret)),
                key='%s | returns the converged iterate' % fs.full)
    d0 = r_zero - Tc
    n0 = d0.n.subs('ql', Poly())
    den0 = d0.d.subs('ql', Poly())
    ctx.require(n0.is_zero() and not den0.is_zero(), RULE, fs, ret,
                'at zero power the fuel surface temperature must be exactly '
                'the clad inner temperature: the first iterate (returned '
                'when the iteration is bypassed) minus T_clad does not '
                'vanish for q = 0 (numerator %s)' % repr(n0)[:160],
                key='%s | first iterate at zero power' % fs.full)
    ctx.min_instances(RULE, 6)
