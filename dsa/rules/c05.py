"""C05 -- axial mesh finite, monotone, exact on boundaries, within limit."""
import ast

from ..core import (AnalysisError, access_path, const, find_all, match, short,
                    src, walk_no_nested, parent, call_name)
from ..cfg import cfg_of
from .. import util as U
from .. import dataflow


def run(ctx):
    ctx.decided += [
        'R1 termination: the only unbounded loop of the mesh builder advances '
        'by the value of _check_dz; a non-positive step requirement is '
        'rejected by a terminating guard on every path between the last '
        'definition of req_dz and the mesh loop; req_dz has one writer',
        'R2 _check_dz returns req_dz or the (positive) distance to the first '
        'strictly-crossed boundary (on the returned values: abstract '
        'interpretation with strict inequalities and first / none knowledge, '
        'rules/_f_c04.py step_clause; the recorded spelling is also matched '
        'as a form)',
        'R3 the boundary set merges all four sources, rounded and uniqued; '
        'core length is its last element (finite-domain evaluation on model '
        'reactors with symbolic mesh points, rules/_c05_r3.py)',
        'R4 the requirement is the floored minimum; the user value replaces '
        'it only when not larger; the cap only lowers it',
        'R5 premise shared with C04.R1-R3: the per-cell step criteria that '
        'are aggregated into the requirement are the reciprocals of the '
        'coefficient sums of the update operators, so that the steps the '
        'mesh builder produces do not exceed what the march needs']
    ctx.not_decided += ['round-off behaviour of nearly coincident bounds',
                        'numerical value of the stability requirement (C04)']
    r1(ctx)
    r2(ctx)
    r3(ctx)
    r4(ctx)
    # premise of "no step exceeds the stability requirement": the
    # requirement is the one the update operators need (C04.R1-R3)
    from . import c04
    sub = ctx.alias({'C04.R1': 'C05.R5', 'C04.R2': 'C05.R5',
                     'C04.R3': 'C05.R5'})
    c04.r1(sub)
    c04.r2(sub)
    c04.r3(sub)
    ctx.min_instances('C05.R5', 45)
    ctx.min_instances('C05.R1', 5)
    ctx.min_instances('C05.R2', 4)
    ctx.min_instances('C05.R3', 6)
    ctx.min_instances('C05.R4', 5)


def _branch_entries(g, tnode):
    """[(polarity, first node of branch)] of an if-test node."""
    out = []
    for s in tnode.succ:
        if s.id in tnode.exc_succ:
            continue
        out.append((dataflow._branch_of(tnode, s), s))
    return out


def r1(ctx):
    repo = ctx.repo
    # who may write req_dz
    writers = {}
    for fi in repo.all_funcs():
        for t, st in U.stores(fi.node):
            if isinstance(t, ast.Attribute) and t.attr == 'req_dz':
                writers.setdefault(fi.full, []).append(st)
    fo = repo.func('reactor', 'Reactor._setup_overall_axial_mesh_req')
    ctx.require(set(writers) == {fo.full}, 'C05.R1', fo, fo.node,
                'req_dz must be written only by _setup_overall_axial_mesh_req '
                '(writers: %s)' % sorted(writers),
                key='dassh.reactor | req_dz writers')
    # the loop
    zp = repo.func('reactor', 'Reactor._setup_zpts')
    loops = [n for n in walk_no_nested(zp.node)
             if isinstance(n, (ast.While, ast.For))]
    wl = [l for l in loops if isinstance(l, ast.While)]
    if len(wl) != 1:
        raise AnalysisError('_setup_zpts: expected exactly one while loop')
    w = wl[0]
    cp = U.compare_parts(w.test)
    ok = cp is not None and cp[1] in (ast.Lt,) and src(cp[0]) == 'z[-1]' \
        and src(cp[2]) == 'self.core_length'
    ctx.require(ok, 'C05.R1', zp, w.test, 'mesh loop must run while the last '
                'plane is strictly below the core length',
                key=zp.full + ' | loop condition')
    # every iteration appends z[-1] + (value of _check_dz(z[-1]))
    # forms: the step is appended to dz and read back as dz[-1], or held in
    # a local that is both appended to dz and added to z[-1]
    apps = find_all('z.append(np.around(z[-1] + Q_s, 12))', w, 'expr')
    dzs = find_all('dz.append(Q_d)', w, 'expr')
    ok = len(apps) == 1 and len(dzs) == 1 and not U.guards(apps[0][0], stop=w)\
        and not U.guards(dzs[0][0], stop=w) and \
        dzs[0][0].lineno < apps[0][0].lineno
    if ok:
        step, app = apps[0][1]['Q_s'], dzs[0][1]['Q_d']
        call = 'self._check_dz(z[-1])'
        if src(step) == 'dz[-1]':
            ok = src(app) == call
        elif isinstance(step, ast.Name) and src(app) == step.id:
            d = [a_ for a_ in U.assigns_of(w, step.id)]
            ok = len(d) == 1 and isinstance(d[0], ast.Assign) and \
                src(d[0].value) == call and not U.guards(d[0], stop=w) and \
                d[0].lineno < dzs[0][0].lineno
        else:
            ok = False
    ctx.require(ok, 'C05.R1', zp, w, 'each iteration must append the next '
                'plane z[-1] + _check_dz(z[-1]) unconditionally',
                key=zp.full + ' | advance')
    zinit = U.single_def(zp.node, 'z') if len(U.assigns_of(zp.node, 'z')) == 1\
        else None
    ctx.require(zinit is not None and src(zinit) == '[0.0]', 'C05.R1', zp,
                zinit if zinit is not None else zp.node,
                'the mesh must start at 0.0', key=zp.full + ' | start')
    # guard: between the stores of req_dz and the normal exit of the writer
    g = cfg_of(fo)
    stores = [g.node_of(st) for st in writers.get(fo.full, [])]
    tests = [n for n in g.nodes if n.kind == 'test' and
             isinstance(n.stmt, ast.If) and 'self.req_dz' in src(n.expr)]
    guard = None
    for t in tests:
        # concrete polarity at req_dz = 0 and at a tiny negative value
        v0 = U.eval_test(t.expr, {'self.req_dz': 0.0})
        vneg = U.eval_test(t.expr, {'self.req_dz': -1e-6})
        vpos = U.eval_test(t.expr, {'self.req_dz': 1e-3})
        if v0 is None or vneg is None or v0 != vneg or vpos == v0:
            continue
        for pol, first in _branch_entries(g, t):
            if pol is None:
                continue
            if pol == v0 and first is not g.exit and \
                    not g.path_exists(first, g.exit) and first is not g.exit \
                    and g.exit.id not in g.reachable_from(first):
                if all(s is not None and g.must_pass(s, [t]) for s in stores):
                    guard = t
    ctx.require(guard is not None, 'C05.R1', fo, fo.node,
                'no terminating guard rejects a step requirement <= 0 after '
                'it is chosen: floor(min_dz * 1e6) / 1e6 is 0 for any '
                'requirement below 1e-6 m (and the schema admits '
                'axial_mesh_size = 0), and the loop in _setup_zpts then never '
                'advances (hang)', key=fo.full + ' | positive step guard')
    # order in Reactor.__init__
    init = repo.func('reactor', 'Reactor.__init__')
    gi = cfg_of(init)
    a = gi.find(lambda n: isinstance(n, ast.Call) and call_name(n) ==
                'self._setup_overall_axial_mesh_req')
    b = gi.find(lambda n: isinstance(n, ast.Call) and call_name(n) ==
                'self._setup_zpts')
    ok = len(a) == 1 and len(b) == 1 and gi.dominates(a[0], b[0])
    ctx.require(ok, 'C05.R1', init, b[0].stmt if b else init.node,
                'the step requirement must be fixed before the planes are '
                'generated', key=init.full + ' | order req_dz -> zpts')
    # every method that contributes a requirement (stores / appends to
    # min_dz) is called before the requirements are reduced to req_dz
    rc = repo.cls('reactor', 'Reactor')
    writers = []
    for nm, m in rc.methods.items():
        if nm in ('__init__', '_setup_overall_axial_mesh_req'):
            continue
        wr = any(isinstance(c_, ast.Call) and isinstance(
            c_.func, ast.Attribute) and c_.func.attr in ('append', 'extend',
                                                         'insert')
                 and "self.min_dz['dz']" in src(c_.func.value)
                 for c_ in walk_no_nested(m.node)) or any(
                     "self.min_dz" in src(t_) for t_, _s in U.stores(m.node))
        if wr:
            writers.append(nm)
    ctx.require(len(writers) >= 2, 'C05.R1', init, init.node,
                'both the assemblies and the inter-assembly gap must '
                'contribute a step requirement to min_dz (contributors '
                'found: %s)' % writers,
                key=init.full + ' | contributors to min_dz')
    for nm in sorted(writers):
        w_ = gi.find(lambda n, nm=nm: isinstance(n, ast.Call) and
                     call_name(n) == 'self.' + nm)
        ok = len(w_) >= 1 and len(a) == 1 and all(
            gi.dominates(x, a[0]) for x in w_)
        ctx.require(ok, 'C05.R1', init, a[0].stmt if a else init.node,
                    'self.%s() contributes a step requirement (min_dz) and '
                    'must run before the requirements are reduced to req_dz '
                    'in _setup_overall_axial_mesh_req: a requirement added '
                    'later (e.g. the gap\'s) is ignored by the mesh' % nm,
                    key='%s | %s before reduction' % (init.full, nm))
    # all call sites of _setup_zpts
    sites = [(f, c) for f in repo.all_funcs()
             for c in U.attr_calls(f.node, '_setup_zpts')]
    ctx.require(len(sites) == 1, 'C05.R1', init, None,
                '_setup_zpts has %d call sites (expected the one in '
                'Reactor.__init__)' % len(sites),
                key='dassh.reactor | _setup_zpts call sites')


def _first_true_index(e, name):
    """e is an accepted spelling of 'index of the first True of `name`'."""
    if isinstance(e, ast.Call) and call_name(e) == 'int' and len(e.args) == 1:
        e = e.args[0]
    s = ' '.join(src(e).split())
    forms = ('np.where(%s)[0][0]', 'np.nonzero(%s)[0][0]',
             'np.flatnonzero(%s)[0]', 'np.argmax(%s)', '%s.index(True)',
             'list(%s).index(True)', 'np.where(%s)[0].min()',
             'np.min(np.where(%s)[0])', 'min(np.where(%s)[0])')
    return any(s == f % name for f in forms)


def _r2_values(ctx):
    """The clause of R2 decided on the values `_check_dz` returns
    (rules/_f_c04.py: step_clause): every returned step is req_dz or bound -
    z, at most req_dz, positive, and no boundary lies strictly inside (z, z +
    step).  Fails closed when that analysis is not there."""
    try:
        from ._f_c04 import step_clause
    except ImportError:
        raise AnalysisError('C05.R2: the value-based analysis of _check_dz '
                            '(rules/_f_c04.py: step_clause) is missing')
    return step_clause(ctx, 'C05.R2')


def _r2_recorded_spelling(fi):
    """`_check_dz` is written the recorded way: a mask comprehension
    `cross_boundary` over self.axial_bnds whose entries compare z and z +
    self.req_dz with the element, an index `crossed_bound` into it, and the
    two returns `self.req_dz` / `np.around(self.axial_bnds[..] - z, 12)`.
    Only which comparison operators and which index are used is left open
    (that is what the form rule decides)."""
    cb = U.single_def(fi.node, 'cross_boundary')
    if not (isinstance(cb, ast.ListComp) and len(cb.generators) == 1 and
            src(cb.generators[0].iter) == 'self.axial_bnds' and
            isinstance(cb.generators[0].target, ast.Name) and
            not cb.generators[0].ifs):
        return False
    bi = cb.generators[0].target.id
    conj = cb.elt.values if isinstance(cb.elt, ast.BoolOp) and isinstance(
        cb.elt.op, ast.And) else [cb.elt]
    for c in conj:
        cp = U.compare_parts(c)
        if cp is None or {src(cp[0]), src(cp[2])} not in (
                {'z', bi}, {'z + self.req_dz', bi}):
            return False
    if U.single_def(fi.node, 'crossed_bound') is None:
        return False
    rets = [n for n in walk_no_nested(fi.node) if isinstance(n, ast.Return)]
    return len(rets) == 2 and all(
        r.value is not None and (
            src(r.value) == 'self.req_dz' or match(
                'np.around(self.axial_bnds[crossed_bound] - z, 12)',
                r.value) is not None) for r in rets)


def r2(ctx):
    fi = ctx.repo.func('reactor', 'Reactor._check_dz')
    # the clause on values, whatever the spelling
    _r2_values(ctx)
    # the recorded spelling (mask comprehension, any(), first true index) is
    # also matched as a form; any other spelling is decided on values alone
    if not _r2_recorded_spelling(fi):
        return
    rets = [n for n in walk_no_nested(fi.node) if isinstance(n, ast.Return)]
    ok_rets = True
    for r in rets:
        s = src(r.value)
        if s == 'self.req_dz':
            continue
        b = match('np.around(self.axial_bnds[Q_k] - z, 12)', r.value)
        if b is None:
            ok_rets = False
            ctx.violation('C05.R2', fi, r, '_check_dz may only return req_dz '
                          'or the rounded distance to a boundary')
    ctx.require(ok_rets and len(rets) == 2, 'C05.R2', fi, fi.node,
                '_check_dz must return req_dz or bound - z',
                key=fi.full + ' | returns')
    # crossing test
    cb = U.single_def(fi.node, 'cross_boundary')
    ok = isinstance(cb, ast.ListComp) and len(cb.generators) == 1 and \
        src(cb.generators[0].iter) == 'self.axial_bnds'
    if not ok:
        raise AnalysisError('_check_dz: cross_boundary comprehension shape')
    bi = src(cb.generators[0].target)
    elt = cb.elt
    conj = elt.values if isinstance(elt, ast.BoolOp) and isinstance(
        elt.op, ast.And) else [elt]
    lower = upper = None
    for c in conj:
        cp = U.compare_parts(c)
        if cp is None:
            continue
        l, op, r = src(cp[0]), cp[1], src(cp[2])
        if (l, r) == ('z', bi) and op in (ast.Lt, ast.LtE):
            lower = op
        elif (l, r) == (bi, 'z') and op in (ast.Gt, ast.GtE):
            lower = ast.Lt if op is ast.Gt else ast.LtE
        elif (l, r) == ('z + self.req_dz', bi) and op in (ast.Gt, ast.GtE):
            upper = op
        elif (l, r) == (bi, 'z + self.req_dz') and op in (ast.Lt, ast.LtE):
            upper = ast.Gt if op is ast.Lt else ast.GtE
    ctx.require(lower is ast.Lt, 'C05.R2', fi, elt,
                'a boundary counts as crossed only if it is strictly ahead '
                '(z < b): with z <= b the returned step is 0 at every '
                'boundary plane and the mesh loop never advances',
                key=fi.full + ' | strictly ahead')
    ctx.require(upper is not None, 'C05.R2', fi, elt,
                'a boundary is crossed when z + req_dz passes it',
                key=fi.full + ' | crossing')
    # first crossed boundary (bounds are sorted: np.unique)
    k = U.single_def(fi.node, 'crossed_bound')
    ctx.require(k is not None and _first_true_index(k, 'cross_boundary'),
                'C05.R2', fi, k if k is not None else fi.node,
                'the *first* crossed boundary must be taken',
                key=fi.full + ' | first crossing')
    # the no-crossing return is taken only if nothing is crossed
    g = [r for r in rets if src(r.value) == 'self.req_dz']
    gs = U.guards(g[0]) if g else []
    ctx.require(len(gs) == 1 and dataflow.norm_guard(*gs[0]) ==
                ('any(cross_boundary)', False), 'C05.R2', fi,
                g[0] if g else fi.node, 'req_dz is returned only when no '
                'boundary is crossed', key=fi.full + ' | full step guard')


def r3(ctx):
    """Decided on values (rules/_c05_r3.py): `_setup_axial_region_bnds` is
    evaluated by the finite-domain evaluator on model reactors (every
    combination of power sources and requested planes; every mesh point,
    region bound and plane a distinct symbol); the stored boundary set must be
    unique(around(L, 12)) with every element of every present source in L
    (power meshes x 0.01), and the core length its last element."""
    try:
        from . import _c05_r3 as V
    except ImportError:
        raise AnalysisError('C05.R3: the value-based analysis of the '
                            'boundary set (rules/_c05_r3.py) is missing')
    V.check(ctx, 'C05.R3')


def r4(ctx):
    fi = ctx.repo.func('reactor', 'Reactor._setup_overall_axial_mesh_req')
    sts = [st for t, st in U.stores(fi.node) if src(t) == 'self.req_dz']
    first = sts[0] if sts else None
    ok = first is not None and src(first.value) == \
        "np.floor(np.min(self.min_dz['dz']) * 1000000.0) / 1000000.0"
    ctx.require(ok, 'C05.R4', fi, first if first is not None else fi.node,
                'the requirement must be the minimum over all assemblies and '
                'the gap, rounded *down*', key=fi.full + ' | floored minimum')
    user = [st for st in sts if src(st.value) ==
            "self._options['axial_mesh_size']"]
    ok = len(user) == 1
    if ok:
        gs = U.guards(user[0])
        ok = len(gs) == 1 and gs[0][1]
        t = gs[0][0]
        # user <= req  (evaluate with user above / below)
        lo = U.eval_test(t, {"self._options['axial_mesh_size']": 0.001,
                             'self.req_dz': 0.002})
        hi = U.eval_test(t, {"self._options['axial_mesh_size']": 0.003,
                             'self.req_dz': 0.002})
        ok = ok and lo is True and hi is False
    ctx.require(ok, 'C05.R4', fi, user[0] if user else fi.node,
                'a requested step replaces the requirement only when it is '
                'not larger than it', key=fi.full + ' | user step')
    caps = [st for st in sts if const(st.value) is not None]
    for st in caps:
        c = const(st.value)
        gs = U.guards(st)
        inner = gs[0][0] if gs else None
        v_above = U.eval_test(inner, {'self.req_dz': c * 2}) if inner is not \
            None else None
        v_below = U.eval_test(inner, {'self.req_dz': c / 2}) if inner is not \
            None else None
        ctx.require(c > 0 and v_above is True and v_below is False, 'C05.R4',
                    fi, st, 'a constant step may only *lower* the requirement',
                    key=fi.full + ' | cap %s' % c)
    other = [st for st in sts if st is not first and st not in user
             and st not in caps]
    for st in other:
        ctx.violation('C05.R4', fi, st, 'unrecognised assignment of the step '
                      'requirement')
    # min_dz contributions: every assembly and the gap
    am = ctx.repo.func('reactor', 'Reactor._setup_asm_axial_mesh_req')
    g = cfg_of(am)
    apps = g.find(lambda n: isinstance(n, ast.Call) and src(n.func) ==
                  "self.min_dz['dz'].append")
    loops = [n for n in g.nodes if n.kind == 'loop' and
             src(n.expr) == 'range(len(self.assemblies))']
    # the contribution may be written once per exit of the pass (a guard
    # `continue` after an early append): what counts is that every pass of the
    # loop meets exactly one append, whichever path it takes
    ok = len(apps) >= 1 and len(loops) == 1 and all(
        dataflow._in_body(a_, loops[0].stmt) for a_ in apps)
    if ok:
        # from loop-body entry every path back to the header passes an append
        body_first = [s for s in loops[0].succ
                      if dataflow._in_body(s, loops[0].stmt)]
        ok = all(not g.path_exists(b, loops[0], avoid=apps) or b in apps
                 for b in body_first)
        # ... nor leaves the loop (break / return) without one
        ok = ok and all(
            not g.path_exists(b, g.exit, avoid=apps + [loops[0]])
            or b in apps for b in body_first)
        # ... and never a second one in the same pass
        ok = ok and not any(g.path_exists(a_, b_, avoid=[loops[0]])
                            for a_ in apps for b_ in apps)
        # ... and the pass goes on to the next assembly afterwards
        ok = ok and not any(g.path_exists(a_, g.exit, avoid=[loops[0]])
                            for a_ in apps)
    ctx.require(ok, 'C05.R4', am, apps[0].stmt if apps else am.node,
                'every assembly must contribute its step requirement on every '
                'path', key=am.full + ' | every assembly contributes')
    sc = ctx.repo.func('reactor', 'Reactor._setup_core')
    apps = [c for c in ast.walk(sc.node) if isinstance(c, ast.Call)
            and src(c.func) == "self.min_dz['dz'].append"]
    ok = len(apps) == 1 and src(apps[0].args[0]) == 'dz'
    if ok:
        d = [a for a in U.assigns_of(sc.node, 'dz')]
        ok = len(d) == 1 and 'dassh.core.calculate_min_dz(' in src(d[0].value)
        gs = U.guards(apps[0])
        ok = ok and [src(t) for t, p in gs] == ['dz is not None']
    ctx.require(ok, 'C05.R4', sc, apps[0] if apps else sc.node,
                'the gap must contribute its step requirement whenever it has '
                'one', key=sc.full + ' | gap contributes')
