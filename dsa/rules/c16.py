"""C16 -- runs are repeatable: setup never mutates the input; serial =
parallel (DESIGN 4.16)."""
import ast

from ..core import (AnalysisError, access_path, const, find_all, match, short,
                    src, walk_no_nested, parent, call_name, path_str)
from ..cfg import cfg_of
from .. import util as U
from .. import schema as S
from .. import inputpaths as IP
from ..resolve import Resolver, bind_args

MUTATORS = {'append', 'extend', 'insert', 'pop', 'remove', 'clear', 'update',
            'setdefault', 'sort', 'reverse', 'popitem'}
SHALLOW = {'dict', 'list', 'sorted', 'tuple', 'set'}
CONTAINER_TYPES = {'float_list', 'force_list', 'int_list', 'list',
                   'string_list'}
EXCLUDED_MODS = ('dassh.read_input', 'dassh.plot', 'dassh.py4c')

# positive example: a tiny module on which R1 must fire on every run
POSITIVE = '''
def build(inp):
    d = inp.data['Setup']['Dump']
    d['any'] = True
    inp.data['Assembly']['fuel']['duct_ftf'].sort()
'''

# Material objects of the input handed to functions that restore their state
SAVE_RESTORE_OK = {
    'dassh.utils:Q_equals_mCdT': 'every path ends with coolant_obj.update('
                                 't_in) after its last other update '
                                 '(verified by rule R1c)',
}


def run(ctx):
    ctx.decided += [
        'R1 no function reachable outside the input reader stores through a '
        'reference to the parsed input dictionary (direct, through a local or '
        'parameter alias bound interprocedurally, or through an attribute '
        'that was bound to an input container), nor calls a mutating method '
        'on it; input Material objects are cloned before they are given to '
        'objects that update them',
        'R2 the serial and the parallel driver make the same call with the '
        'same argument tuple, each time point gets its own directory, every '
        'worker result is collected before the pool is closed',
        'R3 no value derived from random / time / uuid / pid / id() or from '
        'iterating a set flows into solver state',
        'R4 nothing survives from one model construction to the next inside '
        'a process: no memoising decorator (lru_cache / cache / '
        'cached_property) on package functions, no function writes a '
        'module-level container or rebinds a module global, no mutable '
        'default argument is mutated (a second time point, an orificing '
        'iteration or a serial run would start from what the previous one '
        'left behind)']
    ctx.decided.append(
        'R5 a function that changes the process working directory changes '
        'back to the saved one on every path to a normal return (CFG '
        'must-pass-through)')
    ctx.not_decided += ['bitwise identity of floating-point results']
    res = Resolver(ctx.repo)
    keys, sections = S.parse_template(ctx.repo.template_text)
    ctx.extra['fresh_input_returners'] = sorted(
        IP.init_fresh_returners(ctx.repo))
    bound = IP.propagate_params(ctx.repo, res)
    n = r1(ctx, ctx.repo, res, keys, sections, bound)
    ctx.extra['stores_and_mutator_calls_examined'] = n
    _positive(ctx, keys, sections)
    r1_materials(ctx, res)
    r2(ctx)
    r3(ctx)
    r4(ctx)
    r5(ctx)
    ctx.min_instances('C16.R4', 40)
    ctx.min_instances('C16.R1', 60)
    ctx.min_instances('C16.R2', 4)
    ctx.min_instances('C16.R3', 1)


# ---------------------------------------------------------------------------

def _is_container(path, keys, sections):
    """Does an input path denote a mutable container (dict / list)?"""
    if not path:
        return True
    if path[0] == 'Assignment':
        return len(path) <= 4 or path[-1] == IP.STAR
    kind, obj = IP.match_schema(path, keys, sections)
    if kind == 'section':
        return True
    if kind == 'key':
        return obj.typ in CONTAINER_TYPES
    if kind == 'list':
        return False      # element of a list key: scalar
    return True           # unknown (created by read_input): be conservative


def _resolve_shallow(fn, e, roots, aliases):
    """(paths, shallow?) -- shallow copies of an input container are fresh
    one level deep only."""
    if isinstance(e, ast.Call):
        nm = call_name(e) or ''
        if nm in SHALLOW and len(e.args) == 1:
            p = IP.resolve(fn, e.args[0], roots, aliases)
            return (p, True) if p else (None, False)
        if isinstance(e.func, ast.Attribute) and e.func.attr == 'copy' \
                and not e.args:
            p = IP.resolve(fn, e.func.value, roots, aliases)
            return (p, True) if p else (None, False)
        if nm in ('copy.deepcopy', 'deepcopy'):
            return None, False
        return None, False
    return IP.resolve(fn, e, roots, aliases), False


class _Scan:
    def __init__(self, ctx, repo, keys, sections, bound, report):
        self.ctx, self.repo = ctx, repo
        self.keys, self.sections, self.bound = keys, sections, bound
        self.report = report
        self.n = 0
        self.summaries = None
        self.resolver = None

    def func_aliases(self, fi):
        roots = IP.roots_for(fi)
        al = IP.local_aliases_with(fi.node, roots,
                                   self.bound.get(fi.full, {}))
        shallow = {}
        for st in walk_no_nested(fi.node):
            if isinstance(st, ast.Assign) and len(st.targets) == 1 and \
                    isinstance(st.targets[0], ast.Name):
                p, sh = _resolve_shallow(fi.node, st.value, roots, al)
                if p and sh:
                    shallow[st.targets[0].id] = p
        return roots, al, shallow

    def field_aliases(self, ci):
        """{access path tuple of self.<...>: [input paths]} for a class."""
        out = {}
        for m in ci.methods.values():
            roots, al, sh = self.func_aliases(m)
            for t, st in U.stores(m.node):
                if not isinstance(st, ast.Assign):
                    continue
                ap = access_path(t)
                if ap is None or ap[0] != 'self' or len(ap) < 2:
                    continue
                p = IP.resolve(m.node, st.value, roots, al)
                if p and any(_is_container(x, self.keys, self.sections)
                             for x in p):
                    out.setdefault(ap, []).extend(
                        x for x in p if _is_container(x, self.keys,
                                                      self.sections))
        return out

    @staticmethod
    def _field_paths(e, fields):
        ap = access_path(e)
        if ap is not None and ap[0] == 'self':
            for fap, fpaths in fields.items():
                if ap[:len(fap)] == fap:
                    rest = ap[len(fap):]
                    return [fp + tuple(x.strip("'") if x != '[*]'
                                       else IP.STAR for x in rest)
                            for fp in fpaths]
        return None

    def scan_function(self, fi, fields):
        roots, al, shallow = self.func_aliases(fi)
        # locals bound to an attribute that is itself bound to an input
        # container (x = self.f[...], x = self.f[...] or [], ...)
        if fields:
            al = dict(al)
            for _ in range(3):
                grew = False
                for st in walk_no_nested(fi.node):
                    if not (isinstance(st, ast.Assign) and
                            len(st.targets) == 1 and
                            isinstance(st.targets[0], ast.Name)):
                        continue
                    v = st.value
                    parts = v.values if isinstance(v, ast.BoolOp) else (
                        [v.body, v.orelse] if isinstance(v, ast.IfExp)
                        else [v])
                    got = []
                    for q in parts:
                        got += self._field_paths(q, fields) or []
                        r = IP.resolve(fi.node, q, roots, al)
                        if r and not isinstance(q, (ast.BoolOp, ast.IfExp)):
                            got += r
                    nm = st.targets[0].id
                    new = sorted(set(al.get(nm, []) + got))
                    if got and new != al.get(nm):
                        al[nm] = new
                        grew = True
                if not grew:
                    break

        def input_paths(e):
            """Input paths denoted by expression e, (paths, extra_depth_ok)"""
            p = IP.resolve(fi.node, e, roots, al)
            if p:
                return p, 0
            # through a shallow copy held in a local
            root, subs = IP.chain(e)
            if isinstance(root, ast.Name) and root.id in shallow and subs:
                if len(subs) >= 1:
                    base = shallow[root.id]
                    paths = IP.resolve(fi.node, e, roots,
                                       {**al, root.id: base})
                    return paths, 1
            # through an attribute bound to an input container
            out = self._field_paths(e, fields)
            if out:
                return out, 0
            return None, 0

        for t, st in U.stores(fi.node):
            if isinstance(t, ast.Name):
                continue
            if not isinstance(t, ast.Subscript):
                continue
            self.n += 1
            cont, extra = input_paths(t.value)
            if not cont:
                continue
            # shallow copy: a store directly into the fresh container is ok
            _, subs = IP.chain(t)
            root, _s = IP.chain(t)
            if extra and isinstance(root, ast.Name) and \
                    len(IP.chain(t)[1]) <= 1:
                self.ctx.ok('C16.R1', fi, st, 'store into a shallow copy')
                continue
            self.report(fi, st, t, cont, 'stores into')
        # x += [...] on a local that *is* an input list extends it in place
        for st in walk_no_nested(fi.node):
            if isinstance(st, ast.AugAssign) and \
                    isinstance(st.target, ast.Name) and not getattr(
                        st, '_was_assign', False):
                # (`x = x + e`, which the canonicaliser spells `x += e`
                # and marks, builds a new list and is not a mutation)
                self.n += 1
                cont, extra = input_paths(st.target)
                if cont and not extra and any(
                        _is_container(p, self.keys, self.sections) and
                        IP.match_schema(p, self.keys, self.sections)[0]
                        == 'key' for p in cont):
                    self.report(fi, st, st.target, cont,
                                'extends in place (augmented assignment)')
        for c in walk_no_nested(fi.node):
            if isinstance(c, ast.Call) and isinstance(c.func, ast.Attribute) \
                    and c.func.attr in MUTATORS:
                self.n += 1
                cont, extra = input_paths(c.func.value)
                if not cont:
                    continue
                if not any(_is_container(p, self.keys, self.sections)
                           for p in cont):
                    continue
                root, subs = IP.chain(c.func.value)
                if extra and isinstance(root, ast.Name) and not subs:
                    continue      # mutator on the fresh copy itself
                self.report(fi, c, c.func.value, cont,
                            'calls .%s() on' % c.func.attr)
        # an input container handed to a package function that modifies the
        # corresponding parameter in place (effect signatures of
        # rules/_generic.py, fixpoint over the resolved call graph): covers
        # callees in modules this scan does not enter (dassh.plot)
        if self.summaries is None:
            return
        for c in walk_no_nested(fi.node):
            if not isinstance(c, ast.Call):
                continue
            try:
                cs, how = self.resolver.callees(fi, c)
            except Exception:
                continue
            if len(cs) != 1 or how == 'by-name':
                continue
            mut = self.summaries.get(cs[0].full, ())
            if not mut:
                continue
            for pn, arg in bind_args(c, cs[0]).items():
                if pn not in mut:
                    continue
                self.n += 1
                cont, extra = input_paths(arg)
                if not cont or extra:
                    continue
                if not any(_is_container(q, self.keys, self.sections) and
                           IP.match_schema(q, self.keys, self.sections)[0]
                           in ('key', 'section') for q in cont):
                    continue
                self.report(fi, c, arg, cont,
                            'passes to %s(), which modifies its parameter '
                            '`%s` in place,' % (cs[0].qual, pn))


def r1(ctx, repo, res, keys, sections, bound):
    hits = []

    def report(fi, node, target, paths, how):
        hits.append((fi, node, target, paths, how))
    sc = _Scan(ctx, repo, keys, sections, bound, report)
    if repo is ctx.repo:
        from . import _generic
        sc.summaries, _ = _generic.effect_signatures(repo)
        sc.resolver = res
    class_fields = {}
    for ci in repo.all_classes():
        if ci.mod.name.startswith(EXCLUDED_MODS):
            continue
        class_fields[ci.full] = sc.field_aliases(ci)
    ctx.extra['attribute_aliases_of_input'] = {
        c: {path_str(k): [IP.fmt(p) for p in v] for k, v in f.items()}
        for c, f in class_fields.items() if f}
    for fi in repo.all_funcs():
        if fi.mod.name.startswith(EXCLUDED_MODS):
            continue
        fields = class_fields.get(fi.cls.full, {}) if fi.cls else {}
        before = len(hits)
        sc.scan_function(fi, fields)
        if len(hits) == before:
            ctx.ok('C16.R1', fi, None, 'no store through an input alias')
    # group attribute-alias sinks by the alias-creating assignment
    grouped = {}
    for fi, node, target, paths, how in hits:
        ap = access_path(target)
        via = None
        if ap is not None and ap[0] == 'self' and fi.cls is not None:
            for fap in class_fields.get(fi.cls.full, {}):
                if ap[:len(fap)] == fap:
                    via = (fi.cls.full, fap)
        if via is not None:
            grouped.setdefault(via, []).append((fi, node, paths, how))
        else:
            ctx.violation(
                'C16.R1', fi, node,
                '%s %s, which is (part of) the parsed input %s: building the '
                'model changes the input, so a second construction from the '
                'same input (next time point, orificing iteration, serial '
                'run) sees different data' % (
                    how, ' '.join(src(target).split()),
                    sorted({IP.fmt(p) for p in paths})[:3]),
                key='%s | %s' % (fi.full, ' '.join(src(node).split())[:120]))
    for (cls, fap), lst in sorted(grouped.items()):
        fi0, node0, paths0, how0 = lst[0]
        # locate the aliasing assignment
        ci = [c for c in repo.all_classes() if c.full == cls][0]
        site = None
        for m in ci.methods.values():
            for t, st in U.stores(m.node):
                if access_path(t) == fap and isinstance(st, ast.Assign):
                    site = (m, st)
        m, st = site if site else (fi0, node0)
        ctx.violation(
            'C16.R1', m, st,
            '%s is bound to the input container %s itself (no copy); %d '
            'later stores / mutator calls in %s go through that alias and '
            'change the parsed input (e.g. %s)' % (
                path_str(fap), sorted({IP.fmt(p) for p in paths0})[:2],
                len(lst), sorted({f.qual for f, _, _, _ in lst})[:6],
                ' '.join(src(node0).split())[:80]),
            key='%s | alias %s' % (cls, path_str(fap)))
    return sc.n


def _positive(ctx, keys, sections):
    """The rule must fire on a synthetic module (expected count on a correct
    tree is zero, so a blind rule would pass vacuously)."""
    from ..core import Module
    m = Module('dassh._positive', '<positive>', 'dassh/_positive.py', POSITIVE)
    fi = m.funcs['build']
    hits = []
    sc = _Scan(ctx, ctx.repo, keys, sections, {}, lambda *a: hits.append(a))
    sc.scan_function(fi, {})
    if len(hits) < 2:
        raise AnalysisError('C16.R1 positive example not detected (%d hits): '
                            'the alias engine went blind' % len(hits))
    ctx.ok('C16.R1', 'synthetic positive example', None,
           '%d sinks detected' % len(hits))


# ---------------------------------------------------------------------------
# Material objects

def _is_mat(e, p):
    """Expression denotes parameter p (a Material or a dict/list of
    Materials) or one of its elements."""
    if src(e) == p:
        return True
    if isinstance(e, ast.Subscript):
        return _is_mat(e.value, p)
    return False


def _param_mutated(repo, res, fi, p, seen=None):
    """Does function fi (transitively) call .update() on parameter p (or on
    an element p[...] when p is a container of Materials), assign its
    attributes, or keep it in an attribute whose class updates it later?
    -> reason string or None"""
    seen = seen if seen is not None else set()
    if (fi.full, p) in seen:
        return None
    seen.add((fi.full, p))
    # local aliases of the parameter / its elements
    names = {p}
    for _ in range(2):
        for st in walk_no_nested(fi.node):
            if isinstance(st, ast.Assign) and len(st.targets) == 1 and \
                    isinstance(st.targets[0], ast.Name) and any(
                        _is_mat(st.value, q) for q in names):
                names.add(st.targets[0].id)

    def is_m(e):
        return any(_is_mat(e, q) for q in names)
    for c in walk_no_nested(fi.node):
        if isinstance(c, ast.Call) and isinstance(c.func, ast.Attribute) and \
                is_m(c.func.value) and c.func.attr in ('update',):
            return '%s calls %s.update()' % (fi.qual, src(c.func.value))
    for t, st in U.stores(fi.node):
        if isinstance(t, ast.Attribute) and is_m(t.value):
            return '%s assigns %s.%s' % (fi.qual, src(t.value), t.attr)
        # <obj>.f = p[...]  -> later <obj>.f.update in that object's class
        if isinstance(t, ast.Attribute) and isinstance(st, ast.Assign) and \
                is_m(st.value):
            owner = src(t.value)
            classes = []
            if owner == 'self' and fi.cls is not None:
                classes = [fi.cls]
            else:
                # self.region[0].coolant = mat_dict['coolant'] etc.: any
                # package class with a method updating self.<attr>
                classes = list(repo.all_classes())
            for ci in classes:
                for m in ci.methods.values():
                    for c in walk_no_nested(m.node):
                        if isinstance(c, ast.Call) and isinstance(
                                c.func, ast.Attribute) and c.func.attr == \
                                'update' and src(c.func.value) == \
                                'self.' + t.attr:
                            return '%s keeps it as %s.%s and %s calls ' \
                                   'self.%s.update()' % (
                                       fi.qual, owner, t.attr, m.qual, t.attr)
    for c in walk_no_nested(fi.node):
        if not isinstance(c, ast.Call):
            continue
        cs, how = res.callees(fi, c)
        if how in ('by-name', 'external', 'unresolved'):
            continue
        for callee in cs:
            for q, a in bind_args(c, callee).items():
                if is_m(a):
                    if callee.full in SAVE_RESTORE_OK:
                        continue
                    r = _param_mutated(repo, res, callee, q, seen)
                    if r:
                        return r
    return None


def r1_materials(ctx, res):
    repo = ctx.repo
    n = 0
    for fi in repo.all_funcs():
        if fi.mod.name.startswith(EXCLUDED_MODS):
            continue
        mats = set()
        if fi.cls is not None and fi.cls.name == 'Reactor':
            mats.add('self.materials')
        for r in ('dassh_input.materials', 'inp.materials',
                  'dassh_inp.materials', 'inp_obj.materials'):
            mats.add(r)
        # local containers that receive an un-cloned input material
        tainted = {}
        for t, st in U.stores(fi.node):
            if isinstance(st, ast.Assign) and isinstance(t, ast.Subscript) \
                    and isinstance(t.value, ast.Name) and isinstance(
                        st.value, ast.Subscript) and \
                    src(st.value.value) in mats:
                tainted[t.value.id] = st
        for c in walk_no_nested(fi.node):
            if not isinstance(c, ast.Call):
                continue
            cs, how = res.callees(fi, c)
            for a in list(c.args) + [k.value for k in c.keywords]:
                if isinstance(a, ast.Name) and a.id in tainted and \
                        how not in ('by-name', 'external', 'unresolved'):
                    n += 1
                    for callee in cs:
                        b = bind_args(c, callee)
                        q = [k for k, v in b.items() if v is a]
                        if not q:
                            continue
                        why = _param_mutated(repo, res, callee, q[0])
                        st0 = tainted[a.id]
                        ctx.require(
                            why is None, 'C16.R1', fi, st0,
                            'puts the input\'s own Material object (%s, no '
                            '.clone()) into %s, which is handed to %s; %s: '
                            'the input material changes state while the '
                            'model is built / swept' % (
                                ' '.join(src(st0.value).split()), a.id,
                                callee.qual, why),
                            key='%s | %s -> %s' % (
                                fi.full, ' '.join(src(st0).split()),
                                callee.qual))
                if isinstance(a, ast.Subscript) and src(a.value) in mats:
                    n += 1
                    if how in ('by-name', 'external', 'unresolved'):
                        continue
                    for callee in cs:
                        b = bind_args(c, callee)
                        q = [k for k, v in b.items() if v is a]
                        if not q:
                            continue
                        if callee.full in SAVE_RESTORE_OK:
                            ctx.ok('C16.R1', fi, c, 'save/restore callee: '
                                   + SAVE_RESTORE_OK[callee.full])
                            continue
                        why = _param_mutated(repo, res, callee, q[0])
                        ctx.require(
                            why is None, 'C16.R1', fi, c,
                            'hands the input\'s own Material object %s to %s '
                            'without .clone(); %s: the sweep leaves the '
                            'input\'s material at another temperature, and a '
                            'second model built from the same input starts '
                            'from different property values' % (
                                ' '.join(src(a).split()), callee.qual, why),
                            key='%s | %s -> %s' % (
                                fi.full, ' '.join(src(a).split()),
                                callee.qual))
        # direct keeps: self.x = <input material> (no clone) + later update
        for t, st in U.stores(fi.node):
            if isinstance(st, ast.Assign) and isinstance(
                    st.value, ast.Subscript) and src(st.value.value) in mats \
                    and isinstance(t, ast.Attribute) and fi.cls is not None:
                n += 1
                upd = [m.qual for m in fi.cls.methods.values()
                       for c in walk_no_nested(m.node)
                       if isinstance(c, ast.Call) and isinstance(
                           c.func, ast.Attribute) and c.func.attr == 'update'
                       and src(c.func.value) == src(t)]
                ctx.require(not upd, 'C16.R1', fi, st,
                            'keeps the input\'s own Material object and '
                            'updates it in %s' % upd,
                            key='%s | keeps %s' % (fi.full, src(st.value)))
    restore_rule(ctx, 'C16.R1')
    ctx.extra['input_material_handoffs_examined'] = n


def restore_rule(ctx, rule):
    """Q_equals_mCdT borrows a Material (the template's coolant): it must
    hand it back at the inlet temperature on every path (shared with C06)."""
    repo = ctx.repo
    # save/restore callee really restores
    q = repo.func('utils', 'Q_equals_mCdT')
    g = cfg_of(q)
    mp = q.params[2]
    t_in = q.params[1]
    ups = g.find(lambda n_: isinstance(n_, ast.Call) and src(n_.func) ==
                 mp + '.update')
    restores = [u for u in ups if any(
        isinstance(c, ast.Call) and src(c.func) == mp + '.update' and
        len(c.args) == 1 and src(c.args[0]) == t_in
        for c in ast.walk(u.stmt))]
    others = [u for u in ups if u not in restores]
    ok = bool(restores) and all(g.must_pass(o, restores) for o in others)
    ctx.require(ok, rule, q, q.node,
                'Q_equals_mCdT must restore the material to the inlet '
                'temperature after its last update on every path',
                key=q.full + ' | save/restore')


# ---------------------------------------------------------------------------

def r2(ctx):
    fi = ctx.repo.func('__main__', 'run_dassh')
    serial = [c for c in ast.walk(fi.node) if isinstance(c, ast.Call)
              and call_name(c) == '_run_dassh']
    par = [c for c in ast.walk(fi.node) if isinstance(c, ast.Call)
           and (call_name(c) or '').endswith('apply_async')]
    ok = len(serial) == 1 and len(par) == 1
    if ok:
        a = U.kwarg(par[0], 'args')
        ok = src(par[0].args[0]) == '_run_dassh' and isinstance(
            a, ast.Tuple) and [src(x) for x in a.elts] == \
            [src(x) for x in serial[0].args] and not serial[0].keywords
    ctx.require(ok, 'C16.R2', fi, par[0] if par else fi.node,
                'the pool must run the same function with the same argument '
                'tuple as the serial loop', key=fi.full + ' | same call')
    # same guard selects serial vs parallel inside one loop
    if ok:
        gs = U.guards(serial[0])
        gp = U.guards(par[0])
        ok = gs and gp and src(gs[0][0]) == src(gp[0][0]) and \
            gs[0][1] != gp[0][1]
        lp_s = U.enclosing_loops(serial[0])
        lp_p = U.enclosing_loops(par[0])
        ok = ok and lp_s and lp_p and lp_s[0] is lp_p[0] and \
            src(lp_s[0].iter) == 'range(dassh_input.timepoints)'
    ctx.require(ok, 'C16.R2', fi, serial[0] if serial else fi.node,
                'serial and parallel execution are the two branches of one '
                'test inside the loop over all time points',
                key=fi.full + ' | one loop')
    # working dir per time point
    wd = [a for a in U.assigns_of(fi.node, 'working_dir')]
    per = [a for a in wd if isinstance(a, ast.Assign) and
           'timestep_{i + 1}' in src(a.value)]
    ok = len(per) == 1 and serial and U.enclosing_loops(per[0]) and \
        U.enclosing_loops(per[0])[0] is U.enclosing_loops(serial[0])[0]
    if ok:
        g = [(src(t), p) for t, p in U.guards(per[0])]
        ok = g == [('need_subdir', True)]
        ns = [a for a in U.assigns_of(fi.node, 'need_subdir')
              if const(a.value) is True]
        ok = ok and len(ns) == 1 and [(src(t), p) for t, p in
                                      U.guards(ns[0])] == \
            [('dassh_input.timepoints > 1', True)]
    ctx.require(ok, 'C16.R2', fi, per[0] if per else fi.node,
                'each time point must get its own directory (a function of '
                'the loop index) whenever there are several time points',
                key=fi.full + ' | own directory')
    # results collected before the pool is closed
    g = cfg_of(fi)
    gets = g.find(lambda n: isinstance(n, ast.Call) and src(n.func) == 'w.get')
    term = g.find(lambda n: isinstance(n, ast.Call) and src(n.func) in (
        'pool.terminate', 'pool.close'))
    ok = len(gets) == 1 and term and all(
        not g.path_exists(t, gets[0]) for t in term)
    if ok:
        lp = U.enclosing_loops(gets[0].stmt)
        ok = bool(lp) and src(lp[0].iter) == 'workers'
    ctx.require(ok, 'C16.R2', fi, gets[0].stmt if gets else fi.node,
                'every worker result must be collected (w.get()) before the '
                'pool is terminated', key=fi.full + ' | collect results')
    # one Reactor per call
    rd = ctx.repo.func('__main__', '_run_dassh')
    rc = [c for c in ast.walk(rd.node) if isinstance(c, ast.Call)
          and call_name(c) == 'dassh.Reactor']
    ok = len(rc) == 1 and src(rc[0].args[0]) == rd.params[0] and \
        src(U.kwarg(rc[0], 'timestep')) == rd.params[2] and \
        src(U.kwarg(rc[0], 'path')) == rd.params[3]
    ctx.require(ok, 'C16.R2', rd, rc[0] if rc else rd.node,
                'one Reactor per time point, built from the shared input with '
                'that time point and directory', key=rd.full + ' | reactor')


# ---------------------------------------------------------------------------

NONDET = ('random.', 'np.random.', 'numpy.random.', 'uuid.', 'time.time',
          'time.perf_counter', 'datetime.', 'os.getpid', 'os.urandom')
LOG_SINKS = ('log', 'info', 'warning', 'error', 'debug', 'format', 'write',
             'print')


def r3(ctx):
    repo = ctx.repo
    n = 0
    for fi in repo.all_funcs():
        if fi.mod.name.startswith(('dassh.plot', 'dassh.py4c')):
            continue
        for c in walk_no_nested(fi.node):
            if not isinstance(c, ast.Call):
                continue
            nm = call_name(c) or ''
            if not (nm.startswith(NONDET) or nm == 'id'):
                continue
            n += 1
            # where does the value go?
            st = c
            while not isinstance(st, ast.stmt):
                st = parent(st)
            ok = True
            why = ''
            if isinstance(st, ast.Assign):
                for t in st.targets:
                    ap = access_path(t)
                    if isinstance(t, ast.Name):
                        # local: all uses must be in log/str formatting or
                        # arithmetic that ends in a log message
                        uses = [x for x in walk_no_nested(fi.node)
                                if isinstance(x, ast.Name) and x.id == t.id
                                and isinstance(x.ctx, ast.Load)]
                        for u in uses:
                            s2 = u
                            while not isinstance(s2, ast.stmt):
                                s2 = parent(s2)
                            if isinstance(s2, ast.Assign) and any(
                                    isinstance(tt, (ast.Attribute,
                                                    ast.Subscript)) and
                                    'temp' in src(tt) for tt in s2.targets):
                                ok = False
                                why = src(s2)[:60]
                    elif ap is not None and ap[0] == 'self':
                        # clock attributes are only read by the progress log
                        attr = ap[1]
                        readers = []
                        for m in (fi.cls.methods.values() if fi.cls else []):
                            for x in walk_no_nested(m.node):
                                if isinstance(x, ast.Attribute) and \
                                        x.attr == attr and isinstance(
                                            x.ctx, ast.Load):
                                    readers.append(m.name)
                        bad = [r for r in readers if r not in (
                            '_print_log_msg', 'temperature_sweep')]
                        if bad:
                            ok = False
                            why = 'read by %s' % bad
            ctx.require(ok, 'C16.R3', fi, c,
                        'a nondeterministic value (%s) flows into solver '
                        'state: %s' % (nm, why),
                        key='%s | %s' % (fi.full, nm))
    # iteration over sets of strings feeding state
    for fi in repo.all_funcs():
        if fi.mod.name.startswith(('dassh.plot', 'dassh.py4c')):
            continue
        for lp in walk_no_nested(fi.node):
            if isinstance(lp, ast.For) and isinstance(lp.iter, ast.Call) and \
                    call_name(lp.iter) == 'set':
                n += 1
                ctx.advisory('C16.R3', fi, lp.iter, 'iterates over a set: '
                             'order depends on hashing for strings')
    ctx.extra['nondeterministic_sources_examined'] = n
    if n == 0:
        ctx.ok('C16.R3', 'package', None, 'no nondeterministic source found')


# ---------------------------------------------------------------------------
# R4: no process-level state shared between constructions

MEMO = ('lru_cache', 'cache', 'cached_property', 'memoize', 'memoized')

R4_POSITIVE = """
import functools
_CACHE = {}

@functools.lru_cache(maxsize=None)
def load(path):
    return [1.0, 2.0]

def remember(k, v):
    _CACHE[k] = v

def bump(x, acc=[]):
    acc.append(x)
    return acc

_DEFAULTS = {'duct': [1.0, 2.0]}

class R:
    def __init__(self, user=None):
        self.par = _DEFAULTS
        self.safe = dict(_DEFAULTS)
        if user:
            self.par['duct'] = user
            self.safe['duct'] = user
"""


def _r4_scan(m):
    """[(func, node, what)] process-level state in one module."""
    out = []
    mutable_globals = {n for n, v in m.globals.items()
                       if isinstance(v, (ast.Dict, ast.List, ast.Set,
                                         ast.ListComp, ast.DictComp))
                       or (isinstance(v, ast.Call) and (call_name(v) or '')
                           in ('dict', 'list', 'set', 'collections.'
                               'defaultdict', 'defaultdict', 'OrderedDict'))}
    for fi in m.funcs.values():
        for d in fi.node.decorator_list:
            nm = call_name(d) if isinstance(d, ast.Call) else \
                (src(d) if isinstance(d, (ast.Name, ast.Attribute)) else '')
            if (nm or '').split('.')[-1] in MEMO:
                out.append((fi, d, 'is memoised with @%s: every later call '
                            'in the process gets the *same* object back, '
                            'including what earlier users did to it' % nm))
        local = set(fi.params)
        for n in walk_no_nested(fi.node):
            if isinstance(n, ast.Name) and isinstance(n.ctx, ast.Store):
                local.add(n.id)
        for n in walk_no_nested(fi.node):
            if isinstance(n, ast.Global):
                out.append((fi, n, 'rebinds module global(s) %s'
                            % ', '.join(n.names)))
        for t, st in U.stores(fi.node):
            root = t
            while isinstance(root, (ast.Subscript, ast.Attribute)):
                root = root.value
            if isinstance(root, ast.Name) and root.id in mutable_globals \
                    and root.id not in local and not isinstance(t, ast.Name):
                out.append((fi, st, 'writes the module-level container %s'
                            % root.id))
        for c in walk_no_nested(fi.node):
            if isinstance(c, ast.Call) and isinstance(c.func, ast.Attribute) \
                    and c.func.attr in MUTATORS:
                root = c.func.value
                while isinstance(root, (ast.Subscript, ast.Attribute)):
                    root = root.value
                if isinstance(root, ast.Name) and root.id in mutable_globals \
                        and root.id not in local:
                    out.append((fi, c, 'mutates the module-level container '
                                '%s' % root.id))
        # a local that IS a module-level container (x = _G; x[k] = v)
        lal = {}
        for st in walk_no_nested(fi.node):
            if isinstance(st, ast.Assign) and len(st.targets) == 1 and \
                    isinstance(st.targets[0], ast.Name):
                g_ = _global_alias(st.value, mutable_globals, local)
                if g_:
                    lal[st.targets[0].id] = g_
        for t, st in U.stores(fi.node):
            root = t
            while isinstance(root, (ast.Subscript, ast.Attribute)):
                root = root.value
            if isinstance(root, ast.Name) and root.id in lal and \
                    not isinstance(t, ast.Name):
                out.append((fi, st, 'writes through the local `%s`, which is '
                            'the module-level container %s itself'
                            % (root.id, lal[root.id])))
        # mutable default arguments that are mutated
        a = fi.node.args
        pos = a.posonlyargs + a.args
        defaults = dict(zip([x.arg for x in pos][len(pos) - len(a.defaults):],
                            a.defaults))
        defaults.update({k.arg: d for k, d in zip(a.kwonlyargs, a.kw_defaults)
                         if d is not None})
        for pn, d in defaults.items():
            if not isinstance(d, (ast.Dict, ast.List, ast.Set)):
                continue
            mutated = False
            for t, st in U.stores(fi.node):
                root = t
                while isinstance(root, (ast.Subscript, ast.Attribute)):
                    root = root.value
                if isinstance(root, ast.Name) and root.id == pn and \
                        not isinstance(t, ast.Name):
                    mutated = True
            for c in walk_no_nested(fi.node):
                if isinstance(c, ast.Call) and isinstance(
                        c.func, ast.Attribute) and c.func.attr in MUTATORS \
                        and src(c.func.value) == pn:
                    mutated = True
            if mutated:
                out.append((fi, d, 'mutates its mutable default argument %s'
                            % pn))
    # an attribute bound to a module-level container itself (no copy) and
    # written through in any method of the class: every object of the class,
    # in every model built in the process, shares and changes that one dict
    for ci in m.classes.values():
        alias = {}
        for fi in ci.methods.values():
            local = set(fi.params)
            for t, st in U.stores(fi.node):
                if isinstance(st, ast.Assign) and isinstance(
                        t, ast.Attribute) and src(t.value) == 'self':
                    g_ = _global_alias(st.value, mutable_globals, local)
                    if g_:
                        alias[t.attr] = (g_, st)
        if not alias:
            continue
        for fi in ci.methods.values():
            for t, st in U.stores(fi.node):
                ap = access_path(t)
                if ap is not None and len(ap) > 2 and ap[0] == 'self' and \
                        ap[1] in alias:
                    out.append((fi, st, 'stores into self.%s, which was bound '
                                'to the module-level container %s itself'
                                % (ap[1], alias[ap[1]][0])))
            for c in walk_no_nested(fi.node):
                if isinstance(c, ast.Call) and isinstance(
                        c.func, ast.Attribute) and c.func.attr in MUTATORS:
                    ap = access_path(c.func.value)
                    if ap is not None and len(ap) >= 2 and ap[0] == 'self' \
                            and ap[1] in alias:
                        out.append((fi, c, 'mutates self.%s, which was bound '
                                    'to the module-level container %s itself'
                                    % (ap[1], alias[ap[1]][0])))
    return out


def _global_alias(v, mutable_globals, local):
    """Name of the module-level container the expression denotes (itself or
    one of its sub-containers), None for copies / anything else."""
    if isinstance(v, ast.IfExp):
        return _global_alias(v.body, mutable_globals, local) or \
            _global_alias(v.orelse, mutable_globals, local)
    if isinstance(v, ast.BoolOp):
        for x in v.values:
            g_ = _global_alias(x, mutable_globals, local)
            if g_:
                return g_
        return None
    root = v
    while isinstance(root, ast.Subscript):
        root = root.value
    if isinstance(root, ast.Name) and root.id in mutable_globals and \
            root.id not in local:
        return root.id
    return None


R5_POSITIVE = """
import os
def run(d, reuse):
    cwd = os.getcwd()
    if d != '':
        os.chdir(d)
    if reuse:
        return load(d)
    work()
    os.chdir(cwd)
    return load(d)
def fine(d):
    cwd = os.getcwd()
    os.chdir(d)
    try:
        work()
    finally:
        os.chdir(cwd)
    return load(d)
"""


def chdir_leaks(fi):
    """[(chdir node, exit description)]: the function changes the process
    working directory away from the saved one and some path to a normal exit
    does not change back."""
    saved = set()
    for st in walk_no_nested(fi.node):
        if isinstance(st, ast.Assign) and isinstance(st.value, ast.Call) and \
                (call_name(st.value) or '') == 'os.getcwd':
            saved |= {t.id for t in st.targets if isinstance(t, ast.Name)}
    def is_chdir(n):
        return isinstance(n, ast.Call) and (call_name(n) or '') == 'os.chdir'

    def restores(c):
        return c.args and isinstance(c.args[0], ast.Name) and \
            c.args[0].id in saved
    try:
        g = cfg_of(fi)
    except AnalysisError:
        # try/finally is not modelled by the CFG: accept exactly the idiom
        # "change inside / just before a try whose finally restores"
        fin = [t for t in walk_no_nested(fi.node) if isinstance(t, ast.Try)
               and any(is_chdir(c) and restores(c) for b in t.finalbody
                       for c in ast.walk(b))]
        aw = [c for c in walk_no_nested(fi.node) if is_chdir(c)
              and not restores(c)]
        if aw and len(fin) == 1 and all(
                c.lineno <= fin[0].body[-1].end_lineno for c in aw) and not \
                any(isinstance(r, ast.Return) and r.lineno < fin[0].lineno
                    and any(c.lineno < r.lineno for c in aw)
                    for r in walk_no_nested(fi.node)):
            return [], len(aw)
        raise
    nodes = g.find(is_chdir)
    away, back = [], []
    for nd in nodes:
        calls = [c for c in ast.walk(nd.stmt) if is_chdir(c)] \
            if getattr(nd, 'stmt', None) is not None else []
        for c in calls:
            if c.args and isinstance(c.args[0], ast.Name) and \
                    c.args[0].id in saved:
                back.append(nd)
            else:
                away.append(nd)
    out = []
    for nd in away:
        if not back or not g.must_pass(nd, set(back)):
            out.append((nd, len(back)))
    return out, len(away)


def r5(ctx):
    """R5 the process working directory is restored on every path."""
    from ..core import Module
    n = 0
    for fi in ctx.repo.all_funcs():
        if fi.mod.name.startswith(('dassh.plot', 'dassh.py4c')):
            continue
        leaks, k = chdir_leaks(fi)
        n += k
        for nd, nb in leaks:
            ctx.violation(
                'C16.R5', fi, nd.stmt,
                '%s changes the working directory of the process and there is '
                'a path to a normal return that does not change back to the '
                'saved one (%d restoring call(s) in the function): the next '
                'model construction in this process (next time point, '
                'orificing iteration, re-run) resolves every relative path '
                'against the wrong directory' % (fi.qual, nb),
                key='%s | working directory not restored' % fi.full)
        if k and not leaks:
            ctx.ok('C16.R5', fi, None, '%d chdir call(s) away from the saved '
                   'directory, each followed by the restoring call on every '
                   'path to a return' % k)
    pm = Module('dassh._positive', '<positive>', 'dassh/_positive.py',
                R5_POSITIVE)
    l1, _ = chdir_leaks(pm.funcs['run'])
    l2, _ = chdir_leaks(pm.funcs['fine'])
    if len(l1) != 1 or l2:
        raise AnalysisError('C16.R5 positive example: %d / %d'
                            % (len(l1), len(l2)))
    ctx.ok('C16.R5', 'synthetic positive example', None, 'detected')
    if n < 1:
        raise AnalysisError('C16.R5: no chdir call found in the package '
                            '(calc_power_VARIANT changed shape)')


def r4(ctx):
    from ..core import Module
    for m in ctx.repo.modules.values():
        if m.name.startswith(('dassh.plot', 'dassh.py4c')):
            continue
        hits = _r4_scan(m)
        for fi, node, what in hits:
            ctx.violation('C16.R4', fi, node,
                          '%s %s: state shared by all model constructions of '
                          'a process' % (fi.qual, what),
                          key='%s | process state %s' % (
                              fi.full, ' '.join(src(node).split())[:60]))
        if not hits:
            ctx.ok('C16.R4', 'dassh/%s' % m.rel.split('dassh/')[-1], None,
                   'no memoisation, no module-level state written by '
                   'functions (%d functions)' % len(m.funcs))
    pm = Module('dassh._positive', '<positive>', 'dassh/_positive.py',
                R4_POSITIVE)
    if len(_r4_scan(pm)) != 4:
        raise AnalysisError('C16.R4 positive example: expected 4 hits, got '
                            '%d' % len(_r4_scan(pm)))
    ctx.ok('C16.R4', 'synthetic positive example', None, '4 hits detected')
