"""C15.R9 -- a row of a peak-temperature table is labelled with the position
of the assembly whose record fills it.

Clause (a necessary condition of "the peak temperatures DASSH reports *for an
assembly* are the maxima of that assembly"): in the summary tables that print
`Assembly._peak` (coolant, duct, pin), the label of every row that carries
assembly data is the 1-based position in `r_obj.assemblies` of exactly the
assembly the row's data were read from -- the numbering every other table of
dassh.out uses.  A label that counts something else (rows written so far, the
position in a list that holds only the assemblies with a pin model, a
neighbouring index, `a.id`, a duct counter, a constant) attaches correct
maxima to the wrong assembly.

How it is decided: abstract interpretation of the table's `make` method (and
of the methods of the class it hands rows to) over a *provenance* domain; no
source form is matched.  An abstract value records

  dep   the assembly positions (term, offset) its content was read from,
  lab   the positions (term, offset) that were formatted into it as text,
  pos / asm   "is the integer position" / "is the assembly object at",
  a record structure for list / tuple / dict displays (known prefix + rest),
  an element summary for lists filled element by element, and whether such
  a list is *aligned* with the assembly list (exactly one element per
  iteration of a loop over the complete list, decided on the loop body:
  one unconditional append, no continue / break).

A term stands for "the assembly visited by this iteration of that loop".  A
loop over the complete list (range(len()), enumerate, direct, zip, a
comprehension without filter, a list aligned with it, an array filled at
`X[i, ...]` position by position) yields a position term P; a loop over
anything else that holds assemblies (a filtered, sorted, reversed, sliced list)
yields a term Q that is a position in *that* list.  An element taken out of
such a list keeps the terms it was built with, instantiated per loop (only
the terms that vary from element to element, i.e. the loops that were running
while the list was filled), so a label stored with the row -- in the row, in a
(label, row) pair, in a dict, in a parallel list filled in the same block --
stays consistent with its data, and a list handed over as a whole stands for
all assemblies (no single one).  Loop bodies are evaluated twice, the second
time on the join with the state left by the first pass with this loop's terms
marked stale, so a label carried over from the previous iteration is a
different term; a counter incremented exactly once per iteration is the
position plus its start value.  Formatting a position (`str`, `format`,
f-string, `%`, the module's own `_fmt_idx`, which is interpreted, not
recognised by name) yields a label.  At every `add_row(key, values)` -- also
inside methods of the class the rows are handed to -- the rule requires: if
`values` depends on an assembly, `key` carries exactly one formatted position,
that position is a P term, and every dependency of the row is the same term
with offset label - 1.

Trusted: `<param>.assemblies` is the complete assembly list; attribute and
subscript reads through an assembly object yield data of that assembly; a
call returns data of the assemblies its arguments belong to; reductions
(max / sum / len ...) over a comprehension range over all its elements.
"""
import ast
import re

from ..core import AnalysisError, const, short, src

PROPS = ('C15',)
RULE = 'C15.R9'
ANCHORS = (('table', 'CoolantTempTable.make'),
           ('table', 'DuctTempTable.make'),
           ('table', 'PeakPinTempTable.make'))
SINK = 'add_row'
E = frozenset()

_REDUCERS = {'max', 'min', 'sum', 'any', 'all', 'len', 'np.max', 'np.min',
             'np.sum', 'np.mean', 'np.average', 'np.amax', 'np.amin',
             'np.any', 'np.all', 'np.nanmax', 'np.nanmin', 'np.median',
             'np.std', 'np.prod'}
_PASS = {'list', 'tuple', 'np.array', 'np.asarray', 'copy.copy',
         'copy.deepcopy', 'np.copy'}
_REORDER = {'sorted', 'reversed', 'set', 'np.sort', 'np.flip', 'np.unique',
            'np.roll'}
_MUTATORS = {'append', 'extend', 'insert', 'sort', 'reverse', 'pop',
             'remove', 'clear'}
_TOK = re.compile(r'[PQ]\d+')


# ---------------------------------------------------------------------------
# abstract values

class V:
    __slots__ = ('dep', 'lab', 'pos', 'asm', 'num', 'cst', 'elts', 'tail',
                 'acc', 'aligned', 'home', 'site', 'fields', 'spec', 'bound')

    def __init__(self, dep=E, lab=E, pos=None, asm=None, num=None, cst=False,
                 elts=None, tail=None, acc=None, aligned=None, home=None,
                 site=None, fields=None, spec=None, bound=E):
        self.dep, self.lab, self.pos, self.asm = dep, lab, pos, asm
        self.num, self.cst = num, cst
        self.elts, self.tail, self.acc = elts, tail, acc
        self.aligned, self.home, self.site = aligned, home, site
        self.fields, self.spec = fields, spec
        # terms that vary from element to element of an element-wise filled
        # list (loops that were running while it was filled)
        self.bound = bound

    def copy(self, **kw):
        n = V(*[getattr(self, s) for s in V.__slots__])
        for k, v in kw.items():
            setattr(n, k, v)
        return n


def is_cont(v):
    return v.elts is not None or v.acc is not None


def flat(v, _d=0):
    """(deps, labs) of a value with everything it contains."""
    if v is None:
        return E, E
    d, l = set(v.dep), set(v.lab)
    if v.pos:
        d.add(v.pos)
    if v.asm:
        d.add(v.asm)
    kids = list(v.elts or []) + [v.tail] + list((v.fields or {}).values())
    if v.acc is not None and _d < 12:
        # the list as a whole stands for all its elements: what varies from
        # element to element belongs to no single assembly
        ad, al = flat(v.acc, _d + 1)
        def fixed(p):
            return not any(t in v.bound for t in _TOK.findall(p[0])) and \
                not ('B0' in v.bound and p[0].startswith('B0'))
        d |= {p for p in ad if fixed(p)}
        l |= {p for p in al if fixed(p)}
    if v.spec and v.spec[0] != 'len' and _d < 6:
        # (a length is a count, not data of any one element)
        kids += [x for x in v.spec if isinstance(x, V)]
        kids += [y for x in v.spec if isinstance(x, (list, tuple))
                 for y in x if isinstance(y, V)]
    for k in kids:
        if k is not None and _d < 12:
            kd, kl = flat(k, _d + 1)
            d |= kd
            l |= kl
    return frozenset(d), frozenset(l)


def summ(v):
    d, l = flat(v)
    return V(dep=d, lab=l)


def join(a, b):
    if a is None:
        return b
    if b is None or a is b:
        return a
    r = V(dep=a.dep | b.dep, lab=a.lab | b.lab, cst=a.cst and b.cst)
    for f in ('pos', 'asm'):
        x, y = getattr(a, f), getattr(b, f)
        if x == y:
            setattr(r, f, x)
        else:
            r.dep = r.dep | {p for p in (x, y) if p}
    r.num = a.num if a.num == b.num else None
    r.spec = a.spec if a.spec is b.spec else None
    if a.spec is not b.spec:
        for s in (a, b):
            if s.spec:
                d, l = flat(V(spec=s.spec))
                r.dep, r.lab = r.dep | d, r.lab | l
    ac, bc = is_cont(a), is_cont(b)
    if ac and bc:
        if a.elts is not None and b.elts is not None and \
                len(a.elts) == len(b.elts):
            r.elts = [join(x, y) for x, y in zip(a.elts, b.elts)]
            r.tail = join(a.tail, b.tail)
        else:
            r.elts = []
            t = None
            for x in (a.elts or []) + (b.elts or []) + [a.tail, b.tail]:
                t = join(t, x)
            r.tail = t
        r.acc = join(a.acc, b.acc)
        r.aligned = a.aligned if a.aligned == b.aligned else None
        r.site = a.site if a.site == b.site else (
            a.site if b.acc is None else b.site if a.acc is None else 'multi')
        r.home = a.home if a.home == b.home else None
        r.bound = a.bound | b.bound
    elif ac or bc:
        c, o = (a, b) if ac else (b, a)
        if flat(o) == (E, E) and o.fields is None and o.spec is None:
            # e.g. an array allocated before the loop that fills it
            for f in ('elts', 'tail', 'acc', 'aligned', 'site', 'home',
                      'bound'):
                setattr(r, f, getattr(c, f))
        else:
            d, l = flat(c)
            r.dep, r.lab = r.dep | d, r.lab | l
    if a.fields is not None and b.fields is not None:
        r.fields = {k: join(a.fields.get(k), b.fields.get(k))
                    for k in set(a.fields) | set(b.fields)}
    elif a.fields is not None or b.fields is not None:
        d, l = flat(V(fields=a.fields or b.fields))
        r.dep, r.lab = r.dep | d, r.lab | l
    return r


def join_all(vs):
    r = None
    for v in vs:
        r = join(r, v)
    return r


def mapterms(v, f, deep=True, _d=0):
    """Copy of v with every (term, offset) mapped through f."""
    if v is None or _d > 12:
        return v
    def ms(s):
        return frozenset(f(p) for p in s)
    def rec(x):
        return mapterms(x, f, deep, _d + 1)
    n = v.copy(dep=ms(v.dep), lab=ms(v.lab),
               pos=f(v.pos) if v.pos else None,
               asm=f(v.asm) if v.asm else None)
    if v.elts is not None:
        n.elts = [rec(x) for x in v.elts]
    n.tail = rec(v.tail)
    if v.fields is not None:
        n.fields = {k: rec(x) for k, x in v.fields.items()}
    if deep:
        n.acc = rec(v.acc)
        if v.aligned:
            n.aligned = f((v.aligned, 0))[0]
    return n


def elements(v):
    """Join of everything a container holds (or the value itself)."""
    if is_cont(v):
        return join_all((v.elts or []) + [v.tail, v.acc]) or V()
    return summ(v)


# ---------------------------------------------------------------------------
# syntactic side conditions on a loop body

def _jumps(st):
    """The statement contains a `return`, or a break / continue that leaves
    or restarts the loop whose body it is part of."""
    def rec(n, inner):
        if isinstance(n, (ast.FunctionDef, ast.AsyncFunctionDef, ast.Lambda,
                          ast.ClassDef)):
            return False
        if isinstance(n, ast.Return):
            return True
        if isinstance(n, (ast.Break, ast.Continue)):
            return not inner
        if isinstance(n, (ast.For, ast.AsyncFor, ast.While)):
            return any(rec(c, True) for c in n.body) or \
                any(rec(c, inner) for c in n.orelse)
        return any(rec(c, inner) for c in ast.iter_child_nodes(n))
    return rec(st, False)


def _mentions(node, name):
    return any(src(n) == name for n in ast.walk(node)
               if isinstance(n, (ast.Name, ast.Attribute)))


def _is_append(st, name):
    return isinstance(st, ast.Expr) and isinstance(st.value, ast.Call) and \
        isinstance(st.value.func, ast.Attribute) and \
        st.value.func.attr == 'append' and src(st.value.func.value) == name \
        and len(st.value.args) == 1 and \
        not _mentions(st.value.args[0], name) or (
            isinstance(st, ast.AugAssign) and isinstance(st.op, ast.Add)
            and src(st.target) == name and isinstance(st.value, ast.List)
            and len(st.value.elts) == 1
            and not isinstance(st.value.elts[0], ast.Starred)
            and not _mentions(st.value, name))


def appends_once(stmts, name):
    """Number of elements every path through `stmts` appends to `name`
    (None: not the same on every path / not decidable here)."""
    n = 0
    for st in stmts:
        if _is_append(st, name):
            n += 1
            continue
        if isinstance(st, (ast.Continue, ast.Break, ast.Return)):
            return None
        if isinstance(st, ast.If) and not _mentions(st.test, name):
            a = appends_once(st.body, name)
            b = appends_once(st.orelse, name)
            if a is None or b is None or a != b:
                return None
            n += a
            continue
        if _mentions(st, name) or _jumps(st):
            return None
    return n


def _is_inc(st, name):
    if isinstance(st, ast.AugAssign) and isinstance(st.op, ast.Add) and \
            src(st.target) == name and const(st.value) == 1:
        return True
    if isinstance(st, ast.Assign) and len(st.targets) == 1 and \
            src(st.targets[0]) == name and isinstance(st.value, ast.BinOp) \
            and isinstance(st.value.op, ast.Add):
        l, r = st.value.left, st.value.right
        return (src(l) == name and const(r) == 1) or \
            (src(r) == name and const(l) == 1)
    return False


def is_counter(body, name):
    """`name` is incremented by one exactly once, unconditionally, in every
    iteration and bound nowhere else in the body."""
    if any(_jumps(st) for st in body):
        return False
    incs = [st for st in body if _is_inc(st, name)]
    if len(incs) != 1:
        return False
    for st in body:
        if st is incs[0]:
            continue
        for n in ast.walk(st):
            if isinstance(n, ast.Name) and n.id == name and \
                    isinstance(n.ctx, (ast.Store, ast.Del)):
                return False
    return True


# ---------------------------------------------------------------------------

def _coll_src(it):
    """The collection a loop header ranges over, for messages."""
    while isinstance(it, ast.Call) and it.args and src(it.func) in (
            'range', 'len', 'enumerate', 'list', 'tuple'):
        it = it.args[-1] if src(it.func) == 'range' else it.args[0]
    return short(it, 40)


class _Dead(Exception):
    pass


class Interp:
    def __init__(self, ctx, fi):
        self.ctx = ctx
        self.repo = ctx.repo
        self.fi0 = fi
        self.stack = []          # live loop terms
        self.exits = []          # envs leaving a loop body early
        self.tid = {}
        self.tanc = {}           # term -> terms live when it was created
        self.tdesc = {}
        self.comp_terms = set()
        self.events = {}         # (fi.full, id(call)) -> [fi, node, ok, what, key]
        self.depth = 0
        self.fi = fi
        self.returns = []
        self.block_of = {}
        self.params = set()
        self.reduced = []

    # -- terms
    def term(self, node, kind, desc):
        k = (id(node), kind)
        if k not in self.tid:
            self.tid[k] = '%s%d' % (kind, len(self.tid))
        t = self.tid[k]
        self.tanc[t] = tuple(self.stack)
        self.tdesc[t] = desc
        return t

    def describe(self, t):
        toks = _TOK.findall(t)
        base = self.tdesc.get(toks[0], '') if toks else ''
        if t.startswith('prev:'):
            return 'the previous iteration of ' + (base or t)
        if t.startswith('K'):
            return 'a fixed element of the assembly list'
        return base or t

    def stale(self, env, term):
        """Values left by the previous pass of loop `term`."""
        def hit(t):
            if t.startswith('prev:'):
                return False
            for tok in _TOK.findall(t):
                if tok == term or term in self.tanc.get(tok, ()):
                    return True
            return False

        def f(p):
            return ('prev:' + p[0], p[1]) if hit(p[0]) else p
        return {k: mapterms(v, f, deep=False) for k, v in env.items()}

    # -- environment
    @staticmethod
    def join_env(a, b):
        if a is None:
            return b
        if b is None:
            return a
        out = {}
        for k in set(a) | set(b):
            out[k] = join(a.get(k), b.get(k))
        return out

    # -- expressions
    def ev(self, e, env):
        if e is None:
            return V()
        m = getattr(self, 'e_' + type(e).__name__, None)
        if m is not None:
            return m(e, env)
        return self.generic(e, env)

    def generic(self, e, env, kids=None):
        d, l = set(), set()
        for c in (kids if kids is not None else ast.iter_child_nodes(e)):
            if isinstance(c, ast.expr):
                cd, cl = flat(self.ev(c, env))
                d |= cd
                l |= cl
            elif isinstance(c, (ast.keyword,)):
                cd, cl = flat(self.ev(c.value, env))
                d |= cd
                l |= cl
            elif isinstance(c, ast.comprehension):
                pass
        return V(dep=frozenset(d), lab=frozenset(l))

    def e_Constant(self, e, env):
        v = e.value
        return V(cst=True, num=v if isinstance(v, int) and
                 not isinstance(v, bool) else None)

    def e_Name(self, e, env):
        if e.id in env:
            return env[e.id]
        g = self.fi.mod.globals.get(e.id)
        if isinstance(g, ast.Constant):
            return self.e_Constant(g, env)
        return V()

    def e_Lambda(self, e, env):
        return V()

    def e_Starred(self, e, env):
        return self.ev(e.value, env)

    def e_NamedExpr(self, e, env):
        v = self.ev(e.value, env)
        self.assign(e.target, v, env)
        return v

    def e_IfExp(self, e, env):
        self.ev(e.test, env)
        return join(self.ev(e.body, env), self.ev(e.orelse, env))

    def e_UnaryOp(self, e, env):
        v = self.ev(e.operand, env)
        if isinstance(e.op, ast.USub) and v.num is not None:
            return V(cst=True, num=-v.num)
        if isinstance(e.op, ast.UAdd):
            return v
        return summ(v)

    def fmt(self, v):
        """The value as text: a position becomes a label."""
        d, l = flat(v)
        if v.pos:
            d = d - {v.pos}
            l = l | {v.pos}
        return V(dep=d, lab=l, cst=v.cst)

    def e_JoinedStr(self, e, env):
        r = V(cst=True)
        for p in e.values:
            if isinstance(p, ast.FormattedValue):
                r = self._cat(r, self.fmt(self.ev(p.value, env)))
        return r

    @staticmethod
    def _cat(a, b):
        return V(dep=a.dep | b.dep, lab=a.lab | b.lab, cst=a.cst and b.cst)

    def e_BinOp(self, e, env):
        a, b = self.ev(e.left, env), self.ev(e.right, env)
        if isinstance(e.op, (ast.Add, ast.Sub)):
            sgn = 1 if isinstance(e.op, ast.Add) else -1
            if a.num is not None and b.num is not None:
                return V(cst=True, num=a.num + sgn * b.num)
            if a.pos and b.num is not None:
                return V(pos=(a.pos[0], a.pos[1] + sgn * b.num))
            if b.pos and a.num is not None and sgn == 1:
                return V(pos=(b.pos[0], b.pos[1] + a.num))
        if isinstance(e.op, ast.Add) and is_cont(a) and is_cont(b):
            return self.concat(a, b, True)
        if isinstance(e.op, ast.Mod) and a.cst and not is_cont(a):
            bs = b.elts if b.elts is not None else [b]
            r = V(cst=True)
            for x in bs:
                r = self._cat(r, self.fmt(x))
            return r
        sa, sb = summ(a), summ(b)
        return V(dep=sa.dep | sb.dep, lab=sa.lab | sb.lab,
                 cst=a.cst and b.cst and not is_cont(a) and not is_cont(b))

    def concat(self, a, b, same_home):
        """a followed by the elements of b."""
        if a.elts is not None and a.tail is None and a.acc is None and \
                b.elts is not None and same_home:
            return a.copy(elts=a.elts + b.elts, tail=b.tail, acc=b.acc,
                          aligned=None, bound=a.bound | b.bound)
        if a.elts is not None and same_home:
            return a.copy(tail=join(a.tail, elements(b)), aligned=None,
                          bound=a.bound | b.bound)
        return a.copy(acc=join(a.acc, elements(b)), aligned=None,
                      bound=self.binds(a) | b.bound)

    def e_List(self, e, env):
        elts, tail = [], None
        for x in e.elts:
            v = self.ev(x, env)
            if isinstance(x, ast.Starred) or tail is not None:
                tail = join(tail, elements(v) if isinstance(x, ast.Starred)
                            else v)
            else:
                elts.append(v)
        return V(elts=elts, tail=tail, home=tuple(self.stack))

    e_Tuple = e_List

    def e_Set(self, e, env):
        return self.generic(e, env)

    def e_Dict(self, e, env):
        if all(k is not None and isinstance(const(k), str) for k in e.keys):
            return V(fields={const(k): self.ev(v, env)
                             for k, v in zip(e.keys, e.values)},
                     home=tuple(self.stack))
        return self.generic(e, env, [k for k in e.keys if k] + e.values)

    def e_Attribute(self, e, env):
        s = src(e)
        if s in env:
            return env[s]
        if e.attr == 'assemblies' and isinstance(e.value, ast.Name) and \
                e.value.id in self.params and e.value.id not in ('self', 'cls'):
            return V(acc=V(asm=('B0', 0)), aligned='B0', site='asm',
                     bound=frozenset(['B0']))
        b = self.ev(e.value, env)
        if b.asm:
            return V(dep=frozenset([b.asm]))
        return summ(b)

    def e_Subscript(self, e, env):
        b = self.ev(e.value, env)
        sl = e.slice
        if isinstance(sl, ast.Slice):
            for x in (sl.lower, sl.upper, sl.step):
                if x is not None:
                    self.ev(x, env)
            lo = 0 if sl.lower is None else const(sl.lower)
            if is_cont(b):
                if b.elts is not None and sl.upper is None and \
                        sl.step is None and isinstance(lo, int) and \
                        0 <= lo <= len(b.elts):
                    return b.copy(elts=b.elts[lo:], aligned=b.aligned
                                  if lo == 0 else None)
                whole = sl.lower is None and sl.upper is None and \
                    sl.step is None
                if b.elts:
                    return V(elts=[], tail=join_all(b.elts + [b.tail]),
                             acc=b.acc, home=b.home, site=b.site,
                             bound=b.bound)
                return b.copy(aligned=b.aligned if whole else None)
            return summ(b)
        if isinstance(sl, ast.Tuple) and sl.elts and is_cont(b) and \
                b.acc is not None and not b.elts and b.tail is None:
            # X[i, ...]: the element at i (then a part of it); X[:, ...]:
            # the same part of every element
            first = sl.elts[0]
            for x in sl.elts[1:]:
                self.ev(x, env)
            if isinstance(first, ast.Slice):
                whole = first.lower is None and first.upper is None and \
                    first.step is None
                return b.copy(aligned=b.aligned if whole else None)
            return summ(self.extract(b, self.ev(first, env), first))
        iv = self.ev(sl, env)
        c = const(sl)
        if b.fields is not None and isinstance(c, str):
            return b.fields.get(c) or V()
        if is_cont(b):
            n = len(b.elts or [])
            exact = b.tail is None and b.acc is None
            if isinstance(c, int) and not isinstance(c, bool):
                if 0 <= c < n:
                    return b.elts[c]
                if c < 0 and exact and -c <= n:
                    return b.elts[c]
            if b.acc is not None and not b.elts and b.tail is None:
                return self.extract(b, iv, sl)
            return elements(b)
        d, l = flat(b)
        di, li = flat(iv)
        if iv.pos and iv.pos[0][:1] == 'P':
            # the share of one position in something computed over the
            # complete assembly list (finished loops / comprehensions over
            # all assemblies): data of that position
            d = frozenset(p for p in d if not (
                _TOK.fullmatch(p[0]) and p[0][:1] == 'P'
                and p[0] not in self.stack))
        return V(dep=d | di, lab=l)

    def extract(self, c, iv, idx_node, term=None):
        """One element of an element-wise filled list."""
        if c.aligned:
            B = c.aligned
            if term is not None:
                to = (term, 0)
            elif iv is not None and iv.pos and iv.pos[0][:1] == 'P':
                to = iv.pos
            elif iv is not None and iv.num is not None:
                to = ('K', iv.num)
            else:
                to = ('?[%s]' % short(idx_node, 30), 0)

            def f(p):
                if p[0] == B:
                    return (to[0], p[1] + to[1])
                if B in _TOK.findall(p[0]):
                    return (p[0].replace(B, to[0]), p[1])
                return p
            return mapterms(c.acc, f)
        if term is None:
            if iv is not None and iv.pos and iv.pos[1] == 0 and \
                    iv.pos[0][:1] == 'Q':
                term = iv.pos[0]
            else:
                term = '[%s]' % (short(idx_node, 30) if idx_node is not None
                                 else '*')
        suf = '@%s/%s' % (term, c.site)
        bound = c.bound

        def varies(t):
            return any(tok in bound or bound & set(self.tanc.get(tok, ()))
                       for tok in _TOK.findall(t) + (['B0'] if 'B0' in t
                                                     else []))
        return mapterms(c.acc, lambda p: (p[0] + suf, p[1])
                        if varies(p[0]) else p)

    def e_ListComp(self, e, env):
        return self.comp(e, env, e.elt)

    e_GeneratorExp = e_ListComp
    e_SetComp = e_ListComp

    def e_DictComp(self, e, env):
        return summ(self.comp(e, env, ast.Tuple(elts=[e.key, e.value],
                                                ctx=ast.Load())))

    def comp(self, e, env, elt):
        env = dict(env)
        pushed = 0
        aligned = None
        mine = set()
        for gi, g in enumerate(e.generators):
            itv = self.ev(g.iter, env)
            term = self.bind(g, g.target, itv, env, comp=True)
            if term:
                self.stack.append(term)
                pushed += 1
                mine.add(term)
                self.comp_terms.add(term)
            for c in g.ifs:
                self.ev(c, env)
            if gi == 0 and len(e.generators) == 1 and not g.ifs and term \
                    and term[:1] == 'P':
                aligned = term
        v = self.ev(elt, env)
        for _ in range(pushed):
            self.stack.pop()
        return V(acc=v, aligned=aligned, site=id(e), home=tuple(self.stack),
                 bound=frozenset(mine))

    def e_Compare(self, e, env):
        return self.generic(e, env)

    # -- calls
    def e_Call(self, e, env):
        f = e.func
        name = src(f) if isinstance(f, (ast.Name, ast.Attribute)) else ''
        args = e.args
        if isinstance(f, ast.Attribute) and f.attr == SINK:
            return self.sink(e, env)
        if name in ('str', 'repr', 'format') and args:
            return self.fmt(self.ev(args[0], env))
        if isinstance(f, ast.Attribute) and f.attr == 'format':
            r = self.fmt(self.ev(f.value, env))
            for a in args:
                r = self._cat(r, self.fmt(self.ev(a, env)))
            for k in e.keywords:
                r = self._cat(r, self.fmt(self.ev(k.value, env)))
            return r
        if isinstance(f, ast.Attribute) and f.attr == 'join' and args:
            return self._cat(self.fmt(self.ev(f.value, env)),
                             self.fmt(elements(self.ev(args[0], env))))
        if name in ('int', 'np.int64', 'np.int32') and len(args) == 1:
            v = self.ev(args[0], env)
            return v if (v.pos or v.num is not None) else summ(v)
        if name == 'len' and len(args) == 1:
            v = self.ev(args[0], env)
            return V(spec=('len', v))
        if name == 'range':
            vs = [self.ev(a, env) for a in args]
            if len(vs) == 1 and vs[0].spec and vs[0].spec[0] == 'len':
                return V(spec=('range', vs[0].spec[1]))
            if len(vs) == 2 and vs[0].num == 0 and vs[1].spec and \
                    vs[1].spec[0] == 'len':
                return V(spec=('range', vs[1].spec[1]))
            return join_all([summ(v) for v in vs]) or V()
        if name == 'enumerate' and args:
            start = 0
            sv = None
            if len(args) > 1:
                sv = self.ev(args[1], env)
            for k in e.keywords:
                if k.arg == 'start':
                    sv = self.ev(k.value, env)
            if sv is not None:
                start = sv.num
            return V(spec=('enum', self.ev(args[0], env), start))
        if name == 'zip' and args:
            return V(spec=('zip', [self.ev(a, env) for a in args]))
        if name in _PASS and args:
            v = self.ev(args[0], env)
            if is_cont(v) or v.spec:
                return v
            return summ(v)
        if name in _REORDER and args:
            v = self.ev(args[0], env)
            for a in args[1:]:
                self.ev(a, env)
            if is_cont(v):
                return V(acc=elements(v), site=v.site, home=v.home,
                         bound=v.bound)
            if v.spec:
                return summ(v)
            return summ(v)
        if name in _REDUCERS:
            r = self.generic(e, env, list(args) + [k.value
                                                   for k in e.keywords])
            return self.strip(r)
        # methods of tracked containers
        if isinstance(f, ast.Attribute):
            recv = src(f.value)
            if f.attr in _MUTATORS and recv in env and is_cont(env[recv]):
                return self.mutate(e, recv, f.attr, env)
            if f.attr in ('copy',) and not args:
                return self.ev(f.value, env)
            if f.attr in ('keys', 'values', 'items') and not args:
                return summ(self.ev(f.value, env))
        # plain functions of the same module (label formatters ...) are
        # interpreted with their parameters bound to the arguments
        if isinstance(f, ast.Name) and f.id not in env:
            tf = self.fi.mod.funcs.get(f.id)
            if tf is not None and tf.cls is None and tf.outer is None and \
                    self.depth < 3 and not e.keywords and \
                    len(tf.params) == len(args) and \
                    not any(isinstance(a, ast.Starred) for a in args) and \
                    tf.node.args.vararg is None and \
                    tf.node.args.kwarg is None:
                sub = {p_: self.ev(a, env) for p_, a in zip(tf.params, args)}
                return self.run_function(tf, sub) or V()
        # methods of the class that write rows themselves
        if isinstance(f, ast.Attribute) and isinstance(f.value, ast.Name) \
                and f.value.id == 'self' and self.fi.cls is not None:
            m = self.repo.lookup_method(self.fi.cls, f.attr)
            if m is not None and m.mod is self.fi.mod and \
                    self.has_sink(m) and self.depth < 3:
                return self.call_method(m, e, env)
        # anything else: data of the assemblies its arguments belong to
        r = self.generic(e, env, [f.value] if isinstance(f, ast.Attribute)
                         else [])
        d, l = set(r.dep), set(r.lab)
        for a in list(args) + [k.value for k in e.keywords]:
            ad, al = flat(self.ev(a, env))
            d |= ad
            l |= al
        return V(dep=frozenset(d), lab=frozenset(l))

    def binds(self, c):
        """Terms that vary between the elements of `c` when an element is
        added here: the loops entered since the list was created."""
        home = c.home if c.home is not None else ()
        return c.bound | frozenset(t for t in self.stack if t not in home)

    def strip(self, v):
        """A reduction ranges over every element of the comprehension it is
        applied to: what it yields belongs to no single iteration."""
        def gone(t):
            return any(tok in self.comp_terms and tok not in self.stack
                       for tok in _TOK.findall(t))
        return V(dep=frozenset(p for p in v.dep if not gone(p[0])),
                 lab=frozenset(p for p in v.lab if not gone(p[0])))

    def has_sink(self, m, _seen=None):
        seen = _seen or set()
        if m.full in seen:
            return False
        seen.add(m.full)
        for n in ast.walk(m.node):
            if isinstance(n, ast.Call) and isinstance(n.func, ast.Attribute):
                if n.func.attr == SINK:
                    return True
                if isinstance(n.func.value, ast.Name) and \
                        n.func.value.id == 'self' and m.cls is not None:
                    m2 = self.repo.lookup_method(m.cls, n.func.attr)
                    if m2 is not None and m2.mod is m.mod and \
                            m2.name != SINK and self.has_sink(m2, seen):
                        return True
        return False

    def call_method(self, m, call, env):
        ps = [p for p in m.params]
        if ps and ps[0] in ('self', 'cls'):
            ps = ps[1:]
        sub = {}
        for p, a in zip(ps, call.args):
            sub[p] = self.ev(a, env)
        for k in call.keywords:
            if k.arg in ps:
                sub[k.arg] = self.ev(k.value, env)
        for k, v in env.items():
            if k.startswith('self.'):
                sub[k] = v
        r = self.run_function(m, sub)
        for k, v in sub.items():
            if k.startswith('self.'):
                env[k] = v
        return r or V()

    def mutate(self, e, recv, meth, env):
        c = env[recv]
        here = tuple(self.stack)
        args = [self.ev(a, env) for a in e.args]
        if meth == 'append' and args:
            x = args[0]
            if c.elts is not None and c.tail is None and c.acc is None \
                    and c.home == here:
                env[recv] = c.copy(elts=c.elts + [x])
            elif c.elts is not None and c.home == here and c.acc is None:
                env[recv] = c.copy(tail=join(c.tail, x))
            else:
                blk = self.block_of.get(id(e))
                site = blk if c.acc is None or c.site == blk else 'multi'
                env[recv] = c.copy(acc=join(c.acc, x), aligned=None,
                                   site=site, bound=self.binds(c))
        elif meth == 'extend' and args:
            env[recv] = self.concat(c, args[0], c.home == here)
        elif meth == 'insert' and len(args) > 1:
            env[recv] = V(acc=join(elements(c), args[1]), home=c.home,
                          site='multi', bound=self.binds(c))
        elif meth in ('sort', 'reverse'):
            if c.elts:
                env[recv] = V(acc=elements(c), home=c.home, site=c.site,
                              bound=c.bound)
            else:
                env[recv] = c.copy(aligned=None)
        elif meth in ('pop', 'remove', 'clear'):
            env[recv] = c.copy(aligned=None)
            if meth == 'pop':
                return self.extract(c, args[0] if args else None,
                                    e.args[0] if e.args else None) \
                    if (c.acc is not None and not c.elts) else elements(c)
        return V()

    # -- the obligation
    def sink(self, e, env):
        key = e.args[0] if e.args else None
        vals = e.args[1] if len(e.args) > 1 else None
        for k in e.keywords:
            if k.arg == 'key':
                key = k.value
            if k.arg == 'values':
                vals = k.value
        for a in e.args[2:]:
            self.ev(a, env)
        if key is None or vals is None:
            return V()
        kv, vv = self.ev(key, env), self.ev(vals, env)
        kd, kl = flat(kv)
        vd, _ = flat(vv)
        if not vd:
            return V()          # header / units / rule lines
        fi = self.fi
        ks = short(key, 60)
        where = '%s | row label %s' % (fi.full, ' '.join(ks.split()))
        data = ', '.join(sorted({self.describe(t) for t, _ in vd}))
        ok, what = True, ''
        if not kl:
            ok = False
            if kv.cst and not kd:
                why = 'is a constant'
            elif kd:
                why = 'is computed from ' + ', '.join(sorted(
                    {'data of ' + self.describe(t) for t, _ in kd})) + \
                    ' and not from its position'
            else:
                why = 'is not a position in the assembly list'
            what = ('the row carries data of %s, but its label `%s` %s'
                    % (data, ks, why))
        elif len(kl) > 1:
            ok = False
            what = ('the row label `%s` mixes several positions (%s)'
                    % (ks, ', '.join(sorted(self.describe(t)
                                            for t, _ in kl))))
        else:
            (t, o), = kl
            if t[:1] != 'P':
                ok = False
                what = ('the row label `%s` counts %s, while the data of the '
                        'row were read from %s' % (ks, self.describe(t), data))
            else:
                bad = sorted(p for p in (vd | kd) if p != (t, o - 1))
                if bad:
                    ok = False
                    bt, bo = bad[0]
                    if bt == t:
                        what = ('the row label `%s` is position %+d (1-based '
                                'numbering wants +1) of %s, the data of the '
                                'row belong to position %+d'
                                % (ks, o, self.describe(t), bo))
                    else:
                        what = ('the row label `%s` is the position of %s, '
                                'but the row also carries data of %s'
                                % (ks, self.describe(t), self.describe(bt)))
        rec = self.events.setdefault((fi.full, id(e)),
                                     [fi, e, True, '', where])
        if not ok:
            # (the later pass describes the general iteration)
            rec[2], rec[3] = False, (
                'a row of a peak-temperature table must be labelled with the '
                '1-based position in r_obj.assemblies of the assembly whose '
                'record fills it: ' + what)
        return V()

    # -- binding of loop targets
    def bind(self, node, target, itv, env, comp=False):
        """Bind the loop target for one iteration; returns the loop's term
        (or None for an iteration that does not range over assemblies)."""
        sp = itv.spec
        what = 'loop `for %s in %s`' % (short(target, 30),
                                        short(node.iter, 50))

        def kind_of(c):
            if not (is_cont(c) and c.acc is not None):
                return None
            if c.aligned and not c.elts and c.tail is None:
                return 'P'
            return 'Q'

        def coll_term(c, kind=None):
            kind = kind or kind_of(c)
            if kind is None:
                return None
            if kind == 'P':
                return self.term(node, 'P', 'the assembly at the position '
                                 'visited by the ' + what)
            return self.term(
                node, 'Q', 'positions in `%s`, which holds a selection or '
                're-ordering of the assemblies (%s)'
                % (_coll_src(node.iter), what))

        def element(c, term):
            if c.elts or c.tail is not None:
                c = V(acc=elements(c), site=c.site, bound=c.bound)
            return self.extract(c, None, None, term=term)

        if sp and sp[0] == 'range':
            c = sp[1]
            t = coll_term(c)
            self.assign(target, V(pos=(t, 0)) if t else V(), env)
            return t
        if sp and sp[0] == 'enum':
            c, start = sp[1], sp[2]
            t = coll_term(c)
            if t:
                cnt = V(pos=(t, start)) if start is not None else V()
                el = element(c, t)
            else:
                cnt, el = V(), elements(c) if is_cont(c) else summ(c)
            if isinstance(target, (ast.Tuple, ast.List)) and \
                    len(target.elts) == 2:
                self.assign(target.elts[0], cnt, env)
                self.assign(target.elts[1], el, env)
            else:
                self.assign(target, V(elts=[cnt, el], home=None), env)
            return t
        if sp and sp[0] == 'zip':
            comps = [(c.spec[1], True) if (c.spec and c.spec[0] == 'range')
                     else (c, False) for c in sp[1]]
            kinds = {kind_of(c) for c, _ in comps} - {None}
            t = None
            if kinds:
                t = coll_term(None, 'P' if kinds == {'P'} else 'Q')
            els = []
            for c, is_range in comps:
                if kind_of(c) is None:
                    els.append(V() if is_range else
                               (elements(c) if is_cont(c) else summ(c)))
                elif is_range:
                    els.append(V(pos=(t, 0)))
                else:
                    els.append(element(c, t))
            if isinstance(target, (ast.Tuple, ast.List)) and \
                    len(target.elts) == len(els):
                for tg, v in zip(target.elts, els):
                    self.assign(tg, v, env)
            else:
                self.assign(target, V(elts=els, home=None), env)
            return t
        if is_cont(itv) and itv.acc is not None:
            t = coll_term(itv)
            self.assign(target, element(itv, t), env)
            return t
        if is_cont(itv):
            self.assign(target, elements(itv), env)
            return None
        self.assign(target, summ(itv), env)
        return None

    # -- stores
    def assign(self, t, v, env):
        if isinstance(t, ast.Name):
            env[t.id] = v
        elif isinstance(t, (ast.Tuple, ast.List)):
            n = len(t.elts)
            if v.elts is not None and v.tail is None and v.acc is None and \
                    len(v.elts) == n and not any(
                        isinstance(x, ast.Starred) for x in t.elts):
                for x, y in zip(t.elts, v.elts):
                    self.assign(x, y, env)
            else:
                part = elements(v) if is_cont(v) else summ(v)
                for x in t.elts:
                    self.assign(x.value if isinstance(x, ast.Starred) else x,
                                part, env)
        elif isinstance(t, ast.Starred):
            self.assign(t.value, v, env)
        elif isinstance(t, ast.Attribute):
            env[src(t)] = v
        elif isinstance(t, ast.Subscript):
            base = src(t.value)
            bv = env.get(base)
            iv = self.ev(t.slice, env) if not isinstance(
                t.slice, ast.Slice) else V()
            c = const(t.slice)
            if bv is None:
                bv = self.ev(t.value, env)
            first = t.slice.elts[0] if isinstance(t.slice, ast.Tuple) \
                and t.slice.elts else t.slice
            fv = None if isinstance(first, ast.Slice) else self.ev(first, env)
            if fv is not None and fv.pos and fv.pos[0][:1] == 'P' and \
                    fv.pos[0] in self.stack and (
                        (not is_cont(bv) and flat(bv) == (E, E)
                         and bv.fields is None)
                        or (is_cont(bv) and bv.site == 'pos' and bv.aligned)):
                # an array filled position by position: one element per
                # assembly, at the assembly's position
                B = bv.aligned if is_cont(bv) else fv.pos[0]
                t0, o0 = fv.pos
                elem = mapterms(join(v, V(dep=flat(iv)[0] - {fv.pos})),
                                lambda p: (B, p[1] - o0) if p[0] == t0 else p)
                env[base] = V(acc=join(bv.acc if is_cont(bv) else None, elem),
                              aligned=B, bound=frozenset([B]), site='pos',
                              home=())
            elif fv is None and isinstance(t.slice, ast.Tuple) and \
                    is_cont(bv) and bv.site == 'pos' and bv.aligned and \
                    first.lower is None and first.upper is None and \
                    first.step is None:
                # a column of such an array written for all positions at once
                env[base] = bv.copy(acc=join(bv.acc, summ(v)))
            elif bv.fields is not None and isinstance(c, str):
                f2 = dict(bv.fields)
                f2[c] = v
                env[base] = bv.copy(fields=f2)
            elif is_cont(bv) and bv.elts is not None and isinstance(c, int) \
                    and 0 <= c < len(bv.elts):
                e2 = list(bv.elts)
                e2[c] = v
                env[base] = bv.copy(elts=e2)
            elif is_cont(bv):
                env[base] = bv.copy(acc=join(bv.acc, join(v, V(
                    dep=flat(iv)[0]))), aligned=None, site='multi',
                    bound=self.binds(bv))
            else:
                d, l = flat(v)
                env[base] = join(bv, V(dep=d | flat(iv)[0], lab=l))

    # -- statements
    def block(self, stmts, env):
        for st in stmts:
            if isinstance(st, ast.Expr) and isinstance(st.value, ast.Call):
                self.block_of[id(st.value)] = id(stmts)
            self.stmt(st, env)

    def stmt(self, st, env):
        m = getattr(self, 's_' + type(st).__name__, None)
        if m is not None:
            return m(st, env)
        for c in ast.iter_child_nodes(st):
            if isinstance(c, ast.expr):
                self.ev(c, env)

    def s_FunctionDef(self, st, env):
        env[st.name] = V()

    s_AsyncFunctionDef = s_ClassDef = s_FunctionDef

    def s_Assign(self, st, env):
        v = self.ev(st.value, env)
        for t in st.targets:
            self.assign(t, v, env)

    def s_AnnAssign(self, st, env):
        if st.value is not None:
            self.assign(st.target, self.ev(st.value, env), env)

    def s_AugAssign(self, st, env):
        name = src(st.target)
        v = self.ev(st.value, env)
        cur = env.get(name)
        if cur is None:
            cur = self.ev(st.target, env)
        if isinstance(st.op, ast.Add) and is_cont(cur):
            here = tuple(self.stack)
            if cur.home == here:
                new = self.concat(cur, v if is_cont(v) else V(
                    elts=[], tail=summ(v)), True)
            else:
                site = id(st) if cur.acc is None else 'multi'
                new = cur.copy(acc=join(cur.acc, elements(v)), aligned=None,
                               site=site, bound=self.binds(cur) | v.bound)
            self.assign(st.target, new, env)
            return
        if isinstance(st.op, (ast.Add, ast.Sub)) and cur.pos and \
                v.num is not None:
            sgn = 1 if isinstance(st.op, ast.Add) else -1
            self.assign(st.target, V(pos=(cur.pos[0],
                                          cur.pos[1] + sgn * v.num)), env)
            return
        if isinstance(st.op, (ast.Add, ast.Sub)) and cur.num is not None \
                and v.num is not None and not self.stack:
            sgn = 1 if isinstance(st.op, ast.Add) else -1
            self.assign(st.target, V(cst=True, num=cur.num + sgn * v.num),
                        env)
            return
        a, b = summ(cur), summ(v)
        new = V(dep=a.dep | b.dep, lab=a.lab | b.lab)
        if isinstance(st.target, ast.Name):
            env[name] = new
            if self.reduced and name in self.reduced[-1][1]:
                self.reduced[-1][2].add(name)
        elif isinstance(st.target, ast.Attribute):
            env[name] = new
        else:
            self.assign(st.target, new, env)

    def s_Expr(self, st, env):
        self.ev(st.value, env)

    def s_Return(self, st, env):
        if st.value is not None:
            self.returns.append(self.ev(st.value, env))
        raise _Dead()

    def s_Raise(self, st, env):
        raise _Dead()

    def s_Continue(self, st, env):
        if self.exits:
            self.exits[-1].append(dict(env))
        raise _Dead()

    s_Break = s_Continue

    def run_block(self, stmts, env):
        """env after the block, or None when every path left it."""
        try:
            self.block(stmts, env)
            return env
        except _Dead:
            return None

    def s_If(self, st, env):
        self.ev(st.test, env)
        a = self.run_block(st.body, dict(env))
        b = self.run_block(st.orelse, dict(env))
        r = self.join_env(a, b)
        if r is None:
            raise _Dead()
        env.clear()
        env.update(r)

    def s_Try(self, st, env):
        pre = dict(env)
        a = self.run_block(st.body, dict(env))
        outs = []
        mid = self.join_env(pre, a)
        for h in st.handlers:
            he = dict(mid)
            if h.name:
                he[h.name] = V()
            outs.append(self.run_block(h.body, he))
        if a is not None:
            outs.append(self.run_block(st.orelse, dict(a)))
        r = None
        for o in outs:
            r = self.join_env(r, o)
        if r is None:
            raise _Dead()
        if st.finalbody:
            r = self.run_block(st.finalbody, r)
            if r is None:
                raise _Dead()
        env.clear()
        env.update(r)

    s_TryStar = s_Try

    def s_With(self, st, env):
        for it in st.items:
            v = self.ev(it.context_expr, env)
            if it.optional_vars is not None:
                self.assign(it.optional_vars, summ(v), env)
        self.block(st.body, env)

    s_AsyncWith = s_With

    def s_While(self, st, env):
        pre = dict(env)
        cur = pre
        out = None
        for _ in range(2):
            b = dict(cur)
            self.ev(st.test, b)
            self.exits.append([])
            r = self.run_block(st.body, b)
            ex = self.exits.pop()
            out = r
            for x in ex:
                out = self.join_env(out, x)
            if out is None:
                break
            cur = self.join_env(pre, out)
        r = self.join_env(pre, out)
        env.clear()
        env.update(r)
        self.block(st.orelse, env)

    def s_For(self, st, env):
        itv = self.ev(st.iter, env)
        pre = dict(env)
        cur = pre
        out = None
        term = None
        counters = {}
        for n, v in pre.items():
            if v.num is not None and n.isidentifier() and \
                    is_counter(st.body, n):
                counters[n] = v.num
        self.reduced.append((st, set(pre), set()))
        for _ in range(2):
            b = dict(cur)
            term = self.bind(st, st.target, itv, b)
            if term:
                for n, c0 in counters.items():
                    b[n] = V(pos=(term, c0))
                self.stack.append(term)
            self.exits.append([])
            r = self.run_block(st.body, b)
            ex = self.exits.pop()
            if term:
                self.stack.pop()
            out = r
            for x in ex:
                out = self.join_env(out, x)
            if out is None:
                break
            # what the next iteration finds: the state before the loop or
            # the state left by an iteration -- whose terms are then stale
            cur = self.join_env(pre, self.stale(out, term) if term else out)
        _, _, red = self.reduced.pop()
        r = self.join_env(pre, out) if out is not None else pre
        if term:
            for n in counters:
                r[n] = V()
            gone = lambda t: term in _TOK.findall(t)       # noqa: E731
            for n in red:
                if n in r:
                    v = r[n]
                    r[n] = V(dep=frozenset(p for p in v.dep
                                           if not gone(p[0])),
                             lab=frozenset(p for p in v.lab
                                           if not gone(p[0])))
        if term and term[:1] == 'P':
            for n, v in pre.items():
                if is_cont(v) and v.elts == [] and v.tail is None and \
                        v.acc is None and appends_once(st.body, n) == 1 \
                        and n in r and r[n].acc is not None:
                    r[n] = r[n].copy(aligned=term)
        env.clear()
        env.update(r)
        self.block(st.orelse, env)

    s_AsyncFor = s_For

    # -- functions
    def run_function(self, fi, env):
        save = (self.fi, self.returns, getattr(self, 'params', set()),
                self.stack, self.exits, getattr(self, 'reduced', []))
        self.fi, self.returns = fi, []
        a = fi.node.args
        self.params = {x.arg for x in a.posonlyargs + a.args + a.kwonlyargs}
        self.reduced = []
        self.exits = []
        self.depth += 1
        try:
            for p in self.params:
                env.setdefault(p, V())
            self.run_block(fi.node.body, env)
            return join_all(self.returns)
        finally:
            self.depth -= 1
            (self.fi, self.returns, self.params, self.stack, self.exits,
             self.reduced) = save


# ---------------------------------------------------------------------------

def _reads_peak(fi):
    return any(isinstance(n, ast.Attribute) and n.attr == '_peak'
               for n in ast.walk(fi.node))


def run(ctx):
    repo = ctx.repo
    anchors = [repo.func(m, q) for m, q in ANCHORS]
    mod = repo.mod('table')
    for fi in mod.funcs.values():
        if fi not in anchors and fi.cls is not None and _reads_peak(fi) and \
                any(isinstance(n, ast.Call) and
                    isinstance(n.func, ast.Attribute) and n.func.attr == SINK
                    for n in ast.walk(fi.node)):
            anchors.append(fi)
    n_ok = 0
    for fi in anchors:
        it = Interp(ctx, fi)
        it.run_function(fi, {})
        rows = list(it.events.values())
        if not rows:
            raise AnalysisError(
                '%s: %s writes no row that carries assembly data through '
                '%s() in a form the provenance analysis can follow'
                % (RULE, fi.full, SINK))
        for f2, node, ok, what, key in rows:
            if ok:
                n_ok += 1
                ctx.ok(RULE, f2, node, 'label and data of the row belong to '
                       'the same position of r_obj.assemblies')
            else:
                ctx.violation(RULE, f2, node, what,
                              key='%s | %s' % (RULE, key))
    ctx.min_instances(RULE, 3)
    ctx.decided.append(
        'R9 every row of the peak-temperature tables (coolant, duct, pin) '
        'that carries assembly data is labelled with the 1-based position in '
        'r_obj.assemblies of exactly the assembly its data were read from '
        '(provenance analysis of the make methods: positions of the complete '
        'list vs positions in filtered / re-ordered lists, labels carried '
        'with the row, values carried round a loop)')
