"""C18.R9 -- the rejection decisions over the user power file are total.

Clause (necessary condition of C18): a malformed power profile must end in
"error message + exit", and an accepted one must be set up without an
unhandled exception.  The checks of ``dassh/power.py`` (``_from_file`` and
everything it calls in the module, plus the module's other ``_check_*``
functions) decide that with NumPy expressions.  Wherever such an expression
combines two arrays **element by element** (arithmetic, comparison,
``np.allclose`` / ``np.isclose`` / binary ufuncs, ``x op= y``), NumPy raises
``ValueError: operands could not be broadcast together`` when the shapes
disagree -- an unhandled traceback instead of the error message.  So for every
such combination the two shapes must be **equal by construction** (built from
the same data), or **established equal** by a test / an earlier check that
dominates the combination, or the comparison must be spelled with a predicate
that is total over shapes (``np.array_equal`` / ``np.array_equiv``).

How it is decided -- a small symbolic *shape domain*, evaluated by the
checker's own evaluator on the parsed source (nothing is executed):

* values: scalar (with an optional integer value term), array of known rank
  whose axis lengths are linear forms over *length atoms*, array of unknown
  rank (opaque shape atom), unknown;
* length atoms name data-dependent lengths by the **flow-expanded** expression
  they were computed from (``U.value_at``): ``uniq<mat_arr[:, 2]>`` (number of
  distinct values), ``dim0<zfm1>`` (axis of a parameter), ``sel<mask>``
  (rows selected by an index array), ``val<np.max(mat_arr[:, 4])>`` (a data-dependent
  integer), ``dim0<params['zfm']>`` (a value read back from a container slot:
  it was stored at another time, so it is never equal to anything by
  construction).  Renaming locals, hoisting into temporaries, reordering
  independent statements do not change an atom;
* NumPy models for the constructors / reductions / indexing the module uses
  (``unique``, ``arange``, slices ``[:-k]`` / ``[k:]``, boolean selection,
  column selection, ``reshape``, ``linspace`` ...); anything not modelled is
  *unknown* and carries no obligation (counted; a floor on the number of
  decided combinations keeps the rule from going blind);
* **facts** in force at a combination: the tests of the enclosing ``if`` /
  ``while`` / conditional expressions with their polarity, the operands to the
  left in a short-circuit ``and`` / ``or``, the negated tests of earlier
  sibling ``if`` statements whose body cannot complete (early exit), and the
  *postconditions* of earlier sibling calls.  A fact is a linear equation
  between integer terms (``X.shape[0] == N``, ``len(X) == len(Y)``,
  ``X.shape == Y.shape``); an obligation is discharged when the difference of
  the two lengths lies in the linear span of the facts (exact, Fractions);
* **interprocedural**: parameters take the joined shapes of the arguments at
  the module's call sites (rank; fresh axis atoms), facts that hold at every
  call site are translated into the callee's terms (argument expression ->
  parameter) and hold on entry;
* the only postcondition used is *derived*, not listed by name: a function
  that, for one of its array parameters P and two columns c1, c2, rejects
  (cannot complete) unless column c2 is constant on every group of equal c1
  **and** vice versa, establishes a bijection between the distinct values of
  the two columns, hence ``uniq<P[:, c1]> == uniq<P[:, c2]>`` for whatever it
  was called on.

Trusted: the NumPy shape models; ``np.arange(a, b)`` has b - a elements (the
guard that equates it with an axis length makes the bounds integral); an array
indexed with k indices has rank k; a function is analysed with the facts of
its call sites inside the module only (the ``_check_*`` functions called from
``reactor.py`` compare scalars).  Not decided: ``np.dot`` / ``reshape`` size
agreement, indexing in range, dtype errors.
"""
import ast
from fractions import Fraction

from ..core import (AnalysisError, ancestors, call_name, const,
                    enclosing_stmt, src, walk_no_nested)
from .. import util as U

PROPS = ('C18',)
RULE = 'C18.R9'

# floors (measured on the pinned tree and confirmed by reading): 4
# element-by-element combinations of two arrays are decided in the power-file
# checks; 3 places combine arrays whose shapes are determined independently
# and are made safe -- the per-region label test under its length guard and
# the no-gaps difference under the bijection established by the same-bounds
# check (discharged by a fact), and the pins / duct / coolant boundary
# comparison (shape-total predicate, or a length test in front of it)
MIN_DECIDED = 3
MIN_INDEPENDENT_SAFE = 3

ONE = 1     # key of the constant coordinate of a linear form


def _s(n):
    return ' '.join(src(n).split())


# ---------------------------------------------------------------------------
# linear forms over atoms: {atom key | ONE: Fraction}

_ATOMS = {}     # key -> (kind, ast)


def atom(kind, node):
    key = '%s<%s>' % (kind, _s(node))
    _ATOMS.setdefault(key, (kind, node))
    return {key: Fraction(1)}


def lconst(c):
    return {ONE: Fraction(c)} if c else {}


def ladd(a, b, sb=1):
    out = dict(a)
    for k, v in b.items():
        nv = out.get(k, 0) + sb * v
        if nv:
            out[k] = nv
        else:
            out.pop(k, None)
    return out


def lscale(a, c):
    return {k: v * c for k, v in a.items()} if c else {}


def lis_const(a, c=None):
    if any(k != ONE for k in a):
        return False
    return c is None or a.get(ONE, 0) == c


def lfmt(a):
    if not a:
        return '0'
    out = []
    for k in sorted(a, key=str):
        v = a[k]
        t = str(v) if k == ONE else ('%s' % k if v == 1 else '%s*%s' % (v, k))
        out.append(t)
    return ' + '.join(out).replace('+ -', '- ')


def leq(a):
    """`lhs == rhs` for the equation a = 0."""
    pos = {k: v for k, v in a.items() if v > 0}
    neg = {k: -v for k, v in a.items() if v < 0}
    return '%s == %s' % (lfmt(pos), lfmt(neg))


def in_span(q, facts):
    """q (a form) is a linear combination of the forms in facts."""
    if not q:
        return True
    rows = [dict(f) for f in facts if f]
    q = dict(q)
    piv = []
    for r in rows:
        for pk, pr in piv:
            if pk in r:
                c = r[pk] / pr[pk]
                r = ladd(r, pr, -c)
        if r:
            pk = sorted(r, key=str)[0]
            piv.append((pk, r))
    # reduce q (pivots were reduced in order: apply in the same order, twice
    # is not needed because each pivot row has no earlier pivot key)
    for _ in range(len(piv) + 1):
        changed = False
        for pk, pr in piv:
            if pk in q:
                q = ladd(q, pr, -(q[pk] / pr[pk]))
                changed = True
        if not changed:
            break
    return not q


# ---------------------------------------------------------------------------
# shape values

class Sh:
    __slots__ = ('kind', 'dims', 'iv', 'e', 'of')

    def __init__(self, kind, dims=None, iv=None, e=None, of=None):
        self.kind = kind    # 'S' scalar, 'A' array (rank known), 'Q' array
        self.dims = dims    # of unknown rank, 'U' unknown, 'SHP' .shape tuple
        self.iv = iv        # integer value term of a scalar (form) or None
        self.e = e          # expression (ast) an opaque array is named by
        self.of = of        # SHP: the array

    def is_arr(self):
        return self.kind in ('A', 'Q')

    def text(self):
        if self.kind == 'S':
            return 'scalar'
        if self.kind == 'A':
            return '(' + ', '.join(lfmt(d) for d in self.dims) + ')'
        if self.kind == 'Q':
            return 'shape<%s>' % _s(self.e)
        return 'unknown'


SC = Sh('S')
UN = Sh('U')
REC = Sh('R')     # self-reference met while joining the definitions of a name


def scalar(iv=None):
    return Sh('S', iv=iv)


def arr(dims):
    return Sh('A', dims=tuple(dims))


def opaque(node):
    return Sh('Q', e=node)


def qdim(node, k):
    return atom('dim%d' % k, node)


def dims_of(v, rank):
    """Axis lengths of an array value when it is used with `rank` indices."""
    if v.kind == 'A':
        return list(v.dims)
    if v.kind == 'Q':
        return [qdim(v.e, k) for k in range(rank)]
    return None


SAME_SHAPE = {'abs', 'fabs', 'absolute', 'sqrt', 'exp', 'log', 'log10',
              'round', 'around', 'negative', 'isnan', 'isfinite', 'isinf',
              'logical_not', 'asarray', 'array', 'copy', 'sort',
              'ascontiguousarray', 'float64', 'floor', 'ceil', 'sign',
              'square', 'cumsum', 'argsort', 'zeros_like', 'ones_like',
              'empty_like', 'nan_to_num', 'rint', 'asfarray', 'flip'}
REDUCE = {'max', 'min', 'amax', 'amin', 'sum', 'all', 'any', 'mean', 'prod',
          'count_nonzero', 'ptp', 'median', 'std', 'argmax', 'argmin',
          'nanmax', 'nanmin', 'average'}
BINARY = {'allclose', 'isclose', 'equal', 'not_equal', 'less', 'less_equal',
          'greater', 'greater_equal', 'maximum', 'minimum', 'add',
          'subtract', 'multiply', 'divide', 'true_divide', 'logical_and',
          'logical_or', 'logical_xor', 'power', 'hypot', 'arctan2', 'fmax',
          'fmin', 'mod', 'floor_divide', 'copysign'}
BINARY_SCALAR_RESULT = {'allclose'}
TOTAL = {'array_equal', 'array_equiv'}
ARITH = (ast.Add, ast.Sub, ast.Mult, ast.Div, ast.FloorDiv, ast.Mod, ast.Pow,
         ast.BitAnd, ast.BitOr, ast.BitXor)
CMP = (ast.Eq, ast.NotEq, ast.Lt, ast.LtE, ast.Gt, ast.GtE)
GLOBAL_NAMES = {'np', 'numpy', 'len', 'int', 'float', 'abs', 'min', 'max',
                'sum', 'range', 'True', 'False', 'None', 'round', 'list',
                'tuple', 'sorted', 'set'}


def np_name(call):
    n = call_name(call) or ''
    p = n.split('.')
    if len(p) == 2 and p[0] in ('np', 'numpy'):
        return p[1]
    return None


def broadcast(a, b):
    """Result shape of an element-by-element combination (no obligation
    here)."""
    if a.kind == 'S' and b.kind == 'S':
        return SC
    if a.kind == 'S':
        return b if b.is_arr() else UN
    if b.kind == 'S':
        return a if a.is_arr() else UN
    if a.kind == 'A' and b.kind == 'A':
        la, lb = list(a.dims), list(b.dims)
        n = max(len(la), len(lb))
        la = [None] * (n - len(la)) + la
        lb = [None] * (n - len(lb)) + lb
        out = []
        for x, y in zip(la, lb):
            if x is None or (y is not None and lis_const(x, 1)):
                out.append(y)
            else:
                out.append(x)
        return arr(out)
    if a.is_arr() and b.is_arr():
        return a
    return UN


# ---------------------------------------------------------------------------
# per-function evaluator

class Fn:
    def __init__(self, scope, fi):
        self.scope = scope
        self.fi = fi
        self.root = fi.node
        self.params = list(fi.params)
        self.pshape = {}            # param -> Sh
        self.entry = []             # forms that hold on entry
        self.origin = {}            # param -> ['caller: argument']
        self.stack = set()
        # names used as dictionaries with constant keys stay as written (a
        # slot read is resolved through the stores into the slot)
        self.dicts = set()
        for n in ast.walk(self.root):
            if isinstance(n, ast.Subscript) and isinstance(
                    n.value, ast.Name) and isinstance(const(n.slice), str):
                self.dicts.add(n.value.id)
        self.keep = tuple(set(self.params) | self.dicts)

    # -- expansion --------------------------------------------------------
    def expand(self, expr, line):
        return U.value_at(self.root, expr, line, keep=self.keep)

    def shape_at(self, expr, line):
        return self.ev(self.expand(expr, line), {})

    # -- evaluation of an expanded expression -----------------------------
    def ev(self, e, env):
        m = getattr(self, 'ev_' + type(e).__name__, None)
        if m is None:
            return UN
        return m(e, env)

    def ev_Constant(self, e, env):
        v = e.value
        if isinstance(v, bool):
            return SC
        if isinstance(v, int):
            return scalar(lconst(v))
        if isinstance(v, float) and v == int(v):
            return scalar(lconst(int(v)))
        return SC

    def ev_JoinedStr(self, e, env):
        return SC

    def ev_Name(self, e, env):
        nm = e.id
        if nm in env:
            return env[nm]
        if nm in self.pshape and not U.assigns_of(self.root, nm):
            return self.pshape[nm]
        if nm in self.params and not U.assigns_of(self.root, nm):
            return UN
        key = ('name', nm)
        if key in self.stack:
            return REC      # x = f(x): whatever the other definitions give
        self.stack.add(key)
        try:
            vals = []
            for d in U.assigns_of(self.root, nm):
                if isinstance(d, ast.Assign) and len(d.targets) == 1 and \
                        isinstance(d.targets[0], ast.Name):
                    vals.append(self.shape_at(d.value, d.lineno))
                elif isinstance(d, ast.For):
                    vals.append(self.loop_elem(d, nm))
                else:
                    vals.append(UN)
            if nm in self.pshape:
                vals.append(self.pshape[nm])
        finally:
            self.stack.discard(key)
        return self.join(vals, e)

    def loop_elem(self, loop, nm):
        it = self.expand(loop.iter, loop.lineno)
        tgt = loop.target
        if isinstance(tgt, ast.Name):
            return self.elem(self.ev(it, {}), it, tgt)
        if isinstance(it, ast.Call) and isinstance(it.func, ast.Name) and \
                isinstance(tgt, ast.Tuple):
            names = [t.id if isinstance(t, ast.Name) else None
                     for t in tgt.elts]
            if nm in names:
                i = names.index(nm)
                if it.func.id == 'enumerate' and it.args:
                    if i == 0:
                        return scalar(atom('val', ast.Name(id=nm)))
                    return self.elem(self.ev(it.args[0], {}), it.args[0],
                                     tgt.elts[i])
                if it.func.id == 'zip' and i < len(it.args):
                    return self.elem(self.ev(it.args[i], {}), it.args[i],
                                     tgt.elts[i])
        return UN

    def elem(self, v, it, tgt):
        """Element of an iterable of shape v."""
        if isinstance(it, ast.Call) and isinstance(it.func, ast.Name) and \
                it.func.id in ('range', 'reversed'):
            return scalar(atom('val', tgt))
        if v.kind == 'A':
            if len(v.dims) == 1:
                return scalar(atom('val', tgt))
            return arr(v.dims[1:])
        return UN

    def join(self, vals, e):
        vals = [v for v in vals if v.kind != 'R']
        if not vals:
            return UN
        if len(vals) == 1:
            return vals[0]
        if all(v.kind == 'S' for v in vals):
            return SC
        if all(v.kind == 'A' for v in vals) and \
                len({len(v.dims) for v in vals}) == 1:
            return arr([qdim(e, k) for k in range(len(vals[0].dims))])
        if all(v.is_arr() for v in vals):
            return opaque(e)
        return UN

    def ev_Attribute(self, e, env):
        if e.attr == 'shape':
            return Sh('SHP', of=self.ev(e.value, env), e=e.value)
        v = self.ev(e.value, env)
        if e.attr == 'T':
            if v.kind == 'A':
                return arr(reversed(v.dims))
            return v
        if e.attr == 'size':
            if v.kind == 'A' and len(v.dims) == 1:
                return scalar(v.dims[0])
            if v.is_arr():
                return scalar(atom('size', e.value))
            return SC if v.kind != 'U' else UN
        if e.attr == 'ndim':
            return SC
        return UN

    def slot_read(self, e):
        """X['key'] on a local dictionary: joined shape of what the function
        stores into that slot; the lengths are opaque (stored at another
        time)."""
        key = ('slot', _s(e))
        if key in self.stack:
            return UN
        self.stack.add(key)
        try:
            vals = []
            for t, st in U.stores(self.root):
                if isinstance(st, ast.Assign) and _s(t) == _s(e):
                    vals.append(self.shape_at(st.value, st.lineno))
        finally:
            self.stack.discard(key)
        if not vals:
            return UN
        if all(v.kind == 'S' for v in vals):
            return SC
        if all(v.kind == 'A' for v in vals) and \
                len({len(v.dims) for v in vals}) == 1:
            return arr([qdim(e, k) for k in range(len(vals[0].dims))])
        if all(v.is_arr() for v in vals):
            return opaque(e)
        return UN

    def ev_Subscript(self, e, env):
        if isinstance(const(e.slice), str):
            if isinstance(e.value, ast.Name) and e.value.id in self.dicts:
                return self.slot_read(e)
            return UN
        base = self.ev(e.value, env)
        if base.kind == 'SHP':
            k = const(e.slice)
            a = base.of
            if not isinstance(k, int) or isinstance(k, bool):
                return SC
            if a.kind == 'A':
                if -len(a.dims) <= k < len(a.dims):
                    return scalar(a.dims[k])
                return SC
            if a.kind == 'Q' and k >= 0:
                return scalar(qdim(a.e, k))
            if k >= 0:
                return scalar(qdim(base.e, k))
            return SC
        if not base.is_arr():
            return UN
        idx = e.slice.elts if isinstance(e.slice, ast.Tuple) else [e.slice]
        if any(isinstance(i, ast.Constant) and i.value in (None, Ellipsis)
               for i in idx):
            return UN
        rank = len(base.dims) if base.kind == 'A' else len(idx)
        if len(idx) > rank:
            return UN
        if base.kind == 'Q' and len(idx) == 1 and not isinstance(
                idx[0], ast.Slice):
            iv = self.ev(idx[0], env)
            if iv.kind == 'S':
                return UN       # one row of an array of unknown rank
            if iv.is_arr():
                return opaque(e)
            return UN
        dims = dims_of(base, rank)
        out = []
        for ax, i in enumerate(idx):
            d = dims[ax]
            if isinstance(i, ast.Slice):
                nd = self.slice_len(d, i, e, ax)
                out.append(nd)
                continue
            if isinstance(i, (ast.Tuple, ast.List)):
                out.append(lconst(len(i.elts)))
                continue
            iv = self.ev(i, env)
            if iv.kind == 'S':
                continue            # axis dropped
            if iv.is_arr():
                # boolean mask / index array: data-dependent selection
                out.append(atom('sel', i))
                continue
            return UN
        out += dims[len(idx):]
        if not out:
            return scalar(atom('val', e))
        return arr(out)

    def slice_len(self, d, sl, e, ax):
        if sl.step is not None:
            return atom('sl%d' % ax, e)
        lo = None if sl.lower is None else const(sl.lower)
        hi = None if sl.upper is None else const(sl.upper)
        if sl.lower is None and sl.upper is None:
            return d
        if sl.lower is None and isinstance(hi, int) and hi < 0:
            return ladd(d, lconst(hi))
        if sl.upper is None and isinstance(lo, int) and lo >= 0:
            return ladd(d, lconst(-lo))
        if sl.upper is None and isinstance(lo, int) and lo < 0:
            return lconst(-lo)
        if isinstance(lo, int) and isinstance(hi, int) and lo >= 0 and \
                hi < 0:
            return ladd(d, lconst(hi - lo))
        return atom('sl%d' % ax, e)

    def ev_UnaryOp(self, e, env):
        v = self.ev(e.operand, env)
        if isinstance(e.op, ast.Not):
            return SC
        if v.kind == 'S' and v.iv is not None and isinstance(e.op, ast.USub):
            return scalar(lscale(v.iv, -1))
        return v if v.kind != 'S' else SC

    def ev_BoolOp(self, e, env):
        return SC

    def ev_IfExp(self, e, env):
        a, b = self.ev(e.body, env), self.ev(e.orelse, env)
        return self.join([a, b], e)

    def ev_BinOp(self, e, env):
        a, b = self.ev(e.left, env), self.ev(e.right, env)
        if a.kind == 'S' and b.kind == 'S':
            if a.iv is not None and b.iv is not None:
                if isinstance(e.op, ast.Add):
                    return scalar(ladd(a.iv, b.iv))
                if isinstance(e.op, ast.Sub):
                    return scalar(ladd(a.iv, b.iv, -1))
                if isinstance(e.op, ast.Mult) and lis_const(a.iv):
                    return scalar(lscale(b.iv, a.iv.get(ONE, 0)))
                if isinstance(e.op, ast.Mult) and lis_const(b.iv):
                    return scalar(lscale(a.iv, b.iv.get(ONE, 0)))
            return scalar(atom('val', e))
        if isinstance(e.op, ast.MatMult):
            return UN
        return broadcast(a, b)

    def ev_Compare(self, e, env):
        if any(not isinstance(o, CMP) for o in e.ops):
            return SC
        v = self.ev(e.left, env)
        for c in e.comparators:
            v = broadcast(v, self.ev(c, env))
        return v

    def _display(self, e, env):
        vs = [self.ev(x, env) for x in e.elts]
        if all(v.kind == 'S' for v in vs):
            return arr([lconst(len(vs))])
        return UN

    ev_List = _display
    ev_Tuple = _display

    def _comp(self, e, env):
        if len(e.generators) != 1 or e.generators[0].ifs:
            return UN
        g = e.generators[0]
        it = self.ev(g.iter, env)
        env2 = dict(env)
        if isinstance(g.target, ast.Name):
            env2[g.target.id] = self.elem(it, g.iter, g.target)
        el = self.ev(e.elt, env2)
        if el.kind == 'S':
            if it.kind == 'A':
                return arr([it.dims[0]])
            if isinstance(g.iter, ast.Call) and isinstance(
                    g.iter.func, ast.Name) and g.iter.func.id == 'range' \
                    and len(g.iter.args) == 1:
                n = self.ev(g.iter.args[0], env)
                if n.kind == 'S' and n.iv is not None:
                    return arr([n.iv])
        return UN

    ev_ListComp = _comp

    def ev_Call(self, e, env):
        f = e.func
        nn = np_name(e)
        args = e.args
        kws = {k.arg for k in e.keywords}
        if isinstance(f, ast.Name):
            if f.id == 'len' and len(args) == 1:
                v = self.ev(args[0], env)
                if v.kind == 'A':
                    return scalar(v.dims[0])
                if v.kind == 'Q':
                    return scalar(qdim(v.e, 0))
                return scalar(atom('len', args[0]))
            if f.id in ('int', 'float', 'round') and args:
                v = self.ev(args[0], env)
                if v.kind == 'S' and v.iv is not None:
                    return scalar(v.iv)
                return scalar(atom('val', e))
            if f.id in ('max', 'min', 'sum', 'any', 'all', 'bool', 'str'):
                return scalar(atom('val', e))
            if f.id == 'abs' and args:
                v = self.ev(args[0], env)
                return v if v.kind != 'S' else SC
            if f.id in ('list', 'tuple', 'sorted') and len(args) == 1:
                v = self.ev(args[0], env)
                return v if v.kind == 'A' else UN
            g = self.scope.funcs.get(f.id)
            if g is not None:
                return self.scope.return_shape(self, g, e, env)
            return UN
        if nn is not None:
            if nn in TOTAL or nn in BINARY_SCALAR_RESULT:
                return SC
            if nn == 'unique' and len(args) == 1 and not kws:
                v = self.ev(args[0], env)
                if v.is_arr():
                    return arr([atom('uniq', args[0])])
                return UN
            if nn == 'arange' and not (kws - {'dtype'}) and \
                    1 <= len(args) <= 2:
                vs = [self.ev(a, env) for a in args]
                if all(v.kind == 'S' and v.iv is not None for v in vs):
                    if len(vs) == 1:
                        return arr([vs[0].iv])
                    return arr([ladd(vs[1].iv, vs[0].iv, -1)])
                return arr([atom('len', e)])
            if nn == 'linspace' and len(args) >= 2:
                n = args[2] if len(args) > 2 else U.kwarg(e, 'num')
                if n is None:
                    return arr([lconst(50)])
                v = self.ev(n, env)
                if v.kind == 'S' and v.iv is not None:
                    return arr([v.iv])
                return arr([atom('len', e)])
            if nn in ('zeros', 'ones', 'empty', 'full') and args:
                return self.from_dims(args[0], env, e)
            if nn in REDUCE and args:
                if 'axis' in kws or len(args) > 1:
                    return UN
                return scalar(atom('val', e))
            if nn in SAME_SHAPE and args:
                v = self.ev(args[0], env)
                if nn in ('array', 'asarray') and v.kind == 'S':
                    return v
                return v
            if nn == 'diff' and len(args) == 1 and not kws:
                v = self.ev(args[0], env)
                if v.kind == 'A' and len(v.dims) == 1:
                    return arr([ladd(v.dims[0], lconst(-1))])
                return UN
            if nn in BINARY and len(args) >= 2:
                return broadcast(self.ev(args[0], env),
                                 self.ev(args[1], env))
            if nn in ('loadtxt', 'genfromtxt'):
                return opaque(e)
            return UN
        if isinstance(f, ast.Attribute):
            recv = self.ev(f.value, env)
            if f.attr in REDUCE:
                if 'axis' in kws or args:
                    return UN
                return scalar(atom('val', e)) if recv.kind != 'U' else UN
            if f.attr in ('copy', 'astype', 'round', 'clip', 'conj'):
                return recv
            if f.attr == 'reshape' and recv.is_arr() and args:
                if len(args) == 1:
                    return self.from_dims(args[0], env, e)
                return self.from_dims(ast.Tuple(elts=list(args)), env, e)
            if f.attr in ('flatten', 'ravel') and recv.kind == 'A' and \
                    len(recv.dims) == 1:
                return recv
            if f.attr == 'tolist':
                return recv
        return UN

    def from_dims(self, node, env, e):
        elts = node.elts if isinstance(node, (ast.Tuple, ast.List)) \
            else [node]
        out = []
        for i, x in enumerate(elts):
            v = self.ev(x, env)
            if v.kind != 'S':
                return UN
            if v.iv is not None and not (lis_const(v.iv) and
                                         v.iv.get(ONE, 0) < 0):
                out.append(v.iv)
            else:
                out.append(atom('ax%d' % i, e))
        return arr(out)

    # -- facts ------------------------------------------------------------
    def facts_of_test(self, test, line, pol):
        """Linear equations implied by `test` evaluating to `pol`."""
        if isinstance(test, ast.UnaryOp) and isinstance(test.op, ast.Not):
            return self.facts_of_test(test.operand, line, not pol)
        if isinstance(test, ast.BoolOp):
            if isinstance(test.op, ast.And) == pol:
                out = []
                for v in test.values:
                    out += self.facts_of_test(v, line, pol)
                return out
            return []
        if isinstance(test, ast.Name):
            # a flag with one plain definition
            e = self.expand(test, line)
            if not isinstance(e, ast.Name):
                return self.facts_of_test(e, line, pol)
            return []
        cp = U.compare_parts(test)
        if cp is None:
            return []
        l, op, r = cp
        if not ((op is ast.Eq and pol) or (op is ast.NotEq and not pol)):
            return []
        a, b = self.shape_at(l, line), self.shape_at(r, line)
        if a.kind == 'S' and b.kind == 'S' and a.iv is not None and \
                b.iv is not None:
            return [ladd(a.iv, b.iv, -1)]
        if a.kind == 'SHP' and b.kind == 'SHP':
            x, y = a.of, b.of
            if x.kind == 'A' and y.kind == 'A':
                if len(x.dims) != len(y.dims):
                    return []
                return [ladd(p, q, -1) for p, q in zip(x.dims, y.dims)]
            ex = self.expand(a.e, line) if a.e is not None else None
            ey = self.expand(b.e, line) if b.e is not None else None
            fx = self.whole(x, ex)
            fy = self.whole(y, ey)
            if fx is not None and fy is not None:
                out = [ladd(fx, fy, -1)]
                # one array of known rank: the other has that rank
                for p, q, qe in ((x, y, ey), (y, x, ex)):
                    if p.kind == 'A' and q.kind == 'Q':
                        out += [ladd(d, qdim(q.e, k), -1)
                                for k, d in enumerate(p.dims)]
                return out
        return []

    def whole(self, v, e):
        """Atom naming the whole shape of an array value."""
        if v.kind == 'Q':
            return atom('shape', v.e)
        if v.kind == 'A' and e is not None:
            return atom('shape', e)
        return None

    def facts_at(self, node):
        """Facts in force where `node` (of the function's own tree) is
        evaluated."""
        facts = list(self.entry)
        here = getattr(enclosing_stmt(node), 'lineno', 0)

        def add(forms, at):
            for f in forms:
                if self.stable(f, at, here):
                    facts.append(f)
        child = node
        for a in ancestors(node):
            if isinstance(a, ast.Lambda):
                break
            line = getattr(enclosing_stmt(a), 'lineno', 0) if not isinstance(
                a, ast.stmt) else a.lineno
            if isinstance(a, ast.BoolOp):
                k = [i for i, v in enumerate(a.values) if v is child]
                if k:
                    for v in a.values[:k[0]]:
                        add(self.facts_of_test(
                            v, line, isinstance(a.op, ast.And)), line)
            elif isinstance(a, ast.IfExp):
                if child is a.body:
                    add(self.facts_of_test(a.test, line, True), line)
                elif child is a.orelse:
                    add(self.facts_of_test(a.test, line, False), line)
            elif isinstance(a, (ast.ListComp, ast.GeneratorExp, ast.SetComp)):
                if child is a.elt:
                    for g in a.generators:
                        for t in g.ifs:
                            add(self.facts_of_test(t, line, True), line)
            elif isinstance(a, (ast.If, ast.While)):
                if any(child is x for x in a.body):
                    add(self.facts_of_test(a.test, a.lineno, True), a.lineno)
                elif isinstance(a, ast.If) and any(child is x
                                                   for x in a.orelse):
                    add(self.facts_of_test(a.test, a.lineno, False),
                        a.lineno)
            if isinstance(child, ast.stmt):
                for f in ('body', 'orelse', 'finalbody'):
                    blk = getattr(a, f, None)
                    if isinstance(blk, list) and any(child is x
                                                     for x in blk):
                        i = [k for k, x in enumerate(blk) if x is child][0]
                        for st in blk[:i]:
                            add(self.facts_after(st), st.lineno)
            if isinstance(a, (ast.FunctionDef, ast.AsyncFunctionDef)):
                break
            child = a
        return facts

    def stable(self, form, at, here):
        """No local named by an atom of the fact (names that flow expansion
        had to leave symbolic: loop variables, conditionally defined locals)
        is bound again between the place the fact was established and the
        place it is used."""
        for k in form:
            if k == ONE:
                continue
            for n in ast.walk(_ATOMS[k][1]):
                if isinstance(n, ast.Name) and n.id not in GLOBAL_NAMES:
                    for d in U.assigns_of(self.root, n.id):
                        if at < d.lineno <= here:
                            return False
        return True

    def facts_after(self, st):
        """Facts that hold once the statement has completed normally."""
        out = []
        if isinstance(st, ast.If):
            tb, eb = _cannot_complete(st.body), \
                bool(st.orelse) and _cannot_complete(st.orelse)
            if tb and not eb:
                out += self.facts_of_test(st.test, st.lineno, False)
            elif eb and not tb:
                out += self.facts_of_test(st.test, st.lineno, True)
            return out
        if isinstance(st, (ast.Expr, ast.Assign)) and isinstance(
                st.value, ast.Call) and isinstance(st.value.func, ast.Name):
            g = self.scope.funcs.get(st.value.func.id)
            if g is not None:
                out += self.scope.post_at(self, g, st.value, st.lineno)
        return out


def _cannot_complete(stmts):
    if not stmts:
        return False
    last = stmts[-1]
    if isinstance(last, (ast.Return, ast.Raise, ast.Continue, ast.Break)):
        return True
    if isinstance(last, ast.Expr) and isinstance(last.value, ast.Call) and \
            (call_name(last.value) or '') in ('sys.exit', 'exit', 'quit',
                                              'os._exit'):
        return True
    if isinstance(last, ast.If) and last.orelse:
        return _cannot_complete(last.body) and _cannot_complete(last.orelse)
    return False


# ---------------------------------------------------------------------------
# translation of forms between caller and callee terms

class _Repl(ast.NodeTransformer):
    def __init__(self, table):
        self.table = table      # normalised source -> replacement ast

    def visit(self, n):
        if isinstance(n, ast.expr):
            r = self.table.get(_s(n))
            if r is not None:
                return U._clone(r)
        return self.generic_visit(n)


# ---------------------------------------------------------------------------
# the module scope: call graph, parameter binding, postconditions

class Scope:
    def __init__(self, ctx, mod, start):
        self.ctx = ctx
        self.mod = mod
        self.funcs = {q: f for q, f in mod.funcs.items()
                      if f.cls is None and f.outer is None}
        self.models = {}
        self.calls = {}     # callee name -> [(caller Fn, call node, line)]
        self._post = {}
        # functions reached from the start function inside the module
        order, seen, work = [], set(), [start]
        while work:
            q = work.pop(0)
            if q in seen or q not in self.funcs:
                continue
            seen.add(q)
            order.append(q)
            for c in walk_no_nested(self.funcs[q].node):
                if isinstance(c, ast.Call) and isinstance(c.func, ast.Name) \
                        and c.func.id in self.funcs:
                    work.append(c.func.id)
        self.reached = order
        extra = sorted(q for q in self.funcs
                       if q.startswith('_check_') and q not in seen)
        self.order = self._topo(order) + extra

    def _topo(self, names):
        callees = {}
        for q in names:
            callees[q] = {c.func.id for c in walk_no_nested(
                self.funcs[q].node) if isinstance(c, ast.Call) and
                isinstance(c.func, ast.Name) and c.func.id in names
                and c.func.id != q}
        out, done = [], set()
        while len(out) < len(names):
            ready = [q for q in names if q not in done and not any(
                q in callees[p] for p in names if p not in done and p != q)]
            if not ready:       # recursion: callers first as listed
                ready = [q for q in names if q not in done][:1]
            for q in ready:
                out.append(q)
                done.add(q)
        return out

    def model(self, q):
        if q not in self.models:
            self.models[q] = Fn(self, self.funcs[q])
        return self.models[q]

    # -- parameter binding ------------------------------------------------
    def bind(self, q):
        """Shapes of the parameters of q and the facts that hold on entry,
        from the call sites recorded by the callers analysed before."""
        F = self.model(q)
        sites = self.calls.get(q, [])
        if not sites:
            return
        per_param = {p: [] for p in F.params}
        per_site_facts = []
        for C, call, line in sites:
            table = {}
            shapes = {}
            for i, a in enumerate(call.args):
                if i >= len(F.params) or isinstance(a, ast.Starred):
                    continue
                p = F.params[i]
                ea = C.expand(a, line)
                v = C.ev(ea, {})
                shapes[p] = (v, ea)
                per_param[p].append(v)
                F.origin.setdefault(p, []).append(
                    '`%s` is `%s` at the call in %s'
                    % (p, _s(a)[:50], C.fi.qual))
            for k in call.keywords:
                if k.arg in per_param:
                    ea = C.expand(k.value, line)
                    v = C.ev(ea, {})
                    shapes[k.arg] = (v, ea)
                    per_param[k.arg].append(v)
            facts = C.facts_at(call)
            # the facts of the caller in the callee's terms: the argument
            # expression is the parameter; the axes of an argument are the
            # axes of the parameter
            for p, (v, ea) in shapes.items():
                table[_s(ea)] = ast.Name(id=p, ctx=ast.Load())
            extra = []
            for p, (v, ea) in shapes.items():
                pn = ast.Name(id=p, ctx=ast.Load())
                if v.kind == 'A':
                    for k, d in enumerate(v.dims):
                        extra.append(ladd(d, qdim(pn, k), -1))
                elif v.kind == 'S' and v.iv is not None:
                    extra.append(ladd(v.iv, atom('val', pn), -1))
                elif v.kind == 'Q':
                    extra.append(ladd(atom('shape', v.e),
                                      atom('shape', pn), -1))
            allowed = set(F.params) | GLOBAL_NAMES
            # eliminate the caller's atoms: a callee fact is a combination
            # of caller facts (+ the argument/parameter identities) that
            # mentions callee terms only
            tr = _project(facts + extra, table, allowed)
            per_site_facts.append(tr)
        for p, vs in per_param.items():
            if not vs:
                continue
            pn = ast.Name(id=p, ctx=ast.Load())
            if all(v.kind == 'S' for v in vs):
                F.pshape[p] = scalar(atom('val', pn))
            elif all(v.kind == 'A' for v in vs) and \
                    len({len(v.dims) for v in vs}) == 1:
                F.pshape[p] = arr([qdim(pn, k)
                                   for k in range(len(vs[0].dims))])
            elif all(v.is_arr() for v in vs):
                F.pshape[p] = opaque(pn)
            else:
                F.pshape[p] = UN
        # facts that hold at every call site
        if per_site_facts:
            first = per_site_facts[0]
            F.entry = [f for f in first
                       if all(in_span(f, other)
                              for other in per_site_facts[1:])]

    # -- return shapes ----------------------------------------------------
    def return_shape(self, C, g, call, env):
        """A function that returns one of its parameters on every path has
        the shape of that argument."""
        rets = [r for r in walk_no_nested(g.node)
                if isinstance(r, ast.Return)]
        if not rets:
            return UN
        names = set()
        for r in rets:
            if not isinstance(r.value, ast.Name):
                return UN
            names.add(r.value.id)
        if len(names) != 1:
            return UN
        p = names.pop()
        if p not in g.params or any(
                isinstance(d, (ast.Assign, ast.For, ast.With))
                for d in U.assigns_of(g.node, p)):
            return UN
        i = g.params.index(p)
        if i < len(call.args):
            return C.ev(call.args[i], env)
        return UN

    # -- derived postconditions -------------------------------------------
    def post(self, g):
        """[(param, c1, c2)]: g cannot complete unless the distinct values
        of columns c1 and c2 of its parameter are in bijection."""
        if g.qual in self._post:
            return self._post[g.qual]
        G = self.model(g.qual)
        found = set()
        def groups_over(it, v):
            """(P, c1, group text) when `it` is np.unique(P[:, c1])."""
            if not (isinstance(it, ast.Call) and np_name(it) == 'unique'
                    and len(it.args) == 1 and not it.keywords):
                return None
            col = _column(it.args[0])
            if col is None or col[0] not in g.params or \
                    U.assigns_of(g.node, col[0]):
                return None
            return col[0], col[1], '%s[%s[:, %d] == %s]' % (
                col[0], col[0], col[1], v)

        for pos, lp in enumerate(g.node.body):
            # unconditional statements of the function body that are not
            # preceded by an early return
            if any(isinstance(n, ast.Return) for st in g.node.body[:pos]
                   for n in ast.walk(st)):
                break
            if isinstance(lp, ast.If) and not lp.orelse and \
                    _cannot_complete(lp.body):
                # "some group is not constant" decided over a comprehension
                t = G.expand(lp.test, lp.lineno)
                for it, v, cond in _exists_forms(t):
                    gr = groups_over(it, v)
                    if gr is None:
                        continue
                    c2 = _not_constant_column(cond, gr[2], v, gr[0], gr[1])
                    if c2 is not None and c2 != gr[1]:
                        found.add((gr[0], gr[1], c2))
                continue
            if not isinstance(lp, ast.For) or not isinstance(
                    lp.target, ast.Name) or lp.orelse:
                continue
            v = lp.target.id
            gr = groups_over(G.expand(lp.iter, lp.lineno), v)
            if gr is None:
                continue
            P, c1, group = gr
            for k, st in enumerate(lp.body):
                if not (isinstance(st, ast.If) and not st.orelse and
                        _cannot_complete(st.body)):
                    continue
                if any(isinstance(n, (ast.Continue, ast.Break, ast.Return))
                       for p_ in lp.body[:k] for n in ast.walk(p_)):
                    continue
                t = G.expand(st.test, st.lineno)
                c2 = _not_constant_column(t, group, v, P, c1)
                if c2 is not None and c2 != c1:
                    found.add((P, c1, c2))
        out = sorted((P, a, b) for (P, a, b) in found
                     if a < b and (P, b, a) in found)
        self._post[g.qual] = out
        return out

    def post_at(self, C, g, call, line):
        out = []
        for P, c1, c2 in self.post(g):
            i = g.params.index(P)
            if i >= len(call.args):
                continue
            ea = C.expand(call.args[i], line)
            cols = []
            for c in (c1, c2):
                e = ast.parse('X[:, %d]' % c, mode='eval').body
                e.value = U._clone(ea)
                cols.append(ast.fix_missing_locations(
                    U._clone(e)))
            out.append(ladd(atom('uniq', cols[0]), atom('uniq', cols[1]),
                            -1))
        return out


def _project(facts, table, allowed):
    """Forms over callee terms implied by the caller's facts: atoms are
    rewritten through `table`; atoms that still mention caller names are
    eliminated by Gaussian elimination."""
    rows = []
    foreign = set()
    for f in facts:
        out = {}
        for k, v in f.items():
            if k == ONE:
                out[ONE] = out.get(ONE, 0) + v
                continue
            kind, node = _ATOMS[k]
            new = _Repl(table).visit(U._clone(node))
            nk = list(atom(kind, new))[0]
            out[nk] = out.get(nk, 0) + v
            names = {n.id for n in ast.walk(new) if isinstance(n, ast.Name)}
            if not names <= allowed:
                foreign.add(nk)
        out = {k: v for k, v in out.items() if v}
        if out:
            rows.append(out)
    for fk in sorted(foreign):
        piv = None
        for r in rows:
            if fk in r:
                piv = r
                break
        if piv is None:
            continue
        rest = []
        for r in rows:
            if r is piv:
                continue
            if fk in r:
                r = ladd(r, piv, -(r[fk] / piv[fk]))
            if r:
                rest.append(r)
        rows = rest
    return rows


def _column(e):
    """(array name, j) for `X[:, j]`."""
    if isinstance(e, ast.Subscript) and isinstance(e.value, ast.Name) and \
            isinstance(e.slice, ast.Tuple) and len(e.slice.elts) == 2:
        a, b = e.slice.elts
        if isinstance(a, ast.Slice) and a.lower is None and a.upper is None \
                and a.step is None and isinstance(const(b), int):
            return e.value.id, const(b)
    return None


def _exists_forms(t):
    """(iterable, variable, condition) when the (expanded) test t is true
    exactly if the condition holds for some element of the iterable:
    `[.. for v in I if C]` (non-empty / len > 0), `any(C for v in I)`,
    `any(.. for v in I if C)`, `not all(C' for v in I)` (C = not C')."""
    pol = True
    while isinstance(t, ast.UnaryOp) and isinstance(t.op, ast.Not):
        t, pol = t.operand, not pol
    cp = U.compare_parts(t)
    if cp and isinstance(cp[0], ast.Call) and isinstance(
            cp[0].func, ast.Name) and cp[0].func.id == 'len' and \
            len(cp[0].args) == 1 and (
                (cp[1] in (ast.Gt, ast.NotEq) and const(cp[2]) == 0) or
                (cp[1] is ast.GtE and const(cp[2]) == 1)):
        t = cp[0].args[0]

    def one(c):
        if isinstance(c, (ast.ListComp, ast.GeneratorExp)) and \
                len(c.generators) == 1 and isinstance(
                    c.generators[0].target, ast.Name):
            return c.generators[0]
        return None
    if isinstance(t, ast.ListComp) and pol:
        g = one(t)
        if g is not None and len(g.ifs) == 1:
            yield g.iter, g.target.id, g.ifs[0]
        return
    if isinstance(t, ast.Call) and len(t.args) == 1 and not t.keywords:
        nm = t.func.id if isinstance(t.func, ast.Name) else np_name(t)
        g = one(t.args[0])
        if g is None:
            return
        if nm == 'any' and pol:
            if not g.ifs:
                yield g.iter, g.target.id, t.args[0].elt
            elif len(g.ifs) == 1 and (const(t.args[0].elt) is True or (
                    isinstance(t.args[0].elt, ast.Name))):
                if const(t.args[0].elt) is True:
                    yield g.iter, g.target.id, g.ifs[0]
        elif nm == 'all' and not pol and not g.ifs:
            yield g.iter, g.target.id, ast.UnaryOp(
                op=ast.Not(), operand=t.args[0].elt)


def _not_constant_column(t, group, v, P, c1):
    """t (expanded) says "column c2 of the group is not constant": returns
    c2.  Spellings: not np.all(G[:, c] == G[0, c]), np.any(G[:, c] !=
    G[0, c]), not (G[:, c] == G[0, c]).all(), len(np.unique(G[:, c])) != 1
    / > 1."""
    pol = True
    while isinstance(t, ast.UnaryOp) and isinstance(t.op, ast.Not):
        t, pol = t.operand, not pol
    G = _s(ast.parse(group, mode='eval').body)

    def colcmp(c, opcls):
        if not (isinstance(c, ast.Compare) and len(c.ops) == 1 and
                isinstance(c.ops[0], opcls)):
            return None
        l, r = c.left, c.comparators[0]
        for a, b in ((l, r), (r, l)):
            if isinstance(a, ast.Subscript) and _s(a.value) == G and \
                    isinstance(b, ast.Subscript) and _s(b.value) == G and \
                    isinstance(a.slice, ast.Tuple) and \
                    isinstance(b.slice, ast.Tuple) and \
                    len(a.slice.elts) == 2 and len(b.slice.elts) == 2:
                a0, a1 = a.slice.elts
                b0, b1 = b.slice.elts
                if isinstance(a0, ast.Slice) and a0.lower is None and \
                        a0.upper is None and isinstance(const(a1), int) \
                        and isinstance(const(b0), int) and \
                        const(b1) == const(a1):
                    return const(a1)
        return None
    if isinstance(t, ast.Call):
        nn = np_name(t)
        inner = t.args[0] if t.args else None
        if nn is None and isinstance(t.func, ast.Attribute) and \
                t.func.attr in ('all', 'any') and not t.args:
            nn, inner = t.func.attr, t.func.value
        if nn == 'all' and not pol and inner is not None:
            return colcmp(inner, ast.Eq)
        if nn == 'any' and pol and inner is not None:
            return colcmp(inner, ast.NotEq)
        return None
    cp = U.compare_parts(t)
    if cp and isinstance(cp[0], ast.Call) and isinstance(
            cp[0].func, ast.Name) and cp[0].func.id == 'len' and \
            len(cp[0].args) == 1:
        u = cp[0].args[0]
        if isinstance(u, ast.Call) and np_name(u) == 'unique' and \
                len(u.args) == 1:
            col = u.args[0]
            if isinstance(col, ast.Subscript) and _s(col.value) == G and \
                    isinstance(col.slice, ast.Tuple) and \
                    len(col.slice.elts) == 2 and isinstance(
                        const(col.slice.elts[1]), int):
                k = const(cp[2])
                if (cp[1] is ast.NotEq and k == 1 and pol) or \
                        (cp[1] is ast.Gt and k == 1 and pol) or \
                        (cp[1] is ast.Eq and k == 1 and not pol) or \
                        (cp[1] is ast.GtE and k == 2 and pol):
                    return const(col.slice.elts[1])
    return None


# ---------------------------------------------------------------------------
# obligations

def _sites(root):
    """(node, [(a, b)], description) for every element-by-element
    combination in the function's own tree."""
    for n in walk_no_nested(root):
        if isinstance(n, ast.BinOp) and isinstance(n.op, ARITH):
            yield n, [(n.left, n.right)], 'arithmetic'
        elif isinstance(n, ast.Compare) and all(isinstance(o, CMP)
                                                for o in n.ops):
            ops = [n.left] + list(n.comparators)
            yield n, list(zip(ops[:-1], ops[1:])), 'comparison'
        elif isinstance(n, ast.AugAssign) and isinstance(n.op, ARITH):
            yield n, [(n.target, n.value)], 'in-place arithmetic'
        elif isinstance(n, ast.Call):
            nn = np_name(n)
            if nn in BINARY and len(n.args) >= 2:
                yield n, [(n.args[0], n.args[1])], 'np.' + nn
            elif nn == 'where' and len(n.args) == 3:
                yield n, [(n.args[0], n.args[1]), (n.args[1], n.args[2])], \
                    'np.where'
            elif nn in TOTAL and len(n.args) >= 2:
                yield n, [(n.args[0], n.args[1])], 'total:np.' + nn


def _obligation(a, b, ea, eb):
    """Forms that must vanish for the two array shapes to agree; None when
    they cannot be related."""
    if a.kind == 'A' and b.kind == 'A':
        la, lb = list(a.dims), list(b.dims)
        n = min(len(la), len(lb))
        out = []
        for x, y in zip(la[len(la) - n:], lb[len(lb) - n:]):
            if lis_const(x, 1) or lis_const(y, 1):
                continue
            out.append(ladd(x, y, -1))
        return out
    if a.kind == 'Q' and b.kind == 'Q':
        return [ladd(atom('shape', a.e), atom('shape', b.e), -1)]
    # one rank known: the other array is used with the same rank
    k, q = (a, b) if a.kind == 'A' else (b, a)
    return [ladd(d, qdim(q.e, i), -1) for i, d in enumerate(k.dims)
            if not lis_const(d, 1)]


def run(ctx):
    repo = ctx.repo
    _ATOMS.clear()
    mod = repo.mod('power')
    start = repo.func('power', '_from_file')
    sc = Scope(ctx, mod, start.qual)
    n_decided = n_fact = n_total = n_unknown = 0
    reported = False
    per_fn = {}
    for q in sc.order:
        fi = sc.funcs[q]
        sc.bind(q)
        F = sc.model(q)
        # record the calls of this function for its callees
        for c in walk_no_nested(fi.node):
            if isinstance(c, ast.Call) and isinstance(c.func, ast.Name) and \
                    c.func.id in sc.funcs and c.func.id != q:
                st = enclosing_stmt(c)
                sc.calls.setdefault(c.func.id, []).append(
                    (F, c, getattr(st, 'lineno', c.lineno)))
        for node, pairs, what in _sites(fi.node):
            st = enclosing_stmt(node)
            line = getattr(st, 'lineno', getattr(node, 'lineno', 0))
            for x, y in pairs:
                ex, ey = F.expand(x, line), F.expand(y, line)
                a, b = F.ev(ex, {}), F.ev(ey, {})
                if not (a.is_arr() and b.is_arr()):
                    if (a.kind == 'U' and b.kind != 'S') or \
                            (b.kind == 'U' and a.kind != 'S'):
                        n_unknown += 1
                    continue
                if what.startswith('total:'):
                    n_decided += 1
                    ob = _obligation(a, b, ex, ey)
                    facts = F.facts_at(node)
                    if not all(in_span(f, facts) for f in ob):
                        n_total += 1
                    ctx.ok(RULE, fi, node, 'shape-total predicate on %s / %s'
                           % (a.text(), b.text()))
                    per_fn[q] = per_fn.get(q, 0) + 1
                    continue
                n_decided += 1
                per_fn[q] = per_fn.get(q, 0) + 1
                ob = _obligation(a, b, ex, ey)
                open_ = [f for f in ob if f]
                if not open_:
                    ctx.ok(RULE, fi, node, 'same shape by construction: %s'
                           % a.text())
                    continue
                facts = F.facts_at(node)
                bad = [f for f in open_ if not in_span(f, facts)]
                if not bad:
                    n_fact += 1
                    ctx.ok(RULE, fi, node, 'shapes %s / %s established equal '
                           'by a dominating test or check' % (a.text(),
                                                               b.text()))
                    continue
                reported = True
                orig = []
                for o in (x, y):
                    if isinstance(o, ast.Name) and o.id in F.origin:
                        orig += F.origin[o.id][:2]
                ctx.violation(
                    RULE, fi, node,
                    'a rejection decision over the user power file must be '
                    'total: `%s` combines `%s` and `%s` element by element '
                    '(%s), but their shapes %s and %s are determined '
                    'independently%s and nothing that dominates the '
                    'combination establishes %s -- a power file for which '
                    'they differ (e.g. components given on a different '
                    'number of axial regions / items) raises ValueError '
                    '(operands could not be broadcast together) instead of '
                    'the error message; use a shape-total predicate '
                    '(np.array_equal) or test the lengths first'
                    % (_s(node)[:90], _s(x)[:40], _s(y)[:40], what,
                       a.text()[:120], b.text()[:120],
                       ' (%s)' % '; '.join(orig) if orig else '',
                       ' and '.join(leq(f) for f in bad)[:300]),
                    key='%s | %s of shapes %s and %s not established equal'
                    % (fi.full, what, a.text()[:100], b.text()[:100]))
    ctx.extra['c18_r9'] = {
        'functions': list(sc.order), 'decided_combinations': n_decided,
        'discharged_by_fact': n_fact,
        'shape_total_on_independent_shapes': n_total,
        'combinations_with_unknown_operand': n_unknown,
        'per_function': per_fn,
        'derived_postconditions': {q: sc._post[q] for q in sc._post
                                   if sc._post[q]}}
    if not reported:
        if n_decided < MIN_DECIDED:
            raise AnalysisError(
                'C18.R9 decided %d element-by-element combinations of two '
                'arrays in the power-file checks, expected >= %d (rule went '
                'blind)' % (n_decided, MIN_DECIDED))
        if n_fact + n_total < MIN_INDEPENDENT_SAFE:
            raise AnalysisError(
                'C18.R9: %d combinations of independently shaped arrays '
                'found safe (%d by a dominating fact, %d by a shape-total '
                'predicate), expected >= %d: the guarded label test, the '
                'no-gaps difference or the pins / duct / coolant boundary '
                'comparison is no longer recognised'
                % (n_fact + n_total, n_fact, n_total, MIN_INDEPENDENT_SAFE))
    ctx.decided.append(
        'R9 every element-by-element combination of two arrays in the '
        'user-power-file checks (power._from_file and the module functions '
        'it reaches, the other _check_* functions) has operands whose shapes '
        'are equal by construction or established equal by a dominating '
        'test / earlier check (symbolic shape domain, linear facts, '
        'interprocedural parameter binding), or is spelled with a '
        'shape-total predicate: a malformed file cannot turn a rejection '
        'into a NumPy broadcast ValueError')
    ctx.trusted.append('C18.R9: NumPy shape models of dsa/rules/_f_c18_2.py; '
                       'np.arange(a, b) has b - a elements; an array indexed '
                       'with k indices has rank k')
