"""C03.R9 -- the per-cell renormalisation factor is applied on exactly the
steps it was computed from; a step served with the flat cell average is
delivered as that average, with no further factor.

`AssemblyPower.presweep_setup` computes `_renorm[kf]` from the steps of power
cell kf that are selected by a mask (cell membership & inside the pin bundle):
it makes the midpoint sum of the component *polynomials* over those steps equal
avg_power[kf] times the height they cover.  A step outside the bundle is served
with the constant avg_power[kf], for which the midpoint rule is already exact.
Hence, for every step position relative to the bundle bounds (finite ordering
domain: below / on the lower bound / inside / on the upper bound / above) and
for every way `get_power_sweep` can be entered (step given, z given, counter):

  * the step is counted by the mask   <=>  the sweep returns the polynomial
    evaluation `_calculate_pdist(I, ...)` with its renormalisation argument
    == `_renorm[I]`, untouched afterwards;
  * the step is not counted by the mask  <=>  the sweep returns a record
    whose 'refl' entry == 100 * avg_power[I] *as a polynomial identity* (so no
    other factor, whatever it is called or wherever it is multiplied in) and
    whose other entries are None;
  * I is the power cell of the step: the value looked up in `_kfint` /
    `get_kfint`, lowered by one only on the path where it equals n_region.

Both functions are loop-free where it matters; `get_power_sweep` is executed
symbolically by the small path-enumerating evaluator below (values are exact
rational functions `poly.Rat`, None, records with literal keys and the result
of the profile evaluation; undecided tests fork the path), the mask of
`presweep_setup` is evaluated as a boolean function of the ordering case.
Nothing is matched as text: temporaries, keyed stores instead of a dict
display, swapped branches, a hoisted factor, commuted factors give the same
values.  Additionally the record returned by the sweep must reach the tally
and the region calculation of `Assembly.calculate` unmodified.
"""
import ast
from fractions import Fraction

from ..core import AnalysisError, const, src, walk_no_nested
from ..poly import Rat, Poly
from .. import util as U

PROPS = ('C03',)
RULE = 'C03.R9'

# ordering cases of the step midpoint p against the bundle bounds lo < hi
CASES = [('below the bundle', 0), ('on the lower bundle bound', 1),
         ('inside the bundle', 2), ('on the upper bundle bound', 3),
         ('above the bundle', 4)]
LO, HI = 1, 3
BOUNDS = {'self.rod_zbnds[0]': LO, 'self.rod_zbnds[1]': HI}
CELL_SOURCES = ('self._kfint[', 'self.get_kfint(')
POSITION_TABLE = 'self._z_abs['
TRANSPARENT = ('np.around', 'numpy.around', 'np.round', 'round', 'float',
               'np.float64')
EVALUATOR = '_calculate_pdist'


def _s(n):
    return ' '.join(src(n).split())


class _Unsupported(Exception):
    pass


class _NoneT:
    def __repr__(self):
        return 'None'


NONE = _NoneT()


class Rec(dict):
    """record built by a dict display / dict(...) with literal keys"""


class PD:
    """result of the profile evaluation self._calculate_pdist(...)"""

    def __init__(self, bound, node):
        self.bound = bound          # callee parameter -> value
        self.node = node
        self.touched = []


def _one_symbol(v):
    """name of the symbol if the value is exactly one symbol, else None"""
    if isinstance(v, Rat) and v.d == Poly.const(1) and len(v.n.t) == 1:
        (k, c), = v.n.t.items()
        if c == 1 and len(k) == 1 and k[0][1] == 1:
            return k[0][0]
    return None


def _key(v):
    """canonical text of an index value"""
    if isinstance(v, Rat):
        if v.d == Poly.const(1):
            if not v.n.t:
                return '0'
            if list(v.n.t) == [()]:
                return str(v.n.t[()])
            return repr(v.n)
        return '(%r)/(%r)' % (v.n, v.d)
    if isinstance(v, tuple):
        return ', '.join(_key(x) for x in v)
    return repr(v)


def _show(v):
    if isinstance(v, Rat):
        return _key(v)
    if isinstance(v, PD):
        return '%s(%s)' % (EVALUATOR, ', '.join(
            '%s=%s' % (k, _show(x)) for k, x in v.bound.items()))
    if isinstance(v, Rec):
        return '{%s}' % ', '.join('%r: %s' % (k, _show(x))
                                  for k, x in v.items())
    return repr(v)


class _Run:
    """One symbolic execution of a loop-free method body along the path
    selected by `decisions` (answers to the undecided tests, in order)."""

    def __init__(self, fi, callee, init, case, decisions):
        self.fi, self.callee = fi, callee
        self.env = dict(init)
        self.attrs = {}
        self.case = case
        self.decisions = list(decisions)
        self.trace = []             # answers given to undecided tests
        self.asked = {}
        self.assumed_eq = []        # (a, b) assumed equal on this path
        self.assumed_gt = []        # (a, b): a > b assumed (min / max)
        self.cells = []             # cell look-ups read
        self.bad_predicates = []    # bound compared with a non-position
        self.params = set(init)
        self.index_values = {}      # symbol of a look-up -> index value
        self.maybe_none = set()     # symbols whose None-ness is not known

    # -- decisions ---------------------------------------------------------
    def decide(self, key):
        if key in self.asked:
            return self.asked[key]
        i = len(self.trace)
        ans = self.decisions[i] if i < len(self.decisions) else True
        self.trace.append(ans)
        self.asked[key] = ans
        return ans

    # -- values ------------------------------------------------------------
    def sym(self, name):
        if name.startswith(CELL_SOURCES):
            self.cells.append(name)
        return Rat.sym(name)

    def is_position(self, v):
        s = _one_symbol(v)
        if s is not None and s.startswith(POSITION_TABLE):
            return True
        if isinstance(v, Rat):
            for p in self.params:
                if v.equals(Rat.const(100) * Rat.sym('<%s>' % p)):
                    return True
        return False

    def ev(self, n):
        if isinstance(n, ast.Constant):
            c = n.value
            if c is None:
                return NONE
            if isinstance(c, bool) or isinstance(c, str):
                return c
            if isinstance(c, (int, float)):
                return Rat.const(Fraction(str(c)))
            raise _Unsupported('constant %r' % (c,))
        if isinstance(n, ast.Name):
            if n.id in self.env:
                return self.env[n.id]
            return Rat.sym('<%s>' % n.id)
        if isinstance(n, ast.Attribute):
            t = _s(n)
            if t in self.attrs:
                return self.attrs[t]
            return self.sym(t)
        if isinstance(n, ast.Subscript):
            base = self.ev(n.value)
            if isinstance(n.slice, ast.Slice):
                raise _Unsupported('slice %s' % _s(n))
            idx = self.ev(n.slice)
            if isinstance(base, Rec):
                if not isinstance(idx, str) or idx not in base:
                    raise _Unsupported('record look-up %s' % _s(n))
                return base[idx]
            if isinstance(base, PD):
                name = '<%s result>[%s]' % (EVALUATOR, _key(idx))
                self.maybe_none.add(name)
                return self.sym(name)
            if isinstance(base, tuple) and isinstance(idx, Rat) and \
                    list(idx.n.t) in ([()], []) and idx.d == Poly.const(1):
                k = int(idx.n.t.get((), 0))
                if -len(base) <= k < len(base):
                    return base[k]
            b = _one_symbol(base)
            if b is None:
                raise _Unsupported('subscript of %s' % _s(n.value))
            name = '%s[%s]' % (b, _key(idx))
            self.index_values[name] = idx
            return self.sym(name)
        if isinstance(n, ast.UnaryOp):
            if isinstance(n.op, ast.Not):
                return not self.truth(n.operand)
            v = self.ev(n.operand)
            if isinstance(v, Rat):
                if isinstance(n.op, ast.USub):
                    return -v
                if isinstance(n.op, ast.UAdd):
                    return v
            raise _Unsupported('unary %s' % _s(n))
        if isinstance(n, ast.BinOp):
            a, b = self.ev(n.left), self.ev(n.right)
            if not (isinstance(a, Rat) and isinstance(b, Rat)):
                raise _Unsupported('arithmetic on %s' % _s(n))
            if isinstance(n.op, ast.Add):
                return a + b
            if isinstance(n.op, ast.Sub):
                return a - b
            if isinstance(n.op, ast.Mult):
                return a * b
            if isinstance(n.op, ast.Div):
                if b.is_zero():
                    raise _Unsupported('division by zero in %s' % _s(n))
                return a / b
            if isinstance(n.op, ast.Pow) and isinstance(const(n.right), int):
                return a ** const(n.right)
            raise _Unsupported('operator in %s' % _s(n))
        if isinstance(n, (ast.Compare, ast.BoolOp)):
            return self.truth(n)
        if isinstance(n, ast.IfExp):
            return self.ev(n.body if self.truth(n.test) else n.orelse)
        if isinstance(n, (ast.Tuple, ast.List)):
            return tuple(self.ev(e) for e in n.elts)
        if isinstance(n, ast.Dict):
            r = Rec()
            for k, v in zip(n.keys, n.values):
                if k is None or not isinstance(const(k), str):
                    raise _Unsupported('record key in %s' % _s(n)[:60])
                r[const(k)] = self.ev(v)
            return r
        if isinstance(n, ast.Call):
            return self.call(n)
        raise _Unsupported('expression %s' % _s(n)[:60])

    def call(self, n):
        f = n.func
        name = _s(f)
        if isinstance(f, ast.Attribute) and f.attr == EVALUATOR and \
                _s(f.value) == 'self':
            params = self.callee.params[1:]
            bound = {}
            if any(isinstance(a, ast.Starred) for a in n.args) or any(
                    k.arg is None for k in n.keywords) or \
                    len(n.args) > len(params):
                raise _Unsupported('argument list of %s' % _s(n))
            for p, a in zip(params, n.args):
                bound[p] = self.ev(a)
            for k in n.keywords:
                if k.arg not in params or k.arg in bound:
                    raise _Unsupported('keyword %s of %s' % (k.arg, _s(n)))
                bound[k.arg] = self.ev(k.value)
            dflt = self.callee.node.args.defaults
            for p, d in zip(params[len(params) - len(dflt):], dflt):
                if p not in bound:
                    bound[p] = self.ev(d)
            return PD(bound, n)
        if name == 'dict' and not n.args and all(k.arg for k in n.keywords):
            r = Rec()
            for k in n.keywords:
                r[k.arg] = self.ev(k.value)
            return r
        if name in TRANSPARENT and n.args and len(n.args) <= 2:
            return self.ev(n.args[0])
        if name in ('min', 'max') and len(n.args) == 2 and not n.keywords:
            a, b = self.ev(n.args[0]), self.ev(n.args[1])
            if isinstance(a, Rat) and isinstance(b, Rat):
                if name == 'max':
                    a, b = b, a
                # min(a, b): a when a <= b, else b (and then a > b)
                if self.compare(a, ast.LtE(), b, n):
                    return a
                self.assumed_gt.append((a, b))
                return b
        args = []
        for a in list(n.args) + [k.value for k in n.keywords]:
            v = self.ev(a)
            if isinstance(v, (Rec, PD)):
                raise _Unsupported('record handed to %s' % name)
            args.append(v)
        return self.sym('%s(%s)' % (name, ', '.join(_key(a) for a in args)))

    # -- tests -------------------------------------------------------------
    def number(self, v):
        """concrete number of a bound / a step position in this case"""
        s = _one_symbol(v)
        if s in BOUNDS:
            return BOUNDS[s]
        if self.is_position(v):
            return self.case
        return None

    def truth(self, n):
        if isinstance(n, ast.BoolOp):
            if isinstance(n.op, ast.And):
                for x in n.values:
                    if not self.truth(x):
                        return False
                return True
            for x in n.values:
                if self.truth(x):
                    return True
            return False
        if isinstance(n, ast.UnaryOp) and isinstance(n.op, ast.Not):
            return not self.truth(n.operand)
        if isinstance(n, ast.Compare):
            left = self.ev(n.left)
            for op, c in zip(n.ops, n.comparators):
                right = self.ev(c)
                if not self.compare(left, op, right, n):
                    return False
                left = right
            return True
        v = self.ev(n)
        if isinstance(v, bool):
            return v
        if v is NONE:
            return False
        if isinstance(v, Rat) and list(v.n.t) in ([()], []) and \
                v.d == Poly.const(1):
            return not v.is_zero()
        return self.decide(('truth', _key(v)))

    def compare(self, a, op, b, node):
        if a is NONE or b is NONE:
            if not isinstance(op, (ast.Is, ast.IsNot, ast.Eq, ast.NotEq)):
                raise _Unsupported('comparison %s' % _s(node))
            other = b if a is NONE else a
            same = other is NONE
            if _one_symbol(other) in self.maybe_none:
                same = self.decide(('none', _one_symbol(other)))
            return same if isinstance(op, (ast.Is, ast.Eq)) else not same
        if isinstance(op, (ast.Is, ast.IsNot)) or not (
                isinstance(a, Rat) and isinstance(b, Rat)):
            raise _Unsupported('comparison %s' % _s(node))
        x, y = self.number(a), self.number(b)
        sa, sb = _one_symbol(a), _one_symbol(b)
        if (sa in BOUNDS) != (sb in BOUNDS) and (x is None or y is None):
            # a bundle bound compared with something that is not the step
            # midpoint in cm
            self.bad_predicates.append(node)
        d = a - b
        if x is None or y is None:
            if list(d.n.t) in ([()], []):       # constant difference
                x, y = d.n.t.get((), Fraction(0)), 0
        if x is not None and y is not None:
            tab = {ast.Lt: x < y, ast.LtE: x <= y, ast.Gt: x > y,
                   ast.GtE: x >= y, ast.Eq: x == y, ast.NotEq: x != y}
            if type(op) not in tab:
                self._bad_op(node)
            return tab[type(op)]
        if isinstance(op, (ast.Eq, ast.NotEq)):
            eq = self.decide(('eq', _key(d)) if _key(d) <= _key(-d)
                             else ('eq', _key(-d)))
            if eq:
                self.assumed_eq.append((a, b))
            return eq if isinstance(op, ast.Eq) else not eq
        if type(op) in (ast.Lt, ast.LtE, ast.Gt, ast.GtE):
            return self.decide(('cmp', type(op).__name__, _key(d)))
        return self._bad_op(node)

    def _bad_op(self, node):
        raise _Unsupported('comparison %s' % _s(node))

    # -- statements --------------------------------------------------------
    def store(self, t, v, st):
        if isinstance(t, ast.Name):
            self.env[t.id] = v
        elif isinstance(t, ast.Attribute):
            self.attrs[_s(t)] = v
        elif isinstance(t, ast.Subscript):
            base = self.ev(t.value)
            if isinstance(base, Rec):
                k = self.ev(t.slice)
                if not isinstance(k, str):
                    raise _Unsupported('record store %s' % _s(t))
                base[k] = v
            elif isinstance(base, PD):
                base.touched.append(st)
            else:
                raise _Unsupported('store %s' % _s(t))
        elif isinstance(t, (ast.Tuple, ast.List)):
            if isinstance(v, tuple) and len(v) == len(t.elts):
                for e, x in zip(t.elts, v):
                    self.store(e, x, st)
            elif _one_symbol(v) is not None:
                for i, e in enumerate(t.elts):
                    self.store(e, self.sym('%s[%d]' % (_one_symbol(v), i)),
                               st)
            else:
                raise _Unsupported('unpacking %s' % _s(st)[:60])
        else:
            raise _Unsupported('target %s' % _s(t))

    def block(self, stmts):
        """-> ('ret', value) or None when the block falls through"""
        for st in stmts:
            if isinstance(st, ast.Expr):
                if isinstance(st.value, ast.Constant):
                    continue
                if isinstance(st.value, ast.Call):
                    c = st.value
                    if isinstance(c.func, ast.Attribute) and isinstance(
                            self.ev(c.func.value), (Rec, PD)):
                        raise _Unsupported('method call on the record: %s'
                                           % _s(c))
                    self.ev(c)
                    continue
                raise _Unsupported('statement %s' % _s(st)[:60])
            if isinstance(st, ast.Pass):
                continue
            if isinstance(st, ast.Assign):
                v = self.ev(st.value)
                for t in st.targets:
                    self.store(t, v, st)
                continue
            if isinstance(st, ast.AnnAssign) and st.value is not None:
                self.store(st.target, self.ev(st.value), st)
                continue
            if isinstance(st, ast.AugAssign):
                load = ast.parse(_s(st.target), mode='eval').body
                if isinstance(st.target, ast.Subscript) and isinstance(
                        self.ev(st.target.value), PD):
                    self.ev(st.value)
                    self.store(st.target, None, st)
                    continue
                v = self.ev(ast.BinOp(left=load, op=st.op, right=st.value))
                self.store(st.target, v, st)
                continue
            if isinstance(st, ast.If):
                r = self.block(st.body if self.truth(st.test) else st.orelse)
                if r is not None:
                    return r
                continue
            if isinstance(st, ast.Return):
                return ('ret', NONE if st.value is None
                        else self.ev(st.value), st)
            if isinstance(st, ast.Assert):
                continue
            if isinstance(st, ast.For) and isinstance(
                    st.iter, (ast.Tuple, ast.List)) and not st.orelse and \
                    not any(isinstance(x, (ast.Break, ast.Continue))
                            for x in ast.walk(st)):
                for e in st.iter.elts:      # literal loop: unrolled
                    self.store(st.target, self.ev(e), st)
                    r = self.block(st.body)
                    if r is not None:
                        return r
                continue
            raise _Unsupported('statement %s' % _s(st)[:60])
        return None

    def run(self):
        r = self.block(self.fi.node.body)
        if r is None:
            return NONE, self.fi.node
        return r[1], r[2]


def _paths(fi, callee, init, case):
    """all executions of fi for one entry mode and one ordering case"""
    out = []
    todo = [[]]
    while todo:
        dec = todo.pop()
        r = _Run(fi, callee, init, case, dec)
        try:
            val, node = r.run()
        except _Unsupported as e:
            raise AnalysisError('%s: %s cannot interpret %s' % (
                fi.qual, RULE, e))
        out.append((r, val, node))
        for i in range(len(dec), len(r.trace)):
            todo.append(r.trace[:i] + [not r.trace[i]])
        if len(out) + len(todo) > 512:
            raise AnalysisError('%s: too many paths for %s' % (fi.qual, RULE))
    return out


# ---------------------------------------------------------------------------
# the steps the factor is computed from (presweep_setup)

def _mask_cases(ctx, ps):
    """set of ordering cases (numbers) selected by the mask under which
    presweep_setup sums the midpoint total, or None (reported)."""
    # the step sizes in cm and the relative positions stored for the sweep,
    # recognised by what they hold (a local, or the attribute behind its
    # store), not by their names
    from .c03 import _presweep_arrays, _denotes
    arrays = _presweep_arrays(ps)

    def selected(x, line):
        return isinstance(x, ast.Subscript) and isinstance(
            x.ctx, ast.Load) and (_denotes(arrays, 'dz', x.value, line) or
                                  _denotes(arrays, 'rel', x.value, line))
    loops = [n for n in walk_no_nested(ps.node) if isinstance(n, ast.For)
             and isinstance(n.target, ast.Name)
             and _s(n.iter) == 'range(self.n_region)'
             and any(selected(x, getattr(x, 'lineno', 0) + 1)
                     for x in ast.walk(n))]
    if len(loops) > 1:
        raise AnalysisError('presweep_setup: power-cell loop')
    if not loops:
        ctx.violation(RULE, ps, ps.node, 'the loop over the power cells '
                      'that sums the midpoint total over selected steps '
                      '(dz_abs[mask], z_mod[mask]) is gone',
                      key=ps.full + ' | mask vanished')
        return None
    lp = loops[0]
    kf = lp.target.id
    # the array of positions the sweep will test
    pos = [st for t, st in U.stores(ps.node) if _s(t) == 'self._z_abs'
           and isinstance(st, ast.Assign)]
    if len(pos) != 1:
        raise AnalysisError('presweep_setup: store of self._z_abs')
    pos_texts = {_s(pos[0].value),
                 _s(U.value_at(ps.node, pos[0].value, pos[0].lineno))}
    cellarr = [st for t, st in U.stores(ps.node) if _s(t) == 'self._kfint'
               and isinstance(st, ast.Assign)]
    if len(cellarr) != 1:
        raise AnalysisError('presweep_setup: store of self._kfint')
    cell_text = _s(cellarr[0].value)
    # behind their (single, unconditional) store the attributes themselves
    # denote the stored arrays
    if arrays['pos'].get('self._z_abs', 10 ** 9) < lp.lineno:
        pos_texts.add('self._z_abs')
    cell_texts = {cell_text}
    if arrays['cell'].get('self._kfint', 10 ** 9) < lp.lineno:
        cell_texts.add('self._kfint')
    keep = tuple({cell_text, kf} | {t for t in pos_texts if t.isidentifier()})
    masks = []
    for a in walk_no_nested(lp):
        if not isinstance(a, (ast.Assign, ast.AugAssign)):
            continue
        for x in ast.walk(a.value):
            if selected(x, a.lineno):
                masks.append((a, U.value_at(ps.node, x.slice, a.lineno,
                                            keep=keep)))
    if len(masks) < 2:
        ctx.violation(RULE, ps, lp, 'the midpoint total of a power cell is no '
                      'longer taken over a selection of the step sizes '
                      '(dz_abs[mask]) and positions (z_mod[mask])',
                      key=ps.full + ' | mask vanished')
        return None
    bad = []

    def num(e):
        t = _s(e)
        if t in BOUNDS:
            return BOUNDS[t]
        if t in pos_texts:
            return 'p'
        return None

    def ev(e, p):
        if isinstance(e, ast.BinOp) and isinstance(e.op, (ast.BitAnd,
                                                         ast.BitOr)):
            a, b = ev(e.left, p), ev(e.right, p)
            return (a and b) if isinstance(e.op, ast.BitAnd) else (a or b)
        if isinstance(e, ast.UnaryOp) and isinstance(e.op, (ast.Invert,
                                                           ast.Not)):
            return not ev(e.operand, p)
        if isinstance(e, ast.BoolOp):
            vs = [ev(x, p) for x in e.values]
            return all(vs) if isinstance(e.op, ast.And) else any(vs)
        if isinstance(e, ast.Call) and _s(e.func) in (
                'np.logical_and', 'np.logical_or') and len(e.args) == 2:
            a, b = ev(e.args[0], p), ev(e.args[1], p)
            return (a and b) if _s(e.func).endswith('and') else (a or b)
        if isinstance(e, ast.Call) and _s(e.func) in (
                'np.logical_not', 'np.invert') and len(e.args) == 1:
            return not ev(e.args[0], p)
        if isinstance(e, ast.Compare):
            vals = [e.left] + list(e.comparators)
            res = True
            for l, op, r in zip(vals, e.ops, vals[1:]):
                if kf in (_s(l), _s(r)) and {_s(l), _s(r)} - {kf} <= \
                        cell_texts and _s(l) != _s(r) and isinstance(
                            op, ast.Eq):
                    continue            # the step lies in this power cell
                a, b = num(l), num(r)
                if (_s(l) in BOUNDS) != (_s(r) in BOUNDS) and \
                        (a is None or b is None):
                    bad.append(e)
                    a = 'p' if a is None else a
                    b = 'p' if b is None else b
                if a is None or b is None:
                    raise AnalysisError('presweep_setup: %s cannot interpret '
                                        'the mask term %s' % (RULE, _s(e)))
                a = p if a == 'p' else a
                b = p if b == 'p' else b
                tab = {ast.Lt: a < b, ast.LtE: a <= b, ast.Gt: a > b,
                       ast.GtE: a >= b, ast.Eq: a == b, ast.NotEq: a != b}
                if type(op) not in tab:
                    raise AnalysisError('presweep_setup: mask operator %s'
                                        % _s(e))
                res = res and tab[type(op)]
            return res
        raise AnalysisError('presweep_setup: %s cannot interpret the mask '
                            'term %s' % (RULE, _s(e)))
    sets = []
    for a, m in masks:
        sets.append(frozenset(p for _n, p in CASES if ev(m, p)))
    if bad:
        ctx.violation(RULE, ps, bad[0], 'the mask of the renormalisation '
                      'compares a bundle bound with a quantity other than '
                      'the step midpoints stored for the sweep (_z_abs)',
                      key=ps.full + ' | mask on another quantity')
        return None
    if len(set(sets)) != 1:
        ctx.violation(RULE, ps, masks[0][0], 'step sizes and positions of a '
                      'power cell are selected by different masks: %s'
                      % sorted(sorted(s) for s in set(sets)),
                      key=ps.full + ' | masks disagree')
        return None
    ctx.ok(RULE, ps, masks[0][0], 'steps entering the factor: %s' % (
        [n for n, p in CASES if p in sets[0]] or 'none'))
    return sets[0]


# ---------------------------------------------------------------------------

def _cell_ok(r, idx):
    """is idx the power cell of the step on this path?  -> (ok, why)"""
    cells = sorted(set(r.cells))
    if len(cells) != 1:
        raise AnalysisError('get_power_sweep: %s found %d power-cell '
                            'look-ups on one path (%s)' % (RULE, len(cells),
                                                           cells))
    cell = Rat.sym(cells[0])
    if not isinstance(idx, Rat):
        return False, 'is indexed by %s' % _show(idx)
    unknown = [s for s in (idx.n.symbols() | idx.d.symbols())
               if s != cells[0] and '(' in s and not s.startswith(
                   CELL_SOURCES)]
    if unknown:
        raise AnalysisError('get_power_sweep: %s cannot interpret the cell '
                            'index %s' % (RULE, _show(idx)))
    clamped = any(
        (a.equals(cell) and _one_symbol(b) == 'self.n_region') or
        (b.equals(cell) and _one_symbol(a) == 'self.n_region')
        for a, b in r.assumed_eq)
    want = cell - Rat.const(1) if clamped else cell
    if idx.equals(want):
        return True, ''
    last = Rat.sym('self.n_region') - Rat.const(1)
    if idx.equals(last) and any(a.equals(cell) and b.equals(last)
                                for a, b in r.assumed_gt):
        return True, ''     # min(cell, n_region - 1) with cell >= n_region
    return False, 'is taken from cell %s, the step lies in cell %s' % (
        _show(idx), _show(want))


def _avg_index(v):
    """index texts of the avg_power look-ups a value depends on"""
    out = []
    if isinstance(v, Rat):
        for s in sorted(v.n.symbols() | v.d.symbols()):
            if s.startswith('self.avg_power['):
                out.append(s)
    return out


def run(ctx):
    ctx.decided.append(
        'R9 the per-cell renormalisation factor is applied on exactly the '
        'steps it was computed from: for every position of a step relative '
        'to the bundle bounds and every entry mode of get_power_sweep, a '
        'step counted by the presweep mask gets _calculate_pdist(cell, ..., '
        '_renorm[cell]) and any other step gets the flat 100 * '
        'avg_power[cell] with no further factor (exact algebra on the '
        'symbolically executed paths); Assembly.calculate passes the record '
        'on unmodified')
    repo = ctx.repo
    ps = repo.func('power', 'AssemblyPower.presweep_setup')
    gp = repo.func('power', 'AssemblyPower.get_power_sweep')
    callee = repo.func('power', 'AssemblyPower.' + EVALUATOR)
    if len(callee.params) < 3:
        raise AnalysisError('%s: parameters' % callee.qual)
    cell_p, rn_p = callee.params[1], callee.params[-1]
    inside = _mask_cases(ctx, ps)
    if inside is not None:
        _sweep(ctx, gp, callee, cell_p, rn_p, inside)
    _assembly(ctx)
    _frame(ctx)
    ctx.min_instances(RULE, 13)


def _sweep(ctx, gp, callee, cell_p, rn_p, inside):
    a = gp.node.args
    if a.vararg or a.kwarg or a.kwonlyargs:
        raise AnalysisError('get_power_sweep: signature')
    params = gp.params[1:]
    dflt = dict(zip(params[len(params) - len(a.defaults):], a.defaults))
    opt = [p for p in params if p in dflt and const(dflt[p], 0) is None]
    if len(opt) > 3:
        raise AnalysisError('get_power_sweep: signature')
    modes = [[]]
    for p in opt:
        modes = [m + [(p, g)] for m in modes for g in (False, True)]
    for mode in modes:
        init = {'self': Rat.sym('self')}
        for p in params:
            init[p] = Rat.sym('<%s>' % p)
        for p, given in mode:
            if not given:
                init[p] = NONE
        given = [p for p, g in mode if g]
        mname = ('%s given' % ' and '.join(given)) if given else \
            'sweep counter'
        faults = {True: {}, False: {}}
        nodes = {True: None, False: None}
        for cname, case in CASES:
            counted = case in inside
            for r, val, node in _paths(gp, callee, init, case):
                why = _judge(r, val, counted, cell_p, rn_p)
                for n in r.bad_predicates:
                    why = why + ['the bundle test `%s` is not made on the '
                                 'step midpoint in cm' % _s(n)]
                for w in why:
                    for c in set(r.cells):
                        w = w.replace(c, 'cell')
                    lst = faults[counted].setdefault(w, [])
                    if cname not in lst:
                        lst.append(cname)
                    nodes[counted] = nodes[counted] or node
        for counted in (True, False):
            uniq = ['%s (step %s)' % (w, ' / '.join(cs))
                    for w, cs in faults[counted].items()]
            side = 'counted by the renormalisation' if counted else \
                'not counted by the renormalisation'
            ctx.require(
                not uniq, RULE, gp, nodes[counted] or gp.node,
                'a step %s (presweep_setup mask) must be delivered %s; '
                'entry with %s: %s' % (
                    side,
                    'the profile evaluation of its power cell times '
                    '_renorm[cell]' if counted else
                    'the flat cell average 100 * avg_power[cell] and nothing '
                    'else (the midpoint rule is exact for a constant; the '
                    'factor was computed from the counted steps only)',
                    mname, '; '.join(uniq[:4])),
                note='%s, steps %s' % (mname, side),
                key='%s | %s | steps %s' % (gp.full, mname, side))


def _judge(r, val, counted, cell_p, rn_p):
    """reasons why the value returned on this path is not what a step of
    this kind must be delivered"""
    why = []
    if counted:
        if not isinstance(val, PD):
            return ['is served %s instead of the profile evaluation'
                    % _show(val)[:160]]
        if val.touched:
            why.append('the evaluated profiles are modified afterwards (%s)'
                       % _s(val.touched[0]))
        idx = val.bound.get(cell_p)
        ok, w = _cell_ok(r, idx)
        if not ok:
            why.append('the profile ' + w)
        rn = val.bound.get(rn_p)
        want = Rat.sym('self._renorm[%s]' % _key(idx)) if isinstance(
            idx, Rat) else None
        if not (isinstance(rn, Rat) and want is not None and
                rn.equals(want)):
            why.append('the renormalisation argument is %s, not '
                       '_renorm[cell]' % _show(rn))
        return why
    if isinstance(val, PD):
        return ['is served the profile evaluation %s' % _show(val)[:160]]
    if not isinstance(val, Rec) or 'refl' not in val:
        return ['is served %s, which has no flat (\'refl\') power'
                % _show(val)[:160]]
    for k, v in val.items():
        if k != 'refl' and v is not NONE:
            why.append('component %r is %s instead of None' % (k, _show(v)))
    flat = val['refl']
    idxs = _avg_index(flat)
    if not isinstance(flat, Rat) or len(idxs) != 1:
        why.append('the flat power is %s' % _show(flat)[:160])
        return why
    avg = Rat.sym(idxs[0])
    if not flat.equals(Rat.const(100) * avg):
        extra = _cofactor(flat, idxs[0])
        why.append(('the flat power is 100 * avg_power[cell] times the '
                    'extra factor %s' % _show(extra)[:160])
                   if extra is not None else
                   'the flat power is %s' % _show(flat)[:200])
    ok, w = _cell_ok(r, r.index_values.get(idxs[0]))
    if not ok:
        why.append('the flat power ' + w)
    return why


def _cofactor(flat, avg):
    """X with flat == 100 * avg * X when avg divides the numerator"""
    out = {}
    for k, c in flat.n.t.items():
        d = dict(k)
        if d.get(avg, 0) < 1:
            return None
        d[avg] -= 1
        out[tuple(sorted((s_, e) for s_, e in d.items() if e))] = c / 100
    return Rat(Poly(out), flat.d)


def _assembly(ctx):
    """the record returned by the sweep reaches the tally and the region
    calculation unmodified"""
    fi = ctx.repo.func('assembly', 'Assembly.calculate')
    names = set()
    for st in walk_no_nested(fi.node):
        if isinstance(st, ast.Assign) and len(st.targets) == 1 and \
                isinstance(st.targets[0], ast.Name) and isinstance(
                    st.value, ast.Call) and isinstance(
                        st.value.func, ast.Attribute) and \
                st.value.func.attr == 'get_power_sweep':
            names.add(st.targets[0].id)
    if not names:
        raise AnalysisError('Assembly.calculate: no local bound to '
                            'get_power_sweep(...)')
    # aliases
    grew = True
    while grew:
        grew = False
        for st in walk_no_nested(fi.node):
            if isinstance(st, ast.Assign) and isinstance(
                    st.value, ast.Name) and st.value.id in names:
                for t in st.targets:
                    if isinstance(t, ast.Name) and t.id not in names:
                        names.add(t.id)
                        grew = True
    bad = []
    for t, st in U.stores(fi.node):
        x = t
        while isinstance(x, (ast.Subscript, ast.Attribute)):
            x = x.value
        if x is not t and isinstance(x, ast.Name) and x.id in names:
            bad.append(st)
    for c in walk_no_nested(fi.node):
        if isinstance(c, ast.Call) and isinstance(c.func, ast.Attribute) \
                and isinstance(c.func.value, ast.Name) and \
                c.func.value.id in names and c.func.attr in (
                    'update', 'pop', 'clear', 'setdefault', 'popitem',
                    '__setitem__'):
            bad.append(c)
    ctx.require(not bad, RULE, fi, bad[0] if bad else fi.node,
                'the step power returned by get_power_sweep must reach the '
                'tally and the region calculation unmodified; it is changed '
                'by `%s`' % (_s(bad[0])[:100] if bad else ''),
                key=fi.full + ' | step power passed on unmodified')


def _frame(ctx):
    """The two operands of the identities above are what their definitions
    made them: the cell averages are stored by AssemblyPower.__init__ only
    (whole-profile replacement from outside the class is the orificing
    module's business), the factors by __init__ (ones) and presweep_setup;
    nobody re-scales either in place."""
    allowed = {'avg_power': ('AssemblyPower.__init__',),
               '_renorm': ('AssemblyPower.__init__',
                           'AssemblyPower.presweep_setup')}
    seen = {k: 0 for k in allowed}
    for f in ctx.repo.all_funcs():
        for t, st in U.stores(f.node):
            x, element = t, False
            while isinstance(x, ast.Subscript):
                x, element = x.value, True
            if not (isinstance(x, ast.Attribute) and x.attr in allowed):
                continue
            attr = x.attr
            own = f.cls is not None and f.cls.name == 'AssemblyPower'
            plain = isinstance(st, ast.Assign) and not element
            if own:
                ok = plain and f.qual in allowed[attr]
            else:
                ok = plain and attr == 'avg_power'
            seen[attr] += 1
            ctx.require(ok, RULE, f, st,
                        '%s is %s by %s: the flat power of a step must be '
                        'the cell average as assigned and the factor what '
                        'presweep_setup computed from the counted steps'
                        % (attr, 'stored' if plain else 're-scaled / changed '
                           'in place', f.qual),
                        key='%s | writer of %s: %s' % (
                            f.full, attr, 'whole' if plain else 'in place'))
    if seen['avg_power'] < 1 or seen['_renorm'] < 2:
        raise AnalysisError('%s: writers of avg_power / _renorm not found '
                            '(%s)' % (RULE, seen))
