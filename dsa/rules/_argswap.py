"""Argument-selection rule: a positional argument that is a plain name (or
attribute) spelled exactly like ANOTHER parameter of the resolved callee, and
not like the parameter it is bound to, is bound to the wrong parameter
(`make(..., gravity, se2geo)` against `def make(..., se2geo, gravity)`).
Both values usually have the same type, so nothing fails at run time.

Resolved call graph (dsa/resolve.py), exact name comparison modulo leading
underscores; only calls with exactly one resolved callee are judged."""
import ast

from ..core import src
from ..resolve import Resolver, bind_args


def _name(a):
    if isinstance(a, ast.Name):
        return a.id
    if isinstance(a, ast.Attribute):
        return a.attr
    return None


def scan(repo):
    R = Resolver(repo)
    n = 0
    hits = []
    for fi in repo.all_funcs():
        for call in [c for c in ast.walk(fi.node) if isinstance(c, ast.Call)]:
            try:
                cs, how = R.callees(fi, call)
            except Exception:
                continue
            if len(cs) != 1:
                continue
            callee = cs[0]
            params = [q.lstrip('_') for q in callee.params]
            for p, a in bind_args(call, callee).items():
                if a not in call.args:
                    continue
                n += 1
                nm = _name(a)
                if nm is None or nm in ('self', 'cls'):
                    # (`other._helper(self)`: the receiver is not the
                    # argument)
                    continue
                nm = nm.lstrip('_')
                if nm != p.lstrip('_') and nm in params:
                    hits.append((fi, call, callee, p, src(a)))
    return n, hits


def check(ctx, rule, modules):
    """modules: short module names whose functions (as caller or callee)
    belong to the property."""
    n, hits = scan(ctx.repo)
    if n < 1500:
        from ..core import AnalysisError
        raise AnalysisError('argument-selection rule: only %d positional '
                            'bindings resolved' % n)
    mods = {'dassh.' + m for m in modules}
    for fi, call, callee, p, a in hits:
        if fi.mod.name in mods or callee.mod.name in mods:
            ctx.violation(rule, fi, call,
                          'argument `%s` is passed in the position of '
                          'parameter `%s` of %s(), which has a parameter '
                          'named `%s`' % (a, p, callee.qual, a.split('.')[-1]),
                          key='%s | %s arg %s' % (fi.full, callee.qual, a))
        else:
            ctx.advisory(rule, fi, call,
                         'argument `%s` is passed in the position of '
                         'parameter `%s` of %s() (outside the files of this '
                         'property)' % (a, p, callee.qual))
    ctx.ok(rule, 'dassh', None, '%d positional argument bindings over the '
           'resolved call graph; %d name-mismatched' % (n, len(hits)))
