"""C09.R9 -- the duct-wall widths around an assembly are that assembly's own.

Clause decided (a necessary condition of "the cells around an assembly cover
its duct perimeter exactly once"): `Core._calculate_asm_sc_wp` returns, for
every assembly a and every position j of its perimeter walk (row a of
`_asm_sc_adj`),

    the stretch of a's OWN duct wall between the boundaries j and j + 1 of
    a's OWN boundary row (`_asm_sc_xbnds[a]`), the last position closing the
    hexagon (wrap-around),

and zero at the padded positions of the row -- so that row a sums to the
hexagon perimeter 6 duct_oftf / sqrt3 exactly once.  A gap cell shared by
assemblies with different meshes has a DIFFERENT width on each of them (a
corner cell spans, on each assembly, the two corner legs of that assembly's
sides): a width kept per cell, or read from another assembly's row, breaks
the clause.

How: finite-domain evaluation, as C09.R8 (`_f_c09.py`): the function's syntax
tree is evaluated by the checker's own interpreter (NEval: exact numbers
a + b sqrt3, the small array model; nothing of /repo is imported or run) on the
same model cores -- every layout of one to three assemblies on the 7-position
grid x every assignment of three mesh kinds -- and the returned matrix is
compared entry by entry, exactly, with the extents the model derives from the
layout.  No source form is matched: a loop, a vectorised body, np.diff, a
helper -- all are judged by the values they produce.
"""
import ast

from ..core import AnalysisError, src
from ..finite import OPAQUE, Unsupported, Raised
from . import _f_c09 as E

PROPS = ('C09',)
RULE = 'C09.R9'
ANCHOR = 'Core._calculate_asm_sc_wp'

KINDS = ('edge cell', 'corner cell', 'closing cell (wrap-around)',
         'padded position')


def _returns(fnode):
    out = [n for n in ast.walk(fnode) if isinstance(n, ast.Return)
           and n.value is not None]
    return out[-1] if out else fnode


def run(ctx):
    ctx.decided.append(
        'R9 the duct-wall widths of the gap cells around an assembly '
        '(gap_params[\'asm wp\'], Core._calculate_asm_sc_wp) are that '
        'assembly\'s OWN boundary increments -- position j of row a gets the '
        'stretch between a\'s boundaries j and j + 1, the last one closes the '
        'hexagon, padded positions get zero -- so that every row covers the '
        'duct perimeter 6 duct_oftf / sqrt3 exactly once, also where a cell '
        'is shared by assemblies with different meshes: finite-domain '
        'evaluation by the checker\'s own interpreter over the model cores '
        'of R8, exact arithmetic')
    ctx.trusted.append('C09.R9: the model cores of C09.R8 '
                       '(dsa/rules/_f_c09.py: Model)')
    fi = ctx.repo.func('core', ANCHOR)
    cls = ctx.repo.cls('core', 'Core')
    if len(fi.params) != 1:
        raise AnalysisError('%s: expected the signature (self)' % fi.full)
    scen = E.scenarios(ctx.tier)
    E._NAMES.clear()
    perim = 6 * E.L_SIDE
    seen = {k: 0 for k in KINDS}
    n_mixed = 0           # cells whose width differs between their assemblies
    bad = {}              # kind -> [count, first text, node]
    crashes = []
    n_eval = 0
    for pos, kinds in scen:
        m = E.Model(pos, kinds)
        E.reset_views()
        ev = E.NEval(m.attrs, fi.params[0], fi.mod, cls, fuel=400000)
        try:
            got = ev._user(fi.node, [E._Self()], {}, fi.node)
        except Unsupported as e:
            raise AnalysisError(
                '%s is not evaluable on the model core (%s): %s [at `%s`]'
                % (fi.full, m.describe(), e,
                   ' '.join(src(ev.cur).split())[:120] if ev.cur is not None
                   else ''))
        except Raised as r:
            crashes.append((m.describe(), r.node if r.node is not None
                            else ev.cur))
            continue
        except RecursionError:
            raise AnalysisError('%s: recursion while evaluating' % fi.full)
        n_eval += 1
        n = len(m.rows)
        width = len(m.attrs['_asm_sc_adj'].d[0])
        if not isinstance(got, E.Arr) or got.shape != (n, width):
            ctx.violation(
                RULE, fi, _returns(fi.node),
                'for %s the function returns %s instead of one duct-wall '
                'width per (assembly, position of its perimeter walk), shape '
                '%d x %d like _asm_sc_adj'
                % (m.describe(), ('an array of shape %s' % (got.shape,))
                   if isinstance(got, E.Arr) else E._show(got), n, width),
                key='%s | one width per assembly and position' % fi.full)
            return
        n_mixed += sum(1 for c in m.extent
                       if len(set(m.extent[c].values())) > 1)
        ok_all = True
        for a in range(n):
            row = m.rows[a]
            vals = got.d[a]
            if any(v is OPAQUE for v in vals):
                raise AnalysisError('%s: a width is undetermined (%s)'
                                    % (fi.full, m.describe()))
            for j in range(width):
                if j < len(row):
                    c = row[j]
                    want = m.extent[c][a]
                    kind = KINDS[2] if j == len(row) - 1 else (
                        KINDS[1] if m.cell[c]['type'] == 1 else KINDS[0])
                else:
                    c, want, kind = None, 0, KINDS[3]
                seen[kind] += 1
                val = vals[j]
                if isinstance(val, E.NUM) and not isinstance(val, bool) \
                        and val == want:
                    continue
                ok_all = False
                rec = bad.setdefault(kind, [0, None, None])
                rec[0] += 1
                if rec[1] is not None:
                    continue
                total = 0
                for v in vals:
                    total = E._arith(ast.Add(), total, v) \
                        if isinstance(v, E.NUM) else total
                if c is None:
                    what = ('position %d of assembly #%d is padding (the '
                            'assembly has %d cells): returned %s, must be 0'
                            % (j, a + 1, len(row), E._show(val)))
                else:
                    others = sorted(b for b in m.extent[c] if b != a)
                    what = (
                        'position %d of assembly #%d (%s) is cell %d%s: '
                        'returned %s, its own boundaries give %s'
                        % (j, a + 1, m.kinds[a], c,
                           (', shared with ' + ', '.join(
                               '#%d (on which it spans %s)'
                               % (b + 1, E._show(m.extent[c][b]))
                               for b in others)) if others else '',
                           E._show(val), E._show(want)))
                rec[1] = ('%s; %s; the widths around #%d sum to %s, its duct '
                          'perimeter is %s'
                          % (m.describe(), what, a + 1, E._show(total),
                             E._show(perim)))
                st = ev.stores.get((id(vals), j))
                rec[2] = st[0] if st is not None else _returns(fi.node)
        if ok_all:
            ctx.ok(RULE, fi, None, '%s: %d x %d widths'
                   % (m.describe(), n, width))
    for desc, node in crashes[:1]:
        ctx.violation(RULE, fi, node if isinstance(node, ast.AST)
                      else fi.node,
                      'the calculation of the per-assembly duct-wall widths '
                      'fails (index / arithmetic error) on %d of %d model '
                      'cores, first: %s' % (len(crashes), len(scen), desc),
                      key='%s | evaluable on every layout' % fi.full)
    for kind in KINDS:
        if kind in bad:
            cnt, text, node = bad[kind]
            ctx.violation(
                RULE, fi, node,
                'the gap cells around an assembly must cover its duct '
                'perimeter exactly once: position j of row a of the returned '
                'widths is the stretch of a\'s OWN duct wall between its own '
                'boundaries j and j + 1 (a cell shared by assemblies with '
                'different meshes has a different width on each of them), '
                'the last one closes the hexagon, padding is zero -- %s '
                'wrong in %d case(s), first: %s.  The duct/gap convection '
                'constants and the gap energy balance inherit the error.'
                % (kind, cnt, text),
                key='%s | own width of %s' % (fi.full, kind))
    ctx.extra['C09.R9 model cores evaluated'] = n_eval
    ctx.extra['C09.R9 widths compared'] = dict(seen)
    ctx.extra['C09.R9 cells with a different width on their assemblies'] = \
        n_mixed
    if not crashes:
        for kind in KINDS:
            if seen[kind] < 20:
                raise AnalysisError('C09.R9: the model cores contain only '
                                    '%d %s' % (seen[kind], kind))
        if n_mixed < 20:
            raise AnalysisError('C09.R9: the model cores contain only %d '
                                'cells whose width differs between their '
                                'assemblies' % n_mixed)
    ctx.min_instances(RULE, 100)
