"""C02 -- inter-assembly heat exchange is conservative."""
import ast

from ..core import (AnalysisError, access_path, const, find_all, match, short,
                    src, walk_no_nested, parent, call_name)
from ..cfg import cfg_of
from .. import util as U
from .. import dataflow


def run(ctx):
    ctx.decided += [
        'R1 at each of the three transfer sites the gap temperature handed to '
        'an assembly is map(h*T)/map(h) on the gap2duct map; no site maps a '
        'bare gap temperature',
        'R2 a step computes all assemblies (old gap temperatures), then the '
        'gap from the new outer duct surface temperatures mapped duct2gap, '
        'then region changes; each assembly is called with its own index',
        'R3 the gap energy equation and the heat tally use one perimeter '
        'table (gap_params[asm wp]); exchange between gap cells uses the '
        'symmetric constant d_gap/L',
        'R5 adiabatic branches read nothing derived from the gap arguments; '
        'the gap update is skipped by the same predicate that makes the '
        'assemblies adiabatic',
        'R6 gap-to-gap conduction is symmetric: both directions of an '
        'edge-corner link compute their distance with the same formula from '
        'the parameters of the same (edge) cell, looked up the same way']
    ctx.not_decided += ['discrete conservation across unequal meshes (C10)',
                        'symmetry of the run-time gap adjacency (C09)',
                        'core totals as numbers']
    r1(ctx)
    r2(ctx)
    r3(ctx)
    r5(ctx)
    from . import _gapdist
    _gapdist.check(ctx, 'C02.R6')
    ctx.min_instances('C02.R6', 4)
    ctx.min_instances('C02.R1', 9)
    ctx.min_instances('C02.R2', 5)
    ctx.min_instances('C02.R3', 4)
    ctx.min_instances('C02.R5', 5)


def _map_calls(fn):
    return [c for c in ast.walk(fn) if isinstance(c, ast.Call)
            and (call_name(c) or '').endswith('map_across_gap')]


def _strip(e):
    return ' '.join(src(e).split())


def _is_product(e, a, b):
    if isinstance(e, ast.BinOp) and isinstance(e.op, ast.Mult):
        return {_strip(e.left), _strip(e.right)} == {a, b}
    return False


def r1(ctx):
    repo = ctx.repo
    sites = [
        ('reactor', 'Reactor._calculate_asm_temperatures',
         'self.core.adjacent_coolant_gap_htc(%s)',
         'self.core.adjacent_coolant_gap_temp(%s)', 'calculate'),
        ('reactor', 'Reactor.axial_step0',
         'self.core.adjacent_coolant_gap_htc(%s)',
         'self.core.adjacent_coolant_gap_temp(%s)', 'step0'),
        ('assembly', 'Assembly.update_region', 'h_gap', 't_gap', 'activate'),
    ]
    for modn, q, hpat, tpat, sink in sites:
        fi = repo.func(modn, q)
        calls = [c for c in _map_calls(fi.node)
                 if 'gap2duct' in src(c)]
        others = [c for c in _map_calls(fi.node) if 'gap2duct' not in src(c)]
        for c in others:
            ctx.violation('C02.R1', fi, c, 'gap quantity mapped with a map '
                          'other than gap2duct')
        if len(calls) != 2:
            ctx.violation('C02.R1', fi, fi.node, 'expected the pair map(h), '
                          'map(h*T) on gap2duct, found %d calls' % len(calls),
                          key=fi.full + ' | pair of maps')
            continue
        # identify index symbol
        idx = None
        m = None
        # the mapped quantity is judged on its value: a local that carries
        # one of the two gap quantities (`h = self.core.adjacent_coolant_gap_
        # htc(i)`, read by both maps) is expanded flow-sensitively at the call
        arg0 = {id(c): U.value_at(fi.node, c.args[0], c.lineno)
                for c in calls}
        for c in calls:
            a0 = arg0[id(c)]
            for cand in ast.walk(a0):
                if isinstance(cand, ast.Call) and call_name(cand) and \
                        call_name(cand).endswith('adjacent_coolant_gap_htc'):
                    idx = src(cand.args[0])
        hs = hpat % idx if '%s' in hpat else hpat
        ts = tpat % idx if '%s' in tpat else tpat
        plain = [c for c in calls if _strip(arg0[id(c)]) == hs]
        prod = [c for c in calls if _is_product(arg0[id(c)], hs, ts)]
        bare = [c for c in calls if _strip(arg0[id(c)]) == ts]
        ctx.require(len(plain) == 1 and len(prod) == 1 and not bare,
                    'C02.R1', fi, (bare or calls)[0],
                    'the gap temperature must be mapped h-weighted: '
                    'map(h*T)/map(h); a bare map(T) hands the duct a '
                    'temperature that does not carry the same flux as the gap '
                    'cells see', key=fi.full + ' | h-weighted map')
        if not (len(plain) == 1 and len(prod) == 1):
            continue
        # same map object in both calls
        ctx.require(_strip(plain[0].args[1]) == _strip(prod[0].args[1]),
                    'C02.R1', fi, prod[0], 'both maps must use the same '
                    'region map', key=fi.full + ' | same map')
        # names holding the two results
        def holder(c):
            st = c
            while not isinstance(st, ast.stmt):
                st = parent(st)
            return st
        hst, tst = holder(plain[0]), holder(prod[0])
        hn = src(hst.targets[0]) if isinstance(hst, ast.Assign) else None
        tn = src(tst.targets[0]) if isinstance(tst, ast.Assign) else None
        # division T/h before the sink
        divs = [st for st in walk_no_nested(fi.node) if (
            isinstance(st, ast.AugAssign) and isinstance(st.op, ast.Div)
            and src(st.target) == tn and src(st.value) == hn) or (
            isinstance(st, ast.Assign) and src(st.targets[0]) == tn
            and _strip(st.value) == '%s / %s' % (tn, hn))]
        sinks = [c for c in U.attr_calls(fi.node, sink)
                 if 'power' not in src(c.func)]
        ok = len(divs) == 1 and len(sinks) == 1 and \
            tst.lineno < divs[0].lineno < sinks[0].lineno
        if ok:
            args = [src(a) for a in sinks[0].args]
            ok = tn in args and hn in args and \
                args.index(tn) < args.index(hn)
        ctx.require(ok, 'C02.R1', fi, sinks[0] if sinks else fi.node,
                    'the value handed to %s() as gap temperature must be '
                    'map(h*T) divided by map(h) (and the htc the mapped h)'
                    % sink, key=fi.full + ' | divide before use')
        ctx.ok('C02.R1', fi, plain[0], 'map(h)')
        ctx.ok('C02.R1', fi, prod[0], 'map(h*T)')


def _alpha(e):
    """Text of an expression with the bound variables of its comprehensions
    numbered in order of appearance (their names are not facts)."""
    e = U._clone(e)
    k = 0
    for c in ast.walk(e):
        if not isinstance(c, (ast.ListComp, ast.SetComp, ast.GeneratorExp,
                              ast.DictComp)):
            continue
        for g_ in c.generators:
            for t in ast.walk(g_.target):
                if isinstance(t, ast.Name) and not t.id.startswith('_bv'):
                    old, new = t.id, '_bv%d' % k
                    k += 1
                    for n in ast.walk(c):
                        if isinstance(n, ast.Name) and n.id == old:
                            n.id = new
    return _strip(e)


def _built_from(fn, e):
    """Locals of fn that the value of `e` is built from (transitively through
    their plain definitions)."""
    seen, todo = set(), [e]
    while todo:
        x = todo.pop()
        for n in ast.walk(x):
            if isinstance(n, ast.Name) and n.id not in seen and \
                    U.assigns_of(fn, n.id):
                seen.add(n.id)
                todo += [d for d in U.defs_of(fn, n.id) if d is not None]
    return seen


def _modified_in_place(fn, names):
    """Some local of `names` is stored through (x[..] = / x.a = / del x[..]),
    updated by an augmented assignment or is the receiver of a method-call
    statement (x.append(..), x.sort()) somewhere in fn."""
    def root(t):
        while isinstance(t, (ast.Subscript, ast.Attribute, ast.Starred)):
            t = t.value
        return t.id if isinstance(t, ast.Name) else None
    for x in walk_no_nested(fn):
        tg = []
        if isinstance(x, ast.Assign):
            tg = [t for t in x.targets if not isinstance(t, ast.Name)]
        elif isinstance(x, ast.AugAssign):
            tg = [x.target]
        elif isinstance(x, ast.Delete):
            tg = list(x.targets)
        elif isinstance(x, ast.Expr) and isinstance(x.value, ast.Call) and \
                isinstance(x.value.func, ast.Attribute):
            tg = [x.value.func]
        while tg:
            t = tg.pop()
            if isinstance(t, (ast.Tuple, ast.List)):
                tg += [y for y in t.elts if not isinstance(y, ast.Name)]
            elif root(t) in names:
                return True
    return False


def r2(ctx):
    repo = ctx.repo
    fi = repo.func('reactor', 'Reactor.axial_step')
    g = cfg_of(fi)
    asm_calls = g.find(lambda n: isinstance(n, ast.Call) and call_name(n) ==
                       'self._calculate_asm_temperatures')
    gap_calls = g.find(lambda n: isinstance(n, ast.Call) and call_name(n) ==
                       'self.core.calculate_gap_temperatures')
    upd_calls = g.find(lambda n: isinstance(n, ast.Call) and
                       isinstance(n.func, ast.Attribute) and
                       n.func.attr == 'update_region')
    if not (asm_calls and gap_calls and upd_calls):
        raise AnalysisError('axial_step: calls to _calculate_asm_temperatures'
                            '/calculate_gap_temperatures/update_region '
                            'not found')
    ok = len(asm_calls) == 1 and len(gap_calls) == 1 and \
        not g.path_exists(gap_calls[0], asm_calls[0]) and \
        g.path_exists(asm_calls[0], gap_calls[0])
    # the assembly loop completes before the gap: the loop header dominates
    lp = [l for l in U.enclosing_loops(asm_calls[0].stmt)]
    ok = ok and len(lp) == 1 and \
        src(lp[0].iter) == 'range(len(self.assemblies))' and \
        not any(l for l in U.enclosing_loops(gap_calls[0].stmt))
    ctx.require(ok, 'C02.R2', fi, gap_calls[0].stmt,
                'all assemblies must be advanced (with the old gap '
                'temperatures) before the gap is advanced',
                key=fi.full + ' | assemblies before gap')
    ok = all(not g.path_exists(u, gap_calls[0]) and
             not g.path_exists(u, asm_calls[0]) for u in upd_calls)
    ctx.require(ok, 'C02.R2', fi, upd_calls[0].stmt,
                'region changes must come after the gap update of the step',
                key=fi.full + ' | region change last')
    # own index
    c = [x for x in ast.walk(asm_calls[0].stmt) if isinstance(x, ast.Call)
         and call_name(x) == 'self._calculate_asm_temperatures'][0]
    i = src(lp[0].target) if lp else '?'
    ok = len(c.args) >= 2 and src(c.args[0]) == 'self.assemblies[%s]' % i \
        and src(c.args[1]) == i
    ctx.require(ok, 'C02.R2', fi, c, 'each assembly must be advanced with its '
                'own index (the gap lookup uses that index)',
                key=fi.full + ' | own index')
    for u in upd_calls:
        uc = [x for x in ast.walk(u.stmt) if isinstance(x, ast.Call) and
              isinstance(x.func, ast.Attribute) and
              x.func.attr == 'update_region'][0]
        recv = src(uc.func.value)
        b = match('self.assemblies[Q_i]', uc.func.value)
        ok = b is not None and any(
            'adjacent_coolant_gap_temp(%s)' % src(b['Q_i']) in src(a)
            for a in uc.args) and any(
            'adjacent_coolant_gap_htc(%s)' % src(b['Q_i']) in src(a)
            for a in uc.args)
        ctx.require(ok, 'C02.R2', fi, uc, 'update_region must receive the '
                    'gap data of the same assembly',
                    key=fi.full + ' | update_region own index')
    # duct argument of the gap update
    gc = [x for x in ast.walk(gap_calls[0].stmt) if isinstance(x, ast.Call)
          and call_name(x) == 'self.core.calculate_gap_temperatures'][0]
    # decided on the VALUE handed over: the argument expanded flow-sensitively
    # at the call (a local, a chain of locals or the expression in place),
    # compared up to the names of comprehension-bound variables; none of the
    # locals it is built from may be modified in place anywhere in the step
    td = None
    if len(gc.args) > 1:
        bound = {n.id for c_ in ast.walk(fi.node) if isinstance(
            c_, ast.comprehension) for n in ast.walk(c_.target)
            if isinstance(n, ast.Name)}
        td = ast.copy_location(U.value_at(fi.node, gc.args[1], gc.lineno,
                                          keep=bound), gc)
    ok = td is not None and _alpha(td) == _alpha(ast.parse(
        "np.array([dassh.mesh_functions.map_across_gap(a.duct_outer_surf_temp"
        ", a.active_region._map['duct2gap']) for a in self.assemblies])",
        mode='eval').body) and not _modified_in_place(
            fi.node, _built_from(fi.node, gc.args[1]))
    ctx.require(ok, 'C02.R2', fi, td if td is not None else gc,
                'the gap must see the new outer-duct surface temperatures of '
                'every assembly mapped with duct2gap, in assembly order',
                key=fi.full + ' | duct temps to gap')
    # gap skipped iff adiabatic
    gs = U.guards(gap_calls[0].stmt)
    ctx.require([(src(t), p) for t, p in gs] ==
                [('self.core.model is not None', True)], 'C02.R2', fi,
                gap_calls[0].stmt, 'gap update guarded by core.model',
                key=fi.full + ' | gap guard')
    # outer surface property: last duct, outer face
    cls = repo.cls('assembly', 'Assembly')
    pf, pe = U.property_return(repo, cls, 'duct_outer_surf_temp')
    # a trivial getter of the same class standing for the field look-up
    # (self.temp_duct_surf) is read through
    px = U.resolve_self_props(repo, cls, pe, keep=('active_region',)) \
        if pe is not None else None
    ctx.require(px is not None and src(px) ==
                "self.active_region.temp['duct_surf'][-1, -1, :]", 'C02.R2',
                pf, pe if pe is not None else pf.node,
                'outer surface = last duct, outer face',
                key=pf.full + ' | outer surface')


def r3(ctx):
    repo = ctx.repo
    cm = repo.func('core', 'Core._make_conv_mask')
    sts = [(t, st) for t, st in U.stores(cm.node)
           if src(t).startswith("self._conv_util['const']")]
    per = [st for t, st in sts if isinstance(t, ast.Subscript) and
           isinstance(st, ast.Assign) and
           src(t.value) == "self._conv_util['const']"]
    ok = len(per) == 1 and _strip(per[0].value) == \
        "self.gap_params['asm wp'][asm[i], loc[i]]" and \
        _strip(per[0].targets[0]) == "self._conv_util['const'][sci, i]"
    ctx.require(ok, 'C02.R3', cm, per[0] if per else cm.node,
                'gap-cell convection constants must be the assembly-side '
                'wetted perimeters (gap_params[asm wp]) of the duct cells '
                'the gap cell touches', key=cm.full + ' | const provenance')
    resc = [st for t, st in sts if isinstance(st, ast.AugAssign)]
    ok = all([(src(t), p) for t, p in U.guards(st)] ==
             [("self.model == 'no_flow'", True)] for st in resc)
    ctx.require(ok and len(resc) <= 1, 'C02.R3', cm,
                resc[0] if resc else cm.node,
                'the only rescaling of the constants is the no_flow factor',
                key=cm.full + ' | rescaling')
    asm_loc = U.assigns_of(cm.node, 'asm')
    ok = len(asm_loc) == 1 and _strip(asm_loc[0].value) == \
        'np.where(self._asm_sc_adj == sci + 1)'
    ctx.require(ok, 'C02.R3', cm, asm_loc[0] if asm_loc else cm.node,
                'duct cells of a gap cell are looked up in the same adjacency '
                'array the assemblies use to read the gap',
                key=cm.full + ' | adjacency lookup')
    eb = repo.func('core', 'Core._update_energy_balance')
    h = find_all("self.ebal['asm'] += h * self.gap_params['asm wp'] * dz * "
                 "(approx_duct_temps - adj_cool)", eb.node, 'stmt')
    hd = U.single_def(eb.node, 'h')
    ad = U.single_def(eb.node, 'adj_cool')
    ok = bool(h) and hd is not None and ad is not None and \
        _strip(hd) == "self.coolant_gap_params['htc'][self._asm_sc_adj - 1]" \
        and _strip(ad) == 'self.coolant_gap_temp[self._asm_sc_adj - 1]'
    ctx.require(ok, 'C02.R3', eb, h[0][0] if h else eb.node,
                'the heat tally must be h * wp * dz * (T_duct - T_gap) with '
                'the same perimeter table and adjacency as the gap equation',
                key=eb.full + ' | tally')
    # tally before the temperatures change
    cg = repo.func('core', 'Core.calculate_gap_temperatures')
    g = cfg_of(cg)
    t = g.find(lambda n: isinstance(n, ast.Call) and call_name(n) ==
               'self._update_energy_balance')
    w = [g.node_of(st) for tg, st in U.stores(cg.node)
         if src(tg) == 'self.coolant_gap_temp']
    ok = len(t) == 1 and w and all(g.dominates(t[0], x) for x in w)
    ctx.require(ok, 'C02.R3', cg, t[0].stmt if t else cg.node,
                'the tally must use the gap temperatures of the old level '
                '(the ones the assemblies saw)', key=cg.full + ' | tally order')
    fm = [st for tg, st in U.stores(cg.node)
          if src(tg) == 'self.coolant_gap_temp' and
          isinstance(st, ast.AugAssign)]
    # the increment is the value of self._flow_model(dz, <duct temps>),
    # whether held in a local (recorded: dT) or written in place; decided on
    # the flow-sensitive expansion of the right-hand side
    inc = U.value_at(cg.node, fm[0].value, fm[0].lineno) \
        if len(fm) == 1 else None
    ok = len(fm) == 1 and isinstance(fm[0].op, ast.Add) and \
        isinstance(inc, ast.Call) and \
        call_name(inc) == 'self._flow_model' and not inc.keywords and \
        [src(a) for a in inc.args] == list(cg.params[1:3]) and \
        [(src(t_), p) for t_, p in U.guards(fm[0])] == \
        [("self.model == 'flow'", True)]
    ctx.require(ok, 'C02.R3', cg, fm[0] if fm else cg.node,
                'flow model: gap temperature advanced by += dT once',
                key=cg.full + ' | += dT')
    # conduction constant symmetric: d_gap / L (L symmetric by construction
    # of _calculate_dist_between_sc; C09)
    mk = repo.func('core', 'Core._make_cond_mask')
    h = find_all("self._Rcond = np.divide(self.d_gap, self.gap_params['L'], "
                 "out=np.zeros_like(self.gap_params['L']), "
                 "where=self.gap_params['L'] != 0)", mk.node, 'stmt')
    ctx.require(bool(h), 'C02.R3', mk, h[0][0] if h else mk.node,
                'conduction constant = d_gap / L, zero where no neighbour',
                key=mk.full + ' | Rcond')
    # flow model: the three convection terms use const column i with duct
    # index set i; all divided by the same m*cp
    fl = repo.func('core', 'Core._flow_model')
    terms = find_all("C[:, Q_i] * (t_duct[tuple(self._conv_util['inds'][Q_i])]"
                     " - self.coolant_gap_temp)", fl.node)
    cols = sorted(const(b['Q_i']) for n, b in terms)
    ctx.require(cols == [0, 1, 2], 'C02.R3', fl,
                terms[0][0] if terms else fl.node,
                'each of the (up to) three duct connections must pair '
                'constant column i with duct index set i (found %s)' % cols,
                key=fl.full + ' | convection pairing')
    cd = U.single_def(fl.node, 'C')
    ctx.require(cd is not None and _strip(cd) ==
                "self._conv_util['const'] * self.coolant_gap_params['htc']"
                "[:, None]", 'C02.R3', fl, cd if cd is not None else fl.node,
                'C = perimeter * gap htc', key=fl.full + ' | C')
    rets = [n for n in walk_no_nested(fl.node) if isinstance(n, ast.Return)]
    ctx.require(len(rets) == 1 and _strip(rets[0].value) ==
                'dT * dz * self._inv_sc_mfr / self.gap_coolant.heat_capacity',
                'C02.R3', fl, rets[0] if rets else fl.node,
                'temperature rise = heat * dz / (m * cp)',
                key=fl.full + ' | return')


def _tainted_names(fn_node, seeds):
    t = set(seeds)
    changed = True
    while changed:
        changed = False
        for st in walk_no_nested(fn_node):
            if isinstance(st, (ast.Assign, ast.AugAssign)):
                rhs = {x.id for x in ast.walk(st.value)
                       if isinstance(x, ast.Name)}
                if rhs & t:
                    for tg in (st.targets if isinstance(st, ast.Assign)
                               else [st.target]):
                        for x in ast.walk(tg):
                            if isinstance(x, ast.Name) and isinstance(
                                    x.ctx, ast.Store) and x.id not in t:
                                t.add(x.id)
                                changed = True
    return t


def _tainted_loads(body, taint):
    """Loads of tainted names in a straight-line block, honouring local
    re-definitions from untainted values (sequential pass)."""
    clean = set()
    bad = []
    for st in body:
        loads = [x for x in ast.walk(st.value if isinstance(
            st, (ast.Assign, ast.AugAssign)) else st)
            if isinstance(x, ast.Name) and isinstance(x.ctx, ast.Load)]
        if isinstance(st, ast.AugAssign):
            loads += [x for x in ast.walk(st.target)
                      if isinstance(x, ast.Name)]
        if isinstance(st, ast.Assign):
            for tg in st.targets:
                loads += [x for x in ast.walk(tg) if isinstance(x, ast.Name)
                          and isinstance(x.ctx, ast.Load)]
        hit = [x for x in loads if x.id in taint and x.id not in clean]
        bad += hit
        if isinstance(st, ast.Assign):
            for tg in st.targets:
                if isinstance(tg, ast.Name):
                    if hit:
                        clean.discard(tg.id)
                    else:
                        clean.add(tg.id)
    return bad


def r5(ctx):
    repo = ctx.repo
    # rodded: adiabatic & last duct branch
    fi = repo.func('region_rodded', 'RoddedRegion._calc_duct_temp')
    seeds = [p for p in fi.params if 'gap' in p]
    taint = _tainted_names(fi.node, seeds)
    ifs = [n for n in walk_no_nested(fi.node) if isinstance(n, ast.If)
           and 'adiabatic' in src(n.test)]
    if len(ifs) != 1:
        raise AnalysisError('RoddedRegion._calc_duct_temp: adiabatic branch')
    br = ifs[0]
    v1 = U.eval_test(br.test, {'adiabatic': True, 'i + 1': 3,
                               'self.n_duct': 3, 'i': 2})
    v2 = U.eval_test(br.test, {'adiabatic': True, 'i + 1': 2,
                               'self.n_duct': 3, 'i': 1})
    v3 = U.eval_test(br.test, {'adiabatic': False, 'i + 1': 3,
                               'self.n_duct': 3, 'i': 2})
    # the arm that holds the adiabatic formulas is the one taken by the
    # outermost duct under the adiabatic option -- decided on the value of
    # the test over the finite domain (option) x (1..4 ducts) x (duct index),
    # where it must be `adiabatic and outermost` or exactly its negation
    # (arms swapped), never on the polarity it is written in
    pts = [U.eval_test(br.test, {'adiabatic': a_, 'i + 1': i_ + 1,
                                 'self.n_duct': n_, 'i': i_}) ==
           (a_ and i_ == n_ - 1)
           for a_ in (True, False) for n_ in range(1, 5) for i_ in range(n_)]
    neg = [U.eval_test(br.test, {'adiabatic': a_, 'i + 1': i_ + 1,
                                 'self.n_duct': n_, 'i': i_}) ==
           (not (a_ and i_ == n_ - 1))
           for a_ in (True, False) for n_ in range(1, 5) for i_ in range(n_)]
    swapped = all(neg) and v1 is False and v2 is True and v3 is True
    ctx.require((v1 is True and v2 is False and v3 is False and all(pts))
                or swapped, 'C02.R5', fi,
                br.test, 'the adiabatic formulas apply exactly to the '
                'outermost duct under the adiabatic option',
                key=fi.full + ' | adiabatic condition')
    bad = _tainted_loads(br.orelse if swapped else br.body, taint)
    ctx.require(not bad, 'C02.R5', fi, bad[0] if bad else br,
                'the adiabatic branch reads %s, which is derived from the '
                'gap temperature / htc arguments: heat would cross an '
                'adiabatic wall' % sorted({b.id for b in bad}),
                key=fi.full + ' | adiabatic branch independent of gap')
    # the shared tail (mid-wall / surfaces) uses only c1, c2, q terms
    # unrodded regions
    for q in ('SingleNodeHomogeneous._calc_duct_temp',
              'SingleNodeHomogeneous._calc_coolant_temp',
              'MultiNodeHomogeneous._calc_coolant_temp'):
        f = repo.func('region_unrodded', q)
        seeds = [p for p in f.params if 'gap' in p]
        taint = _tainted_names(f.node, seeds)
        n = 0
        for i in [x for x in walk_no_nested(f.node) if isinstance(x, ast.If)]:
            t, pol = dataflow.norm_guard(i.test, True)
            if t != 'adiabatic':
                continue
            body = i.body if pol else i.orelse
            n += 1
            bad = _tainted_loads(body, taint)
            # wall-derived heat must not enter the coolant either
            wall = [x for st in body for x in ast.walk(st)
                    if isinstance(x, ast.Subscript) and
                    "self.temp['duct" in src(x) and
                    isinstance(x.ctx, ast.Load)] if 'coolant' in q else []
            ctx.require(not bad and not wall, 'C02.R5', f,
                        (bad or wall or [i])[0],
                        'adiabatic branch must not read gap-derived values '
                        'nor wall temperatures', key=f.full + ' | adiabatic')
        if 'duct' in q and n == 0:
            raise AnalysisError(q + ': adiabatic branch vanished')
    # same predicate: _is_adiabatic <=> gap_model is None <=> core.model None
    init = repo.func('reactor', 'Reactor.__init__')
    sts = [st for t, st in U.stores(init.node)
           if src(t) == 'self._is_adiabatic']
    ok = len(sts) == 2 and const(sts[0].value) is False and \
        const(sts[1].value) is True and \
        [(src(t), p) for t, p in U.guards(sts[1])] == \
        [("dassh_input.data['Core']['gap_model'] is None", True)]
    ctx.require(ok, 'C02.R5', init, sts[-1] if sts else init.node,
                'assemblies are adiabatic iff no gap model is selected',
                key=init.full + ' | adiabatic flag')
    sc = repo.func('reactor', 'Reactor._setup_core')
    kw = [k for c in ast.walk(sc.node) if isinstance(c, ast.Call)
          for k in c.keywords if k.arg == 'model']
    ctx.require(len(kw) == 1 and src(kw[0].value) ==
                "inp_obj.data['Core']['gap_model']", 'C02.R5', sc,
                kw[0].value if kw else sc.node,
                'the core gets the same gap model the flag is derived from',
                key=sc.full + ' | core model')
    # adiabatic callers pass dummy gap values that are not the gap's
    ca = repo.func('reactor', 'Reactor._calculate_asm_temperatures')
    dm = [st for st in walk_no_nested(ca.node) if isinstance(st, ast.Assign)
          and src(st.targets[0]) in ('gap_temp', 'gap_htc') and
          'np.ones' in src(st.value)]
    ok = len(dm) == 2 and all(
        [(src(t), p) for t, p in U.guards(d)] ==
        [('self.core.model is None', True)] for d in dm)
    ctx.require(ok, 'C02.R5', ca, dm[0] if dm else ca.node,
                'without a gap model the assemblies get placeholder gap data',
                key=ca.full + ' | placeholders')
