"""Normalisation of the duct flat-to-flat list in the region constructors.

The input gives 2 n_duct distances in any order (read_input.check_duct:
"inferred based on whichever is greater").  The constructors touch them only
through sorting, slicing and reshaping before they become (inner, outer)
pairs -- a finite set of orderings.  The backward slice of the constructor
that defines `self.duct_ftf` (and `self.duct_thickness`) is evaluated by the
checker's finite-domain evaluator (dsa/finite.py) for EVERY permutation of
2n distinct values, n = 1..3, and the result must be the ascending pairing.
"""
import ast
import itertools
from fractions import Fraction

from ..core import AnalysisError, src
from .. import finite as FD


# distinct values with pairwise distinct differences, so that a thickness
# taken from the wrong pair cannot coincide with the right one
VALUES = [1, 2, 4, 8, 16, 32]


def _writes_reads(st):
    """(names written, names read) by one top-level statement, compound
    statements included: a name is written by a binding anywhere inside the
    statement (assignment, loop target, `with ... as`), by a store through a
    subscript of it, or by an in-place list method called on it; `self.x`
    attributes are tracked by their source text."""
    writes, reads = set(), set()

    def base(t):
        while isinstance(t, (ast.Subscript, ast.Starred)):
            t = t.value
        return t

    for x in ast.walk(st):
        if isinstance(x, ast.Name):
            (reads if isinstance(x.ctx, ast.Load) else writes).add(x.id)
        elif isinstance(x, ast.Attribute) and src(x).startswith('self.'):
            (reads if isinstance(x.ctx, ast.Load) else writes).add(src(x))
        if isinstance(x, ast.Subscript) and not isinstance(x.ctx, ast.Load):
            b = base(x)
            if isinstance(b, ast.Name):
                writes.add(b.id)
            elif isinstance(b, ast.Attribute):
                writes.add(src(b))
        if isinstance(x, ast.Call) and isinstance(x.func, ast.Attribute) \
                and x.func.attr in FD.LIST_MUTATORS:
            b = base(x.func.value)
            if isinstance(b, ast.Name):
                writes.add(b.id)
            elif isinstance(b, ast.Attribute):
                writes.add(src(b))
    return writes, reads


def _slice_for(fn, targets):
    """Top-level statements of fn (in order) needed to compute the attribute
    targets: the stores themselves plus every earlier statement -- plain
    assignment, loop, conditional, in-place method call -- that writes a
    local or attribute they read (transitively).  The kept statements are
    executed by the finite-domain evaluator, so a form it does not model is
    an analysis error, never a silent skip."""
    body = [st for st in fn.body if not (
        isinstance(st, ast.Expr) and isinstance(st.value, ast.Constant))]
    need = set()
    keep = []
    last = -1
    for k, st in enumerate(body):
        if isinstance(st, (ast.FunctionDef, ast.AsyncFunctionDef,
                           ast.ClassDef, ast.Import, ast.ImportFrom)):
            continue
        # any write of a target: binding, store through it, in-place method
        # (`self.duct_ftf = []` followed by a loop of `.append`)
        if _writes_reads(st)[0] & set(targets):
            last = k
    if last < 0:
        return None
    for k in range(last, -1, -1):
        st = body[k]
        if isinstance(st, (ast.FunctionDef, ast.AsyncFunctionDef,
                           ast.ClassDef, ast.Import, ast.ImportFrom,
                           ast.Pass, ast.Global, ast.Nonlocal)):
            continue
        writes, reads = _writes_reads(st)
        if writes & set(targets) or writes & need:
            keep.append(st)
            need |= reads
    return list(reversed(keep))


def _norm(v):
    if isinstance(v, (list, tuple)):
        return [_norm(x) for x in v]
    if isinstance(v, Fraction) and v.denominator == 1:
        return int(v)
    return v


def check(ctx, rule, modname, qual, param, expect):
    """expect(n, V) -> {attribute text: expected value} for the sorted input
    values V[0] < ... < V[2n-1]."""
    fi = ctx.repo.func(modname, qual)
    targets = list(expect(1, VALUES).keys())
    stmts = _slice_for(fi.node, targets)
    if not stmts:
        raise AnalysisError('%s: no store of %s' % (fi.full, targets))
    n_eval = 0
    for n in (1, 2, 3):
        want = {k: _norm(v) for k, v in expect(n, VALUES).items()}
        vals = VALUES[:2 * n]
        bad = None
        for perm in itertools.permutations(vals):
            ev = FD.Evaluator({}, set(), fuel=20000)
            env = {param: list(perm)}
            try:
                ev.run_block(stmts, env)
            except FD.Unsupported as e:
                raise AnalysisError('%s: duct_ftf normalisation not '
                                    'evaluable: %s' % (fi.full, e))
            except FD.Raised as r:
                bad = (perm, 'raises at line %d' % getattr(
                    r.node, 'lineno', 0))
                break
            n_eval += 1
            got = {k: _norm(ev.attr_env.get(k)) for k in want}
            if got != want:
                bad = (perm, 'gives %s, expected %s' % (got, want))
                break
        ctx.require(bad is None, rule, fi, stmts[-1],
                    '%d duct(s): for the flat-to-flat input %s the '
                    'constructor %s -- the (inner, outer) pairs must be the '
                    'ascending pairing of the sorted list whatever the order '
                    'of the input' % (n, list(bad[0]) if bad else '',
                                      bad[1] if bad else ''),
                    note='%d-duct permutations' % n,
                    key='%s | duct_ftf normalisation n=%d' % (fi.full, n))
    ctx.extra.setdefault('ductftf_permutations_evaluated', {})[fi.full] = \
        n_eval
