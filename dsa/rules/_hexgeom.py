"""Exact hexagon algebra for calculate_geometry (C08.R4; facts reused by
C09).

Abstract domain: rational functions over named atoms (D_poly) with array
elements addressed by a *symbolic* index (a polynomial in the loop variable),
so that one evaluation of a loop body covers every duct / bypass index.  The
corner-length recurrence is checked as an inductive invariant supplied here
(closed form) -- base case plus step -- and the closed form is then used to
check that the cells tile the hexagon and every annulus.  sqrt(3) is the
atom r3 with the reduction r3^2 = 3.
"""
import ast
from fractions import Fraction

from ..core import AnalysisError, src, const, walk_no_nested, call_name
from ..poly import Poly, Rat, NotPolynomial
from .. import util as U

R3 = Rat.sym('r3')
N = Rat.sym('n')
P_, D_, DW, PI, CT = (Rat.sym(x) for x in ('P', 'D', 'Dw', 'pi', 'ct'))
c = Rat.const


def reduce_r3(r):
    """Apply r3^2 = 3 to numerator and denominator."""
    def red(p):
        t = {}
        for k, v in p.t.items():
            d = dict(k)
            e = d.pop('r3', 0)
            v = v * (3 ** (e // 2))
            if e % 2:
                d['r3'] = 1
            kk = tuple(sorted(d.items()))
            t[kk] = t.get(kk, 0) + v
        return Poly(t)
    return Rat(red(r.n), red(r.d))


def is_zero(r):
    """r == 0 modulo r3^2 = 3 (multiply out a possible r3 in the numerator:
    a + b r3 = 0 with rational-function a, b iff a = b = 0)."""
    p = reduce_r3(r).n
    a = Poly({k: v for k, v in p.t.items() if 'r3' not in dict(k)})
    b = Poly({k: v for k, v in p.t.items() if 'r3' in dict(k)})
    return a.is_zero() and b.is_zero()


def F(idx, face):
    """dftf[idx][face] as an atom named by the normalised index."""
    return Rat.sym('F[%r,%d]' % (idx.n, face))


def wcorner_cf(idx, face):
    """Closed form of d['wcorner'][idx, face]: half the side of the hexagon
    through that duct face minus half of the (n-1) edge pitches."""
    return F(idx, face) / (c(2) * R3) - P_ * (N - c(1)) / c(2)


class Geo:
    """Evaluator of the arithmetic in calculate_geometry."""

    def __init__(self, fi, ftf_name='dftf'):
        self.fi = fi
        self.ftf_name = ftf_name
        self.params = fi.params
        # scalar locals with one definition at function top level
        self.scalar = {}
        for st in fi.node.body:
            if isinstance(st, ast.Assign) and len(st.targets) == 1 and \
                    isinstance(st.targets[0], ast.Name):
                self.scalar.setdefault(st.targets[0].id, []).append(st.value)
        # indexed stores: (base text, const keys) -> [(index nodes, value,
        # loop var or None, stmt)]
        self.stores = {}
        for st in ast.walk(fi.node):
            if not isinstance(st, (ast.Assign, ast.AugAssign)):
                continue
            t = st.targets[0] if isinstance(st, ast.Assign) else st.target
            if not isinstance(t, ast.Subscript):
                continue
            base, keys, idx = self.split(t)
            lv = None
            for l in U.enclosing_loops(st):
                if isinstance(l, ast.For) and isinstance(l.target, ast.Name):
                    lv = l.target.id
                    break
            self.stores.setdefault((base, keys), []).append(
                (idx, st, lv))

    @staticmethod
    def split(sub):
        """x['a']['b'][i, 1][j] -> ('x', ('a','b'), [i, 1, j])"""
        idx = []
        n = sub
        while isinstance(n, ast.Subscript):
            sl = n.slice
            parts = list(sl.elts) if isinstance(sl, ast.Tuple) else [sl]
            idx = parts + idx
            n = n.value
        keys = []
        while idx and isinstance(const(idx[0]), str):
            keys.append(const(idx[0]))
            idx = idx[1:]
        return src(n), tuple(keys), idx

    def index(self, node, sub):
        """Index expression -> Rat (polynomial in the loop symbol)."""
        v = const(node)
        if isinstance(v, int) and not isinstance(v, bool):
            return c(v)
        if isinstance(node, ast.UnaryOp) and isinstance(node.op, ast.USub):
            return -self.index(node.operand, sub)
        if isinstance(node, ast.Name):
            if node.id in sub:
                return sub[node.id]
            raise NotPolynomial('index name ' + node.id)
        if isinstance(node, ast.BinOp) and isinstance(node.op,
                                                      (ast.Add, ast.Sub)):
            l, r = self.index(node.left, sub), self.index(node.right, sub)
            return l + r if isinstance(node.op, ast.Add) else l - r
        raise NotPolynomial('index ' + src(node))

    def conv(self, node, sub, over=None, depth=0):
        """Arithmetic expression -> Rat.  sub: {loop var: index Rat};
        over(base, keys, idx) may return a Rat for an element read."""
        if depth > 12:
            raise NotPolynomial('definition depth')
        s = ' '.join(src(node).split())
        v = const(node)
        if isinstance(v, (int, float)) and not isinstance(v, bool):
            return c(Fraction(str(v)))
        if s in ('_sqrt3',):
            return R3
        if s in ('_sqrt3over3',):
            return R3 / c(3)
        if s in ('np.pi', 'math.pi'):
            return PI
        if isinstance(node, ast.UnaryOp) and isinstance(node.op, ast.USub):
            return -self.conv(node.operand, sub, over, depth)
        if isinstance(node, ast.BinOp):
            if isinstance(node.op, ast.Pow):
                e = const(node.right)
                if isinstance(e, int):
                    return self.conv(node.left, sub, over, depth) ** e
                raise NotPolynomial(s)
            l = self.conv(node.left, sub, over, depth)
            r = self.conv(node.right, sub, over, depth)
            if isinstance(node.op, ast.Add):
                return l + r
            if isinstance(node.op, ast.Sub):
                return l - r
            if isinstance(node.op, ast.Mult):
                return l * r
            if isinstance(node.op, ast.Div):
                return l / r
            raise NotPolynomial(s)
        if isinstance(node, ast.Name):
            if node.id in sub:
                return sub[node.id]
            atom = {'n_ring': N, 'P': P_, 'D': D_, 'Dw': DW,
                    'cos_theta': CT}.get(node.id)
            if atom is not None and (node.id in self.params or
                                     node.id == 'cos_theta'):
                return atom
            ds = self.scalar.get(node.id)
            if ds and len(ds) == 1:
                return self.conv(ds[0], sub, over, depth + 1)
            return Rat.sym('<%s>' % node.id)
        if isinstance(node, ast.IfExp):
            # both arms the same value: the selection does not matter
            a = self.conv(node.body, sub, over, depth)
            b = self.conv(node.orelse, sub, over, depth)
            if is_zero(a - b):
                return a
            return Rat.sym('<%s>' % s)
        if isinstance(node, ast.Subscript):
            base, keys, idx = self.split(node)
            try:
                ir = [self.index(x, sub) for x in idx]
            except NotPolynomial:
                return Rat.sym('<%s>' % s)
            if over is not None:
                r = over(base, keys, ir)
                if r is not None:
                    return r
            if base == self.ftf_name and len(ir) == 2 and \
                    ir[1].n.t.keys() <= {()}:
                face = int(ir[1].n.t.get((), 0))
                return F(ir[0], face)
            return self.element(base, keys, ir, over, depth)
        return Rat.sym('<%s>' % s)

    def element(self, base, keys, ir, over, depth):
        """Value of base[keys][ir] from the store(s) that define it: the
        plain assignment, followed by the augmented assignments to the same
        element in source order."""
        cands = sorted(self.stores.get((base, keys), []),
                       key=lambda x: x[1].lineno)
        hits = []
        for idx, st, lv in cands:
            if len(idx) != len(ir):
                continue
            try:
                if all(self.index(x, {}).equals(r) for x, r in zip(idx, ir)):
                    hits.append((st, {}))
                    continue
            except NotPolynomial:
                pass
            if lv is None:
                continue
            # store at [lv (+k), consts...]: solve lv from the first index
            try:
                first = self.index(idx[0], {lv: Rat.sym('@')})
            except NotPolynomial:
                continue
            off = first - Rat.sym('@')
            if off.n.symbols() or off.d.symbols():
                continue
            subv = {lv: ir[0] - off}
            try:
                if all(self.index(x, subv).equals(r)
                       for x, r in zip(idx[1:], ir[1:])):
                    hits.append((st, subv))
            except NotPolynomial:
                continue
        hits = [h for h in hits if not (isinstance(h[0], ast.Assign) and
                                        isinstance(h[0].value, ast.Call))]
        if hits and isinstance(hits[0][0], ast.Assign):
            val = self.conv(hits[0][0].value, hits[0][1], over, depth + 1)
            for st, subv in hits[1:]:
                if isinstance(st, ast.Assign):
                    val = self.conv(st.value, subv, over, depth + 1)
                    continue
                v = self.conv(st.value, subv, over, depth + 1)
                if isinstance(st.op, ast.Add):
                    val = val + v
                elif isinstance(st.op, ast.Sub):
                    val = val - v
                elif isinstance(st.op, ast.Mult):
                    val = val * v
                elif isinstance(st.op, ast.Div):
                    val = val / v
                else:
                    raise NotPolynomial('operator in ' + src(st)[:40])
            return val
        # element of a list built by a comprehension / literal stored whole
        for idx, st, lv in cands:
            if len(idx) != len(ir) - 1 or not isinstance(st, ast.Assign):
                continue
            try:
                if not all(self.index(x, {}).equals(r)
                           for x, r in zip(idx, ir)):
                    continue
            except NotPolynomial:
                continue
            v = st.value
            if isinstance(v, ast.ListComp) and len(v.generators) == 1:
                tv = {x.id for x in ast.walk(v.generators[0].target)
                      if isinstance(x, ast.Name)}
                if not tv & {x.id for x in ast.walk(v.elt)
                             if isinstance(x, ast.Name)}:
                    return self.conv(v.elt, {}, over, depth + 1)
        return Rat.sym('<%s%s%s>' % (base, ''.join("['%s']" % k
                                                   for k in keys),
                                     [repr(r.n) for r in ir]))

    def value(self, st, sub, over, depth):
        if isinstance(st, ast.AugAssign):
            raise NotPolynomial('augmented store ' + src(st)[:40])
        return self.conv(st.value, sub, over, depth + 1)


def check(ctx, rule, counts, fixed=None):
    """fixed: {symbol: Rat} -- values some symbols are known to have on the
    path being judged (C08.R9: `Dw == 0.0` selected); the identities are
    then required for those values only."""
    repo = ctx.repo
    fi = repo.func('region_rodded', 'calculate_geometry')
    g = Geo(fi)
    i = Rat.sym('i')

    def zero(r):
        for k, v in (fixed or {}).items():
            if reduce_r3(r).d.subs(k, v.n).is_zero():
                raise AnalysisError('calculate_geometry: %s = %r makes a '
                                    'denominator vanish' % (k, v.n))
            r = r.subs(k, v)
        return is_zero(r)

    def over_cf(base, keys, ir):
        if base == 'd' and keys == ('wcorner',) and len(ir) == 2 and \
                not ir[1].n.symbols():
            return wcorner_cf(ir[0], int(ir[1].n.t.get((), 0)))
        return None

    def req(ok, node, what, key):
        ctx.require(ok, rule, fi, node, what, key='%s | %s' % (fi.full, key))

    # ---- corner lengths: base case and inductive step of the closed form
    wst = g.stores.get(('d', ('wcorner',)), [])
    if len(wst) < 4:
        raise AnalysisError("calculate_geometry: d['wcorner'] stores")
    n_base = n_step = 0
    for idx, st, lv in wst:
        if isinstance(st.value, ast.Call):
            continue                    # np.zeros allocation
        if len(idx) != 2:
            continue
        sub = {lv: i} if lv and any(
            isinstance(x, ast.Name) and x.id == lv
            for q in idx for x in ast.walk(q)) else {}
        try:
            ir = [g.index(x, sub) for x in idx]
        except NotPolynomial:
            raise AnalysisError('wcorner store index ' + src(st)[:60])
        face = int(ir[1].n.t.get((), 0))
        # reads of *other* wcorner elements use the closed form (induction
        # hypothesis); everything else is expanded from its definition

        def hyp(base, keys, jr, _self=(ir[0], face)):
            if base == 'd' and keys == ('wcorner',):
                return wcorner_cf(jr[0], int(jr[1].n.t.get((), 0)))
            return None
        try:
            val = g.conv(st.value, sub, hyp)
        except NotPolynomial as e:
            raise AnalysisError('calculate_geometry: %s' % e)
        want = wcorner_cf(ir[0], face)
        ok = zero(val - want)
        if sub:
            n_step += 1
        else:
            n_base += 1
        req(ok, st, "corner length d['wcorner'][%s, %d] must be half the "
            "side of the hexagon through that duct face minus half of the "
            "(n_ring - 1) edge pitches, F/(2 sqrt3) - P (n-1)/2 (%s; "
            "residual %r)" % (src(idx[0]), face, 'inductive step' if sub
                              else 'base case', reduce_r3(val - want).n),
            'wcorner[%s,%d]' % (src(idx[0]).replace(' ', ''), face))
    if n_base < 2 or n_step < 2:
        raise AnalysisError('calculate_geometry: wcorner recurrence shape '
                            '(%d base, %d step)' % (n_base, n_step))
    # ---- duct annulus tiling: 6 ((n-1) edge + corner) = total
    try:
        e_a = g.element('duct', ('area',), [i, c(0)], over_cf, 0)
        c_a = g.element('duct', ('area',), [i, c(1)], over_cf, 0)
        tot = g.element('duct', ('total area',), [i], over_cf, 0)
    except NotPolynomial as e:
        raise AnalysisError('calculate_geometry duct areas: %s' % e)
    req(zero(c(6) * ((N - c(1)) * e_a + c_a) - tot), fi.node,
        'duct wall cells must tile their annulus: 6 ((n_ring-1) x edge cell '
        '+ corner cell) = sqrt3/2 (F_out^2 - F_in^2); residual %r'
        % reduce_r3(c(6) * ((N - c(1)) * e_a + c_a) - tot).n,
        'duct annulus tiling')
    req(zero(tot - R3 / c(2) * (F(i, 1) ** 2 - F(i, 0) ** 2)), fi.node,
        'duct total area = sqrt3/2 (F_out^2 - F_in^2)', 'duct total area')
    # ---- bypass annulus tiling
    try:
        e_b = g.element('bypass', ('area',), [i, c(0)], over_cf, 0)
        c_b = g.element('bypass', ('area',), [i, c(1)], over_cf, 0)
        tb = g.element('bypass', ('total area',), [i], over_cf, 0)
    except NotPolynomial as e:
        raise AnalysisError('calculate_geometry bypass areas: %s' % e)
    res = c(6) * ((N - c(1)) * e_b + c_b) - tb
    req(zero(res), fi.node,
        'bypass gap cells must tile their annulus: 6 ((n_ring-1) x edge + '
        'corner) = sqrt3/2 (F_in,next^2 - F_out^2); residual %r'
        % reduce_r3(res).n, 'bypass annulus tiling')
    req(zero(tb - R3 / c(2) * (F(i + c(1), 0) ** 2 - F(i, 1) ** 2)),
        fi.node, 'bypass total area = sqrt3/2 (F_in,next^2 - F_out^2)',
        'bypass total area')
    # ---- coolant cells + pins + wires tile the inner hexagon
    try:
        a = [g.element('sc_ww', ('area',), [c(k)], None, 0)
             for k in range(3)]
    except NotPolynomial as e:
        raise AnalysisError('calculate_geometry coolant areas: %s' % e)
    n_int, n_edge, n_cor = counts
    n_pin = c(3) * N * (N - c(1)) + c(1)
    solid = n_pin * (PI * D_ ** 2 / c(4) + PI * DW ** 2 / (c(4) * CT))
    res = n_int * a[0] + n_edge * a[1] + n_cor * a[2] + solid - \
        R3 / c(2) * F(c(0), 0) ** 2
    req(zero(res), fi.node,
        'coolant cells, pins and wires must tile the hexagon inside the '
        'inner duct for every ring count: n_int A_int + n_edge A_edge + '
        'n_corner A_corner + n_pin pi (D^2 + Dw^2/cos)/4 = sqrt3/2 F^2; '
        'residual %r' % reduce_r3(res).n, 'bundle tiling')
    # ---- bundle totals are the count-weighted sums
    return a


def check_ring_chain(ctx, rule):
    """Concentric duct / bypass rings are placed one after the other, each
    from the centroid of the previous one: the (previous thickness, current
    thickness) pairs handed to _get_ring_c2c must chain, with the thicknesses
    taken between consecutive flat-to-flat boundaries F[0,0] < F[0,1] <
    F[1,0] < F[1,1] < ... (symbolic duct index)."""
    fi = ctx.repo.func('subchannel', 'Subchannel._find_duct_bypass_xy')
    ftf = fi.params[-1]
    g = Geo(fi, ftf)
    loops = [n for n in fi.node.body if isinstance(n, ast.For)
             and isinstance(n.target, ast.Name)]
    if len(loops) != 1:
        raise AnalysisError('_find_duct_bypass_xy: ring loop')
    lp = loops[0]
    iv = lp.target.id
    i = Rat.sym('i')
    ok_range = call_name(lp.iter) == 'range' and len(lp.iter.args) == 2 and \
        const(lp.iter.args[0]) == 1 and src(lp.iter.args[1]) == \
        'len(%s)' % ftf
    ctx.require(ok_range, rule, fi, lp, 'one (bypass, duct) pair per outer '
                'duct: range(1, len(ftf))',
                key=fi.full + ' | ring loop range')
    calls = sorted([c for c in ast.walk(lp) if isinstance(c, ast.Call)
                    and (call_name(c) or '').endswith('_get_ring_c2c')],
                   key=lambda c: (c.lineno, c.col_offset))
    if len(calls) != 2 or any(len(c.args) != 2 for c in calls):
        raise AnalysisError('_find_duct_bypass_xy: expected two '
                            '_get_ring_c2c calls in the loop')
    try:
        (a1, b1), (a2, b2) = [[g.conv(x, {iv: i}) for x in c.args]
                              for c in calls]
        b2_prev = g.conv(calls[1].args[1], {iv: i - c(1)})
    except NotPolynomial as e:
        raise AnalysisError('_find_duct_bypass_xy: %s' % e)

    def req(ok, node, what, key):
        ctx.require(ok, rule, fi, node, what, key='%s | %s' % (fi.full, key))
    req(b1.equals(F(i, 0) - F(i - c(1), 1)), calls[0],
        'bypass gap i-1 lies between the outer face of duct i-1 and the '
        'inner face of duct i: thickness ftf[i][0] - ftf[i-1][1] (found %s)'
        % src(calls[0].args[1]), 'bypass thickness')
    req(b2.equals(F(i, 1) - F(i, 0)), calls[1],
        'duct i: thickness ftf[i][1] - ftf[i][0] (found %s)'
        % src(calls[1].args[1]), 'duct thickness')
    req(a2.equals(b1), calls[1],
        'the duct ring is placed from the bypass ring just placed: its '
        '"previous thickness" must be that bypass thickness (found %s)'
        % src(calls[1].args[0]), 'duct follows bypass')
    req(a1.equals(b2_prev), calls[0],
        'the bypass ring is placed from the duct ring placed last (duct '
        'i-1): its "previous thickness" must be ftf[i-1][1] - ftf[i-1][0] '
        '(found %s)' % src(calls[0].args[0]), 'bypass follows previous duct')
    # the ring placed before the loop is duct 0
    pre = [c_ for st in fi.node.body if st.lineno < lp.lineno
           for c_ in ast.walk(st) if isinstance(c_, ast.Call)
           and (call_name(c_) or '').endswith('_get_ring0_c2c')]
    req(len(pre) == 1 and any(src(a) == '%s[0]' % ftf for a in pre[0].args),
        pre[0] if pre else fi.node,
        'the first ring placed is duct 0 (ftf[0])', 'first ring')
