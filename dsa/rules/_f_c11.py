"""C11.R9 -- the wall heating of a duct cell is referred to that cell's own
heat-exchange face.

Clause.  The slab solution of `_calc_duct_temp` is per unit face area: the
heat generated in a wall cell per unit face area is q''' L = p / W, p the
linear power of the cell (W/m), L the wall thickness and W the width of the
face through which the cell exchanges heat with the two adjacent coolants.
"Flux in + heat generated in the wall = flux out" therefore needs, for
EVERY duct d and both cell types,

    duct_params['q_area'][d, type] == thickness[d] * W(d, type)
        W(d, edge)   = L[1][1]               (one edge pitch)
        W(d, corner) = 2 * d['wcorner'][d, 1] (the two halves of the outside
                                               face of duct d's own corner)

(the widths the coolant side uses: interior/bypass/gap convection constants,
decided by C01/C04), and the q''' handed to the formulas for duct d must be
built from row d of that table.

Technique.  `calculate_geometry` is evaluated by the checker's own abstract
interpreter over a finite index domain: the number of ducts is fixed to 1, 2,
3 in turn, loops over it are unrolled, NumPy arrays are modelled as arrays of
exact rational functions (views share their store, arithmetic is element-wise
with broadcasting, negative indices and slices are resolved against the
concrete shape), every other quantity is a symbol.  The table the function
returns is then compared element by element with thickness x width by exact
algebra.  Loop / vectorised / comprehension / helper / temporaries spellings
evaluate to the same table; nothing of /repo is imported or run.
"""
import ast
import copy
import itertools
from fractions import Fraction

from ..core import AnalysisError, src, walk_no_nested
from ..poly import Rat
from .. import util as U

PROPS = ('C11',)
RULE = 'C11.R9'
N_DUCTS = (1, 2, 3)


def _s(n):
    return ' '.join(src(n).split())


# ---------------------------------------------------------------------------
# values

class Poison:
    """A value the evaluator could not determine (with the reason)."""

    def __init__(self, why):
        self.why = why

    def __repr__(self):
        return 'Poison(%s)' % self.why


class Unsupported(Exception):
    pass


class _Ret(Exception):
    def __init__(self, value):
        self.value = value


class _Raised(Exception):
    pass


class _Break(Exception):
    pass


class _Continue(Exception):
    pass


class Arr:
    """ndarray model: a shared element store and the positions this array
    (or view) occupies in it, row-major."""

    def __init__(self, shape, store, pos):
        self.shape, self.store, self.pos = tuple(shape), store, list(pos)

    @staticmethod
    def fresh(shape, values):
        values = list(values)
        return Arr(shape, values, range(len(values)))

    def values(self):
        return [self.store[p] for p in self.pos]

    def copy(self):
        return Arr.fresh(self.shape, self.values())

    def _select(self, idx):
        if not isinstance(idx, tuple):
            idx = (idx,)
        if len(idx) > len(self.shape):
            raise Unsupported('too many indices')
        idx = idx + (slice(None),) * (len(self.shape) - len(idx))
        axes, shape = [], []
        for k, dim in zip(idx, self.shape):
            if isinstance(k, bool) or not isinstance(k, (int, slice)):
                raise Unsupported('index kind %r' % (k,))
            if isinstance(k, int):
                if not -dim <= k < dim:
                    raise Unsupported('index %d out of range %d' % (k, dim))
                axes.append([k % dim])
            else:
                r = list(range(*k.indices(dim)))
                axes.append(r)
                shape.append(len(r))
        strides, acc = [], 1
        for dim in reversed(self.shape):
            strides.insert(0, acc)
            acc *= dim
        pos = [self.pos[sum(i * s for i, s in zip(t, strides))]
               for t in itertools.product(*axes)]
        return tuple(shape), pos

    def get(self, idx):
        shape, pos = self._select(idx)
        if not shape:
            return self.store[pos[0]]
        return Arr(shape, self.store, pos)

    def set(self, idx, val):
        shape, pos = self._select(idx)
        tgt = Arr(shape, self.store, pos)
        val = _as_value(val)
        if isinstance(val, Arr):
            vals = _broadcast_to(val, shape)
        else:
            vals = [val] * len(pos)
        for p, v in zip(pos, vals):
            self.store[p] = v
        return tgt


def _as_value(v):
    """Python list / tuple of numbers -> Arr (NumPy converts on the fly)."""
    if isinstance(v, (list, tuple)):
        return _to_arr(v)
    return v


def _to_arr(v):
    if isinstance(v, Arr):
        return v.copy()
    if not isinstance(v, (list, tuple)):
        raise Unsupported('array of %s' % type(v).__name__)
    items = [(_to_arr(x) if isinstance(x, (list, tuple, Arr)) else x)
             for x in v]
    if items and all(isinstance(x, Arr) for x in items):
        sh = items[0].shape
        if any(x.shape != sh for x in items):
            raise Unsupported('ragged array')
        return Arr.fresh((len(items),) + sh,
                         [e for x in items for e in x.values()])
    if any(isinstance(x, Arr) for x in items):
        raise Unsupported('ragged array')
    return Arr.fresh((len(items),), items)


def _bshape(a, b):
    out = []
    for x, y in itertools.zip_longest(reversed(a), reversed(b), fillvalue=1):
        if x != y and 1 not in (x, y):
            raise Unsupported('shapes %r and %r do not broadcast' % (a, b))
        out.insert(0, max(x, y) if 0 not in (x, y) else 0)
    return tuple(out)


def _broadcast_to(arr, shape):
    if _bshape(arr.shape, shape) != tuple(shape):
        raise Unsupported('cannot broadcast %r into %r' % (arr.shape, shape))
    vals = arr.values()
    strides, acc = [], 1
    for dim in reversed(arr.shape):
        strides.insert(0, acc)
        acc *= dim
    off = len(shape) - len(arr.shape)
    out = []
    for t in itertools.product(*[range(k) for k in shape]):
        o = 0
        for ax, dim in enumerate(arr.shape):
            o += (t[off + ax] if dim != 1 else 0) * strides[ax]
        out.append(vals[o])
    return out


class SymArr:
    """Array-valued input: elements are symbols named by their index."""

    def __init__(self, name, shape=None, idx=()):
        self.name, self.shape, self.idx = name, shape, tuple(idx)

    def length(self):
        if self.shape is None or len(self.idx) >= len(self.shape):
            raise Unsupported('length of %s' % self.name)
        return self.shape[len(self.idx)]

    def index(self, k):
        if isinstance(k, tuple):
            v = self
            for x in k:
                v = v.index(x)
                if not isinstance(v, SymArr) and x is not k[-1]:
                    raise Unsupported('too many indices for %s' % self.name)
            return v
        if isinstance(k, bool) or not isinstance(k, int):
            raise Unsupported('index of input %s' % self.name)
        if self.shape is not None:
            if len(self.idx) >= len(self.shape):
                raise Unsupported('too many indices for %s' % self.name)
            dim = self.shape[len(self.idx)]
            if not -dim <= k < dim:
                raise Unsupported('index %d of %s out of range' % (
                    k, self.name))
            k %= dim
            idx = self.idx + (k,)
            if len(idx) == len(self.shape):
                return Rat.sym('%s[%s]' % (self.name, ','.join(
                    str(x) for x in idx)))
            return SymArr(self.name, self.shape, idx)
        return SymArr(self.name, None, self.idx + (k,))

    def scalar(self):
        if self.shape is not None:
            raise Unsupported('input array %s used as a number' % self.name)
        return Rat.sym('%s[%s]' % (self.name, ','.join(
            str(x) for x in self.idx))) if self.idx else Rat.sym(self.name)

    def items(self):
        return [self.index(i) for i in range(self.length())]


def _num(v):
    """int / Rat / symbolic scalar -> Rat, or None."""
    if isinstance(v, bool):
        return None
    if isinstance(v, int):
        return Rat.const(v)
    if isinstance(v, Rat):
        return v
    if isinstance(v, SymArr) and v.shape is None:
        return v.scalar()
    return None


def _is_const(r):
    return not (r.n.symbols() | r.d.symbols())


def _const_val(v):
    """Concrete number of a value, or None."""
    if isinstance(v, bool):
        return v
    if isinstance(v, int):
        return v
    if isinstance(v, Rat) and _is_const(v):
        return Fraction(v.n.t.get((), 0)) / Fraction(v.d.t.get((), 0))
    return None


def _scalar_op(op, a, b):
    for x in (a, b):
        if isinstance(x, Poison):
            return x
    if isinstance(a, int) and isinstance(b, int) and not isinstance(
            a, bool) and not isinstance(b, bool):
        if isinstance(op, ast.Add):
            return a + b
        if isinstance(op, ast.Sub):
            return a - b
        if isinstance(op, ast.Mult):
            return a * b
        if isinstance(op, ast.FloorDiv) and b != 0:
            return a // b
        if isinstance(op, ast.Mod) and b != 0:
            return a % b
        if isinstance(op, ast.Pow) and b >= 0:
            return a ** b
    x, y = _num(a), _num(b)
    if x is None or y is None:
        return Poison('arithmetic on %s and %s' % (type(a).__name__,
                                                   type(b).__name__))
    if isinstance(op, ast.Add):
        return x + y
    if isinstance(op, ast.Sub):
        return x - y
    if isinstance(op, ast.Mult):
        return x * y
    if isinstance(op, ast.Div):
        if y.n.is_zero():
            return Poison('division by zero')
        return x / y
    if isinstance(op, ast.Pow):
        e = _const_val(b)
        if isinstance(e, Fraction) and e.denominator == 1:
            e = int(e)
        if isinstance(e, int) and not isinstance(e, bool) and abs(e) <= 8:
            if e < 0 and x.n.is_zero():
                return Poison('division by zero')
            return x ** e
        return Poison('non-integer power')
    return Poison('operator %s' % type(op).__name__)


def _binop(op, a, b):
    if isinstance(a, Poison):
        return a
    if isinstance(b, Poison):
        return b
    if isinstance(a, SymArr) and a.shape is not None:
        a = _symarr_to_arr(a)
    if isinstance(b, SymArr) and b.shape is not None:
        b = _symarr_to_arr(b)
    if isinstance(a, (list, tuple)) and isinstance(b, (list, tuple)) and \
            isinstance(op, ast.Add) and type(a) is type(b):
        return a + b
    if isinstance(op, ast.Mult):
        for x, y in ((a, b), (b, a)):
            if isinstance(x, list) and isinstance(y, int) and \
                    not isinstance(y, bool):
                return x * y
    if isinstance(a, Arr) or isinstance(b, Arr):
        try:
            if isinstance(a, (list, tuple)):
                a = _to_arr(a)
            if isinstance(b, (list, tuple)):
                b = _to_arr(b)
            sa = a.shape if isinstance(a, Arr) else ()
            sb = b.shape if isinstance(b, Arr) else ()
            shape = _bshape(sa, sb)
            va = _broadcast_to(a, shape) if isinstance(a, Arr) else None
            vb = _broadcast_to(b, shape) if isinstance(b, Arr) else None
        except Unsupported as e:
            return Poison(str(e))
        n = len(va if va is not None else vb)
        return Arr.fresh(shape, [_scalar_op(
            op, va[k] if va is not None else a,
            vb[k] if vb is not None else b) for k in range(n)])
    return _scalar_op(op, a, b)


def _symarr_to_arr(s):
    rest = s.shape[len(s.idx):]
    vals = []
    for t in itertools.product(*[range(k) for k in rest]):
        v = s
        for k in t:
            v = v.index(k)
        vals.append(v)
    return Arr.fresh(rest, vals)


def _poison_inplace(v, why, seen=None):
    seen = seen if seen is not None else set()
    if id(v) in seen:
        return
    seen.add(id(v))
    if isinstance(v, Arr):
        for p in v.pos:
            v.store[p] = Poison(why)
    elif isinstance(v, list):
        for k, e in enumerate(v):
            if isinstance(e, (Arr, list, dict)):
                _poison_inplace(e, why, seen)
            else:
                v[k] = Poison(why)
    elif isinstance(v, dict):
        for k, e in list(v.items()):
            if isinstance(e, (Arr, list, dict)):
                _poison_inplace(e, why, seen)
            else:
                v[k] = Poison(why)


def _same(a, b):
    if isinstance(a, Rat) and isinstance(b, Rat):
        return a.equals(b)
    if isinstance(a, (Rat, Poison)) or isinstance(b, (Rat, Poison)):
        x, y = _num(a), _num(b)
        return x is not None and y is not None and x.equals(y)
    if isinstance(a, SymArr) and isinstance(b, SymArr):
        return (a.name, a.shape, a.idx) == (b.name, b.shape, b.idx)
    if isinstance(a, _Func) and isinstance(b, _Func):
        return a.node is b.node
    return type(a) is type(b) and not isinstance(
        a, (Arr, list, dict, SymArr, _Func)) and a == b


def _merge(a, b, memo):
    """Join of the values of two branches; written into `a`'s structure."""
    key = (id(a), id(b))
    if key in memo:
        return a
    if isinstance(a, Arr) and isinstance(b, Arr):
        memo.add(key)
        if a.shape != b.shape:
            return Poison('shape depends on an undecided branch')
        for pa, pb in zip(a.pos, b.pos):
            a.store[pa] = _merge(a.store[pa], b.store[pb], memo)
        return a
    if isinstance(a, list) and isinstance(b, list):
        memo.add(key)
        if len(a) != len(b):
            return Poison('length depends on an undecided branch')
        for k in range(len(a)):
            a[k] = _merge(a[k], b[k], memo)
        return a
    if isinstance(a, dict) and isinstance(b, dict):
        memo.add(key)
        for k in set(a) | set(b):
            if k in a and k in b:
                a[k] = _merge(a[k], b[k], memo)
            else:
                a[k] = Poison('bound on one branch only')
        return a
    if isinstance(a, tuple) and isinstance(b, tuple) and len(a) == len(b):
        return tuple(_merge(x, y, memo) for x, y in zip(a, b))
    if _same(a, b):
        return a
    return Poison('value depends on an undecided branch')


class _Func:
    def __init__(self, node):
        self.node = node


def _clone(v, memo):
    """Copy of the mutable part of a value graph (containers and element
    stores; sharing between views / aliases is kept, scalars are immutable
    and shared)."""
    if id(v) in memo:
        return memo[id(v)]
    if isinstance(v, Arr):
        st = memo.get(id(v.store))
        if st is None:
            st = memo[id(v.store)] = list(v.store)
            memo[('keep', id(v.store))] = v.store
            for k, e in enumerate(st):
                if isinstance(e, (Arr, list, dict, tuple)):
                    st[k] = _clone(e, memo)
        out = memo[id(v)] = Arr(v.shape, st, v.pos)
        return out
    if isinstance(v, list):
        out = memo[id(v)] = []
        out.extend(_clone(e, memo) for e in v)
        return out
    if isinstance(v, dict):
        out = memo[id(v)] = {}
        for k, e in v.items():
            out[k] = _clone(e, memo)
        return out
    if isinstance(v, tuple):
        return tuple(_clone(e, memo) for e in v)
    return v


_PURE_UFUNCS = ('np.sqrt', 'np.cos', 'np.sin', 'np.tan', 'np.arccos',
                'np.arcsin', 'np.arctan', 'np.exp', 'np.log', 'math.sqrt',
                'math.cos', 'math.sin', 'math.acos', 'np.abs', 'abs',
                'np.radians', 'np.deg2rad')


class Interp:
    """Forward evaluation of one function body over exact rational
    functions with concrete integers for the index domain."""

    def __init__(self, module_funcs=None, fuel=200000):
        self.module_funcs = module_funcs or {}
        self.serial = 0
        self.fuel = fuel
        self.depth = 0

    def opaque(self, text):
        self.serial += 1
        return Rat.sym('<%s#%d>' % (text[:60], self.serial))

    # -- expressions --------------------------------------------------------
    def ev(self, n, env):
        self.fuel -= 1
        if self.fuel < 0:
            raise Unsupported('evaluation budget exhausted')
        if isinstance(n, ast.Constant):
            v = n.value
            if isinstance(v, float):
                return Rat.const(Fraction(str(v)))
            return v
        if isinstance(n, ast.Name):
            if n.id in env:
                return env[n.id]
            if n.id in self.module_funcs:
                return _Func(self.module_funcs[n.id])
            return Rat.sym(n.id)        # module-level constant
        if isinstance(n, ast.Attribute):
            t = _s(n)
            if t in env:
                return env[t]
            if t in ('np.pi', 'math.pi', 'numpy.pi'):
                return Rat.sym('pi')
            base = self.ev(n.value, env)
            if isinstance(base, Poison):
                return base
            if isinstance(base, Arr):
                if n.attr == 'shape':
                    return tuple(base.shape)
                if n.attr == 'size':
                    return len(base.pos)
                if n.attr == 'T' and len(base.shape) == 2:
                    return self._transpose(base)
                if n.attr == 'T' and len(base.shape) == 1:
                    return base
            return Poison('attribute %s' % t)
        if isinstance(n, ast.Subscript):
            base = self.ev(n.value, env)
            if isinstance(base, Poison):
                return base
            try:
                idx = self.index(n.slice, env)
                return self.getitem(base, idx)
            except Unsupported as e:
                return Poison('%s: %s' % (_s(n)[:50], e))
        if isinstance(n, ast.BinOp):
            return _binop(n.op, self.ev(n.left, env), self.ev(n.right, env))
        if isinstance(n, ast.UnaryOp):
            v = self.ev(n.operand, env)
            if isinstance(n.op, ast.USub):
                return _binop(ast.Sub(), 0, v)
            if isinstance(n.op, ast.UAdd):
                return v
            if isinstance(n.op, ast.Not):
                t = self.truth(v)
                return Poison('undecided') if t is None else (not t)
            return Poison('operator')
        if isinstance(n, ast.Compare):
            left = self.ev(n.left, env)
            for op, c in zip(n.ops, n.comparators):
                right = self.ev(c, env)
                r = self.compare(op, left, right)
                if r is None:
                    return Poison('undecided comparison %s' % _s(n)[:50])
                if not r:
                    return False
                left = right
            return True
        if isinstance(n, ast.BoolOp):
            unknown = False
            for v in n.values:
                t = self.truth(self.ev(v, env))
                if t is None:
                    unknown = True
                elif isinstance(n.op, ast.And) and not t:
                    return False
                elif isinstance(n.op, ast.Or) and t:
                    return True
            if unknown:
                return Poison('undecided test %s' % _s(n)[:50])
            return isinstance(n.op, ast.And)
        if isinstance(n, ast.IfExp):
            t = self.truth(self.ev(n.test, env))
            if t is None:
                a, b = self.ev(n.body, env), self.ev(n.orelse, env)
                return a if _same(a, b) else Poison(
                    'value depends on the undecided test %s' % _s(n.test))
            return self.ev(n.body if t else n.orelse, env)
        if isinstance(n, (ast.List, ast.Tuple)):
            v = [self.ev(e, env) for e in n.elts]
            return v if isinstance(n, ast.List) else tuple(v)
        if isinstance(n, ast.Dict):
            if any(k is None for k in n.keys):
                return Poison('dict unpacking')
            out = {}
            for k, v in zip(n.keys, n.values):
                kk = self.ev(k, env)
                if not isinstance(kk, (str, int, tuple)):
                    return Poison('dict key')
                out[kk] = self.ev(v, env)
            return out
        if isinstance(n, (ast.ListComp, ast.GeneratorExp)):
            try:
                return self.comp(n, env)
            except Unsupported as e:
                return Poison('%s: %s' % (_s(n)[:50], e))
        if isinstance(n, ast.Call):
            try:
                return self.call(n, env)
            except Unsupported as e:
                return Poison('%s: %s' % (_s(n)[:50], e))
        return Poison('expression %s' % _s(n)[:50])

    @staticmethod
    def _transpose(a):
        r, c = a.shape
        return Arr((c, r), a.store, [a.pos[i * c + j] for j in range(c)
                                     for i in range(r)])

    def index(self, sl, env):
        if isinstance(sl, ast.Tuple):
            return tuple(self.index(e, env) for e in sl.elts)
        if isinstance(sl, ast.Slice):
            parts = []
            for x in (sl.lower, sl.upper, sl.step):
                v = None if x is None else self.ev(x, env)
                if v is not None and (isinstance(v, bool) or
                                      not isinstance(v, int)):
                    raise Unsupported('slice bound %s' % _s(x))
                parts.append(v)
            return slice(*parts)
        v = self.ev(sl, env)
        if isinstance(v, Poison):
            raise Unsupported(v.why)
        return v

    def getitem(self, base, idx):
        if isinstance(base, dict):
            if not isinstance(idx, (str, int, tuple)) or idx not in base:
                raise Unsupported('key %r' % (idx,))
            return base[idx]
        if isinstance(base, (list, tuple)):
            if isinstance(idx, bool) or not isinstance(idx, (int, slice)):
                raise Unsupported('list index %r' % (idx,))
            try:
                return base[idx]
            except IndexError:
                raise Unsupported('list index %r out of range' % (idx,))
        if isinstance(base, Arr):
            return base.get(idx)
        if isinstance(base, SymArr):
            return base.index(idx)
        raise Unsupported('subscript of %s' % type(base).__name__)

    def truth(self, v):
        if isinstance(v, Poison):
            return None
        c = _const_val(v)
        if c is not None:
            return bool(c)
        if v is None:
            return False
        if isinstance(v, (str, list, tuple, dict)):
            return bool(v)
        return None

    def compare(self, op, a, b):
        if isinstance(op, (ast.Is, ast.IsNot)):
            if a is None or b is None:
                r = a is None and b is None
                if not r and (isinstance(a, Poison) or isinstance(b, Poison)):
                    return None
                return r if isinstance(op, ast.Is) else not r
            return None
        x, y = _const_val(a), _const_val(b)
        if x is None or y is None:
            if isinstance(a, str) and isinstance(b, str):
                x, y = a, b
            else:
                return None
        if isinstance(op, ast.Eq):
            return x == y
        if isinstance(op, ast.NotEq):
            return x != y
        if isinstance(x, str):
            return None
        if isinstance(op, ast.Lt):
            return x < y
        if isinstance(op, ast.LtE):
            return x <= y
        if isinstance(op, ast.Gt):
            return x > y
        if isinstance(op, ast.GtE):
            return x >= y
        return None

    def iterate(self, v):
        if isinstance(v, (list, tuple)):
            return list(v)
        if isinstance(v, dict):
            return list(v.keys())
        if isinstance(v, Arr):
            if not v.shape:
                raise Unsupported('iteration over a 0-d array')
            return [v.get(i) for i in range(v.shape[0])]
        if isinstance(v, SymArr):
            return v.items()
        raise Unsupported('iteration over %s' % (
            v.why if isinstance(v, Poison) else type(v).__name__))

    def comp(self, n, env):
        out = []

        def rec(k, e):
            if k == len(n.generators):
                out.append(self.ev(n.elt, e))
                return
            g = n.generators[k]
            for v in self.iterate(self.ev(g.iter, e)):
                e2 = dict(e)
                self.bind(g.target, v, e2)
                keep = True
                for c in g.ifs:
                    t = self.truth(self.ev(c, e2))
                    if t is None:
                        raise Unsupported('undecided filter')
                    keep = keep and t
                if keep:
                    rec(k + 1, e2)
        rec(0, env)
        return out

    # -- calls --------------------------------------------------------------
    def shape_arg(self, v):
        if isinstance(v, int) and not isinstance(v, bool):
            return (v,)
        if isinstance(v, (tuple, list)) and all(
                isinstance(x, int) and not isinstance(x, bool) for x in v):
            return tuple(v)
        raise Unsupported('array shape %r' % (v,))

    def call(self, n, env):
        fname = _s(n.func)
        args = [self.ev(a, env) for a in n.args]
        kws = {k.arg: self.ev(k.value, env) for k in n.keywords}
        if any(k is None for k in kws):
            raise Unsupported('**kwargs')
        short = fname.split('.')[-1] if fname.startswith(('np.', 'numpy.')) \
            else None
        fill = {'zeros': 0, 'ones': 1}
        if short in ('zeros', 'ones', 'empty', 'full', 'zeros_like',
                     'ones_like', 'array', 'asarray') and 'dtype' in kws:
            dt = [_s(k.value) for k in n.keywords if k.arg == 'dtype'][0]
            if dt not in ('float', "'float'", 'np.float64', 'numpy.float64',
                          "'float64'"):
                raise Unsupported('array of dtype %s' % dt)
            del kws['dtype']
        if short in fill or short == 'empty':
            shp = self.shape_arg(args[0] if args else kws.get('shape'))
            size = 1
            for k in shp:
                size *= k
            return Arr.fresh(shp, [
                fill[short] if short in fill else Poison('np.empty element')
                for _ in range(size)])
        if short == 'full' and len(args) >= 2:
            shp = self.shape_arg(args[0])
            size = 1
            for k in shp:
                size *= k
            return Arr.fresh(shp, [args[1]] * size)
        if short in ('zeros_like', 'ones_like') and args and isinstance(
                args[0], Arr):
            return Arr.fresh(args[0].shape, [fill[short[:-5]]] * len(
                args[0].pos))
        if short in ('array', 'copy') or fname in ('copy.deepcopy',
                                                   'deepcopy'):
            if len(args) != 1:
                raise Unsupported('arguments')
            a = args[0]
            if isinstance(a, SymArr) and a.shape is not None:
                return _symarr_to_arr(a)
            if isinstance(a, (Arr, list, tuple)) and (short or isinstance(
                    a, Arr)):
                return _to_arr(a)
            if isinstance(a, (list, dict)):
                return copy.deepcopy(a)
            if _num(a) is not None:
                return a
            raise Unsupported('copy of %s' % type(a).__name__)
        if short == 'asarray' and len(args) == 1:
            return args[0] if isinstance(args[0], Arr) else _to_arr(args[0])
        if short in ('column_stack', 'stack', 'vstack') and len(args) == 1:
            rows = [x if isinstance(x, Arr) else _to_arr(x)
                    for x in self.iterate(args[0])]
            if not rows or any(len(r.shape) != 1 or r.shape != rows[0].shape
                               for r in rows):
                raise Unsupported('stack of non-vectors')
            a = Arr.fresh((len(rows), rows[0].shape[0]),
                          [e for r in rows for e in r.values()])
            ax = _const_val(kws.get('axis', 0))
            if short == 'column_stack' or (short == 'stack' and ax in (1,
                                                                      -1)):
                return self._transpose(a).copy()
            if short == 'stack' and ax != 0:
                raise Unsupported('stack axis')
            return a
        if short == 'transpose' and len(args) == 1 and isinstance(
                args[0], Arr) and len(args[0].shape) == 2:
            return self._transpose(args[0])
        if (short == 'sum' or fname == 'sum') and len(args) == 1 and \
                not kws:
            a = args[0]
            vals = a.values() if isinstance(a, Arr) else self.iterate(a)
            tot = 0
            for v in vals:
                tot = _binop(ast.Add(), tot, v)
            return tot
        if fname == 'len' and len(args) == 1:
            a = args[0]
            if isinstance(a, (list, tuple, dict)):
                return len(a)
            if isinstance(a, Arr) and a.shape:
                return a.shape[0]
            if isinstance(a, SymArr):
                return a.length()
            raise Unsupported('len of %s' % type(a).__name__)
        if fname == 'range':
            if not args or any(isinstance(a, bool) or not isinstance(a, int)
                               for a in args):
                raise Unsupported('range bounds')
            return list(range(*args))
        if fname == 'enumerate' and args:
            start = args[1] if len(args) > 1 else kws.get('start', 0)
            if not isinstance(start, int):
                raise Unsupported('enumerate start')
            return [(i + start, v) for i, v in enumerate(
                self.iterate(args[0]))]
        if fname == 'zip':
            return [tuple(t) for t in zip(*[self.iterate(a) for a in args])]
        if fname == 'reversed' and len(args) == 1:
            return list(reversed(self.iterate(args[0])))
        if fname in ('list', 'tuple') and len(args) <= 1:
            v = self.iterate(args[0]) if args else []
            return v if fname == 'list' else tuple(v)
        if fname == 'dict' and not args:
            return dict(kws)
        if fname in ('float', 'np.float64') and len(args) == 1 and \
                _num(args[0]) is not None:
            return args[0]
        if fname == 'int' and len(args) == 1 and isinstance(args[0], int):
            return args[0]
        if fname in _PURE_UFUNCS and len(args) == 1 and not kws:
            x = _num(args[0])
            if x is None:
                return Poison('%s of %s' % (fname, type(args[0]).__name__))
            return Rat.sym('%s(%r)' % (fname.split('.')[-1], x))
        # methods
        if isinstance(n.func, ast.Attribute):
            recv = self.ev(n.func.value, env)
            m = n.func.attr
            if isinstance(recv, Poison):
                return recv
            if isinstance(recv, Arr):
                if m == 'copy' and not args:
                    return recv.copy()
                if m == 'sum' and not args and not kws:
                    tot = 0
                    for v in recv.values():
                        tot = _binop(ast.Add(), tot, v)
                    return tot
                if m == 'fill' and len(args) == 1:
                    recv.set((), args[0])
                    return None
                if m == 'transpose' and not args and len(recv.shape) == 2:
                    return self._transpose(recv)
            if isinstance(recv, list):
                if m == 'append' and len(args) == 1:
                    recv.append(args[0])
                    return None
                if m == 'extend' and len(args) == 1:
                    recv.extend(self.iterate(args[0]))
                    return None
                if m == 'copy' and not args:
                    return list(recv)
            if isinstance(recv, dict):
                if m == 'copy' and not args:
                    return dict(recv)
                if m in ('keys', 'values', 'items') and not args:
                    return list(getattr(recv, m)())
                if m == 'get' and args and isinstance(args[0], (str, int)):
                    return recv.get(args[0], args[1] if len(args) > 1
                                    else None)
                if m == 'update' and len(args) == 1 and isinstance(
                        args[0], dict):
                    recv.update(args[0])
                    return None
            if isinstance(recv, (Arr, list, dict)):
                # unknown method of a container we track: it may change it
                _poison_inplace(recv, 'changed by %s' % _s(n)[:40])
        f = self.ev(n.func, env) if isinstance(n.func, ast.Name) else None
        if isinstance(f, _Func):
            return self.call_user(f.node, args, kws)
        for a in list(args) + list(kws.values()):
            if isinstance(a, (Arr, list, dict)):
                _poison_inplace(a, 'handed to %s' % fname[:40])
            if isinstance(a, Poison):
                return a
        return self.opaque(_s(n))

    def call_user(self, fnode, args, kws):
        a = fnode.args
        if a.vararg or a.kwarg or a.kwonlyargs or a.posonlyargs:
            raise Unsupported('signature of %s' % fnode.name)
        self.depth += 1
        if self.depth > 4:
            raise Unsupported('call depth')
        try:
            names = [x.arg for x in a.args]
            env = {}
            defaults = a.defaults
            for k, d in zip(names[len(names) - len(defaults):], defaults):
                env[k] = self.ev(d, {})
            if len(args) > len(names):
                raise Unsupported('arguments of %s' % fnode.name)
            for k, v in zip(names, args):
                env[k] = v
            for k, v in kws.items():
                if k not in names:
                    raise Unsupported('keyword %s' % k)
                env[k] = v
            if any(k not in env for k in names):
                raise Unsupported('missing argument of %s' % fnode.name)
            try:
                self.block(fnode.body, env)
            except _Ret as r:
                return r.value
            return None
        finally:
            self.depth -= 1

    # -- statements ---------------------------------------------------------
    def bind(self, t, v, env):
        if isinstance(t, ast.Name):
            env[t.id] = v
        elif isinstance(t, (ast.Tuple, ast.List)):
            if isinstance(v, Poison):
                for e in t.elts:
                    self.bind(e, v, env)
                return
            try:
                items = self.iterate(v)
            except Unsupported as e:
                items = None
            if items is None or len(items) != len(t.elts) or any(
                    isinstance(e, ast.Starred) for e in t.elts):
                for e in t.elts:
                    self.bind(e, Poison('unpacking'), env)
                return
            for e, x in zip(t.elts, items):
                self.bind(e, x, env)
        elif isinstance(t, ast.Subscript):
            base = self.ev(t.value, env)
            if isinstance(base, Poison):
                return
            try:
                idx = self.index(t.slice, env)
                if isinstance(base, dict):
                    if not isinstance(idx, (str, int, tuple)):
                        raise Unsupported('dict key')
                    base[idx] = v
                elif isinstance(base, list):
                    if isinstance(idx, bool) or not isinstance(idx, int) or \
                            not -len(base) <= idx < len(base):
                        raise Unsupported('list store index %r' % (idx,))
                    base[idx] = v
                elif isinstance(base, Arr):
                    base.set(idx, v)
                else:
                    raise Unsupported('store into %s' % type(base).__name__)
            except Unsupported as e:
                if isinstance(base, (Arr, list, dict)):
                    _poison_inplace(base, 'store %s: %s' % (_s(t)[:40], e))
                else:
                    raise
        elif isinstance(t, ast.Attribute):
            env[_s(t)] = v
        else:
            raise Unsupported('assignment target %s' % _s(t)[:40])

    def poison_targets(self, stmts, env, why):
        for st in stmts:
            for x in ast.walk(st):
                if isinstance(x, ast.Name) and isinstance(x.ctx, ast.Store):
                    env[x.id] = Poison(why)
                elif isinstance(x, (ast.Subscript, ast.Attribute)) and \
                        isinstance(x.ctx, ast.Store):
                    r = x
                    while isinstance(r, (ast.Subscript, ast.Attribute)):
                        r = r.value
                    if isinstance(r, ast.Name) and r.id in env:
                        if isinstance(env[r.id], (Arr, list, dict)):
                            _poison_inplace(env[r.id], why)
                        else:
                            env[r.id] = Poison(why)
                elif isinstance(x, ast.Call):
                    for a in list(x.args) + ([x.func.value] if isinstance(
                            x.func, ast.Attribute) else []):
                        if isinstance(a, ast.Name) and isinstance(
                                env.get(a.id), (Arr, list, dict)):
                            _poison_inplace(env[a.id], why)

    def block(self, stmts, env):
        for st in stmts:
            self.stmt(st, env)

    def stmt(self, st, env):
        self.fuel -= 1
        if self.fuel < 0:
            raise Unsupported('evaluation budget exhausted')
        if isinstance(st, ast.Assign):
            v = self.ev(st.value, env)
            for t in st.targets:
                self.bind(t, v, env)
        elif isinstance(st, ast.AnnAssign):
            if st.value is not None:
                self.bind(st.target, self.ev(st.value, env), env)
        elif isinstance(st, ast.AugAssign):
            v = self.ev(st.value, env)
            t = st.target
            if isinstance(t, ast.Name):
                cur = env.get(t.id, Poison('unbound %s' % t.id))
                if isinstance(cur, Arr):
                    new = _binop(st.op, cur, v)
                    try:
                        cur.set((), new)        # in place, like NumPy
                    except Unsupported as e:
                        _poison_inplace(cur, str(e))
                elif isinstance(cur, list) and isinstance(st.op, ast.Add):
                    try:
                        cur.extend(self.iterate(v))
                    except Unsupported as e:
                        env[t.id] = Poison(str(e))
                else:
                    env[t.id] = _binop(st.op, cur, v)
            else:
                load = ast.parse(ast.unparse(t), mode='eval').body
                self.bind(t, _binop(st.op, self.ev(load, env), v), env)
        elif isinstance(st, ast.Expr):
            if not isinstance(st.value, ast.Constant):
                self.ev(st.value, env)
        elif isinstance(st, ast.If):
            t = self.truth(self.ev(st.test, env))
            if t is not None:
                self.block(st.body if t else st.orelse, env)
            else:
                self.both(st, env)
        elif isinstance(st, ast.For):
            try:
                items = self.iterate(self.ev(st.iter, env))
            except Unsupported as e:
                self.poison_targets([st], env, 'loop over %s: %s' % (
                    _s(st.iter)[:40], e))
                return
            broke = False
            for v in items:
                self.bind(st.target, v, env)
                try:
                    self.block(st.body, env)
                except _Continue:
                    continue
                except _Break:
                    broke = True
                    break
            if not broke:
                self.block(st.orelse, env)
        elif isinstance(st, ast.While):
            broke = False
            for _ in range(65):
                t = self.truth(self.ev(st.test, env))
                if t is None or _ == 64:
                    self.poison_targets([st], env, 'while %s: test not '
                                        'decided by the index domain'
                                        % _s(st.test)[:40])
                    return
                if not t:
                    break
                try:
                    self.block(st.body, env)
                except _Continue:
                    continue
                except _Break:
                    broke = True
                    break
            if not broke:
                self.block(st.orelse, env)
        elif isinstance(st, ast.Return):
            raise _Ret(None if st.value is None else self.ev(st.value, env))
        elif isinstance(st, ast.Raise):
            raise _Raised()
        elif isinstance(st, ast.Break):
            raise _Break()
        elif isinstance(st, ast.Continue):
            raise _Continue()
        elif isinstance(st, (ast.Pass, ast.Assert, ast.Import,
                             ast.ImportFrom, ast.Global, ast.Nonlocal)):
            pass
        elif isinstance(st, ast.FunctionDef):
            env[st.name] = _Func(st)
        elif isinstance(st, ast.Delete):
            self.poison_targets([st], env, 'deleted')
            for t in st.targets:
                if isinstance(t, ast.Subscript):
                    base = self.ev(t.value, env)
                    try:
                        k = self.index(t.slice, env)
                        if isinstance(base, dict) and k in base:
                            del base[k]
                    except Unsupported:
                        pass
        else:
            self.poison_targets([st], env, 'statement %s not modelled'
                                % type(st).__name__)

    def both(self, st, env):
        """An `if` whose test is not decided by the index domain: both
        branches are evaluated on copies and joined."""
        memo = {}
        e2 = {k: _clone(v, memo) for k, v in env.items()}
        dead = []
        for e, body in ((env, st.body), (e2, st.orelse)):
            try:
                self.block(body, e)
                dead.append(False)
            except _Raised:
                dead.append(True)
            except (_Ret, _Break, _Continue):
                raise Unsupported('jump under the undecided test `%s`'
                                  % _s(st.test)[:50])
        if all(dead):
            raise _Raised()
        if dead[0]:
            env.clear()
            env.update(e2)
            return
        if dead[1]:
            return
        memo = set()
        for k in set(env) | set(e2):
            if k in env and k in e2:
                env[k] = _merge(env[k], e2[k], memo)
            else:
                env[k] = Poison('bound on one branch only')


def evaluate_geometry(repo, n_duct):
    """The dictionary `calculate_geometry` returns for a bundle with
    `n_duct` ducts (values: exact rational functions of the inputs)."""
    fi = repo.func('region_rodded', 'calculate_geometry')
    if len(fi.params) < 7:
        raise AnalysisError('calculate_geometry: signature changed')
    mod = repo.mod('region_rodded')
    funcs = {q: f.node for q, f in mod.funcs.items()
             if '.' not in q and f.node is not fi.node}
    it = Interp(funcs)
    env = {}
    for k, p in enumerate(fi.params):
        if k == 5:                      # flat-to-flat pairs, one per duct
            env[p] = SymArr('ftf', (n_duct, 2))
        elif k == 6:                    # coolant cell counts by type
            env[p] = SymArr('n_sc', (3,))
        else:
            env[p] = Rat.sym(p)
    try:
        try:
            it.block(fi.node.body, env)
        except _Ret as r:
            return fi, r.value
    except Unsupported as e:
        raise AnalysisError('calculate_geometry is not evaluable for %d '
                            'duct(s): %s' % (n_duct, e))
    except _Raised:
        raise AnalysisError('calculate_geometry raises for %d duct(s)'
                            % n_duct)
    raise AnalysisError('calculate_geometry: no return reached')


def _lookup(res, path, what):
    v = res
    for k in path:
        try:
            if isinstance(v, dict):
                v = v[k]
            elif isinstance(v, list):
                v = v[k]
            elif isinstance(v, Arr):
                v = v.get(k)
            else:
                raise KeyError(k)
        except (KeyError, IndexError, Unsupported):
            raise AnalysisError('calculate_geometry: %s is not in the '
                                'returned parameters (at %r)' % (what, k))
    return v


def _scalar(v, what):
    r = _num(v)
    if r is None:
        raise AnalysisError('calculate_geometry: %s is not evaluable (%s)'
                            % (what, v.why if isinstance(v, Poison)
                               else type(v).__name__))
    return r


def run(ctx):
    ctx.decided.append(
        'R9 (finite index domain n_duct = 1..3 x exact algebra; '
        'calculate_geometry evaluated by the checker\'s own array '
        'interpreter) the cross-section that turns the linear wall power of '
        'a duct cell into q\'\'\' is, for every duct d, thickness[d] x the '
        'width of that cell\'s own heat-exchange face -- one edge pitch '
        'L[1][1] for edge cells, 2 x wcorner[d, 1] (outside face of duct '
        'd\'s own corner) for corner cells -- and _calc_duct_temp builds the '
        'q\'\'\' of duct i from row i')
    repo = ctx.repo
    bad = {}          # cell type -> [(n, d, description)]
    good = {}
    fi = None
    for n in N_DUCTS:
        fi, res = evaluate_geometry(repo, n)
        if not isinstance(res, dict):
            raise AnalysisError('calculate_geometry: returned value is not '
                                'a dictionary display the evaluator follows')
        qa = _lookup(res, ('duct_params', 'q_area'), "duct_params['q_area']")
        th = _lookup(res, ('duct_params', 'thickness'),
                     "duct_params['thickness']")
        wc = _lookup(res, ('d', 'wcorner'), "d['wcorner']")
        edge = _scalar(_lookup(res, ('L', 1, 1), 'L[1][1]'), 'L[1][1]')
        for a, nm, shp in ((qa, 'q_area', (n, 2)), (th, 'thickness', (n,)),
                           (wc, 'wcorner', (n, 2))):
            if not isinstance(a, Arr) or a.shape != shp:
                raise AnalysisError(
                    'calculate_geometry: %s has shape %s for %d duct(s), '
                    'expected %r' % (nm, getattr(a, 'shape', type(
                        a).__name__), n, shp))
        for d in range(n):
            t_d = _scalar(th.get((d,)), 'thickness[%d]' % d)
            if t_d.n.is_zero():
                raise AnalysisError('calculate_geometry: thickness[%d] '
                                    'evaluates to 0' % d)
            widths = {'edge pitch L[1][1]': edge}
            for r in range(n):
                w0 = _scalar(wc.get((r, 0)), 'wcorner[%d,0]' % r)
                w1 = _scalar(wc.get((r, 1)), 'wcorner[%d,1]' % r)
                widths['2 x wcorner[%d, 0]' % r] = Rat.const(2) * w0
                widths['2 x wcorner[%d, 1]' % r] = Rat.const(2) * w1
                widths['wcorner[%d, 0] + wcorner[%d, 1]' % (r, r)] = w0 + w1
            want = {0: ('edge', edge),
                    1: ('corner', widths['2 x wcorner[%d, 1]' % d])}
            for typ, (tn, w) in want.items():
                got = _scalar(qa.get((d, typ)), 'q_area[%d,%d] (%d ducts)'
                              % (d, typ, n))
                if got.equals(t_d * w):
                    good.setdefault(tn, []).append((n, d))
                    continue
                unk = sorted(x for x in (
                    got.n.symbols() | got.d.symbols() | w.n.symbols() |
                    w.d.symbols() | t_d.n.symbols() | t_d.d.symbols())
                    if x.startswith('<') and '#' in x)
                if unk:
                    raise AnalysisError(
                        'calculate_geometry: q_area[%d, %s] for %d duct(s) '
                        'depends on a call the evaluator has no model of: '
                        '%s' % (d, tn, n, unk[0]))
                ratio = got / t_d
                is_ = [k for k, v in widths.items() if ratio.equals(v)]
                bad.setdefault(tn, []).append((n, d, (
                    'thickness[%d] x %s' % (d, is_[0]) if is_ else
                    'not thickness[%d] x a face width' % d)))
    faces = {'edge': 'one edge pitch L[1][1]',
             'corner': '2 x wcorner[d, 1], the outside face of the corner of '
                       'duct d itself'}
    store = _qarea_store(fi)
    for tn in ('edge', 'corner'):
        for n, d in good.get(tn, []):
            ctx.ok(RULE, fi, None, 'q_area[%d, %s] of %d duct(s) = '
                   'thickness x own face width' % (d, tn, n))
        if tn in bad:
            n, d, desc = bad[tn][0]
            ctx.violation(
                RULE, fi, store, 'heat generated in the wall per unit face '
                'area = linear power / face width: the %s cell of duct d '
                'must divide its power by thickness[d] x %s (the width its '
                'adjacent coolants exchange heat through); for %d duct(s) '
                'duct %d gets %s; failing (n_duct, duct): %s'
                % (tn, faces[tn], n, d, desc, sorted(
                    {(a, b) for a, b, _ in bad[tn]})),
                key='%s | q_area %s cell = thickness x own face width'
                % (fi.full, tn))
    # the table is written by calculate_geometry only
    mfuncs = {q: f for q, f in repo.mod('region_rodded').funcs.items()
              if '.' not in q}
    helpers, todo = set(), [fi.node]
    while todo:
        for x in ast.walk(todo.pop()):
            if isinstance(x, ast.Name) and x.id in mfuncs and \
                    x.id not in helpers:
                helpers.add(x.id)       # evaluated with calculate_geometry
                todo.append(mfuncs[x.id].node)
    nested = {id(x) for x in ast.walk(fi.node)}
    for f in repo.all_funcs():
        if f.node is fi.node or '.tests' in f.mod.name or (
                f.mod.name == 'dassh.region_rodded' and f.qual.split('.')[0]
                in helpers) or id(f.node) in nested:
            continue
        for st in walk_no_nested(f.node):
            if isinstance(st, (ast.Assign, ast.AugAssign)):
                ts = st.targets if isinstance(st, ast.Assign) else [st.target]
                if any(isinstance(t, ast.Subscript) and "'q_area'" in _s(t)
                       for t in ts):
                    raise AnalysisError(
                        '%s rewrites the wall cross-section table outside '
                        'calculate_geometry (%s); C11.R9 evaluates the '
                        'table calculate_geometry returns' % (
                            f.full, _s(st)[:70]))
    _call_site(ctx)
    ctx.min_instances(RULE, 2 * sum(N_DUCTS) + 1)


def _qarea_store(fi):
    """A node to point at: the last statement that writes the table."""
    last = None
    for st in walk_no_nested(fi.node):
        if isinstance(st, (ast.Assign, ast.AugAssign)):
            ts = st.targets if isinstance(st, ast.Assign) else [st.target]
            if any("'q_area'" in _s(t) for t in ts):
                last = st
    return last


def _dead_before_loop(call, lp):
    """`X = self._calc_duct_power(...)` outside the duct loop whose value
    cannot reach the formulas: the loop body re-binds X from its own call
    before any statement reads X."""
    st = call
    while st is not None and not isinstance(st, ast.stmt):
        st = getattr(st, '_parent', None)
    if not (isinstance(st, ast.Assign) and len(st.targets) == 1 and
            isinstance(st.targets[0], ast.Name) and st.value is call):
        return False
    x = st.targets[0].id
    for b in lp.body:
        if isinstance(b, ast.Assign) and len(b.targets) == 1 and \
                isinstance(b.targets[0], ast.Name) and b.targets[0].id == x \
                and isinstance(b.value, ast.Call) and \
                _s(b.value.func) == 'self._calc_duct_power':
            return True
        if any(isinstance(n, ast.Name) and n.id == x for n in ast.walk(b)):
            return False
    return False


def _call_site(ctx):
    """_calc_duct_temp: q''' of duct i comes from row i."""
    repo = ctx.repo
    fi = repo.func('region_rodded', 'RoddedRegion._calc_duct_temp')
    callee = repo.func('region_rodded', 'RoddedRegion._calc_duct_power')
    if len(callee.params) != 3:
        raise AnalysisError('_calc_duct_power: signature changed')
    lp = [n for n in walk_no_nested(fi.node) if isinstance(n, ast.For)
          and isinstance(n.target, ast.Name) and 'n_duct' in src(n.iter)]
    if len(lp) != 1:
        raise AnalysisError('_calc_duct_temp: duct loop')
    lp = lp[0]
    iv = lp.target.id
    calls = [c for c in ast.walk(fi.node) if isinstance(c, ast.Call)
             and _s(c.func) == 'self._calc_duct_power']
    if not calls:
        raise AnalysisError('_calc_duct_temp: call of _calc_duct_power '
                            'vanished')
    inside_calls = [c for c in calls
                    if any(a is lp for a in U.enclosing_loops(c))]
    if not inside_calls:
        ctx.violation(RULE, fi, calls[0], 'the q\'\'\' that enters the slab '
                      'solution of duct i must be built from duct i\'s own '
                      'power block and wall cross-section: no call of '
                      '_calc_duct_power inside the duct loop',
                      key='%s | power density of the own duct' % fi.full)
        return
    for c in calls:
        inside = any(a is lp for a in U.enclosing_loops(c))
        if not inside and _dead_before_loop(c, lp):
            continue
        arg = None
        if len(c.args) >= 2:
            arg = c.args[1]
        for k in c.keywords:
            if k.arg == callee.params[2]:
                arg = k.value
        ok = inside and arg is not None
        bad = None
        if ok:
            e = U.value_at(fi.node, arg, c.lineno, keep=(iv,))
            for n in (1, 2, 3, 4):
                for i in range(n):
                    try:
                        v = U.const_eval(e, {iv: i})
                    except (ValueError, KeyError, TypeError, IndexError):
                        v = None
                    if v is None:
                        txt = _s(e).replace('self.n_duct', str(n))
                        try:
                            v = U.const_eval(ast.parse(txt, mode='eval').body,
                                             {iv: i})
                        except (ValueError, KeyError, TypeError, IndexError,
                                SyntaxError):
                            v = None
                    if v is None or isinstance(v, bool) or v != i:
                        bad = bad or (
                            'duct %d of %d is given the wall power density '
                            'of duct %s' % (i, n, v if v is not None else
                                            '`%s`' % _s(e)))
        ctx.require(ok and bad is None, RULE, fi, c,
                    'the q\'\'\' that enters the slab solution of duct i '
                    'must be built from duct i\'s own power block and wall '
                    'cross-section: _calc_duct_power(<power vector>, i) '
                    'inside the duct loop; %s' % (bad or 'call is outside '
                                                  'the duct loop'),
                    key='%s | power density of the own duct' % fi.full)
