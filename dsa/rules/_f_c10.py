"""C10.R7 -- the two matrices `_map_asm2gap` returns ARE the overlap maps.

Clause decided on VALUES (the value form of C10.R1, the padding / order part
of C10.R2 and C10.R3): for a duct mesh with boundaries d[0..m] (d[0] = 0,
d[m] = perimeter; cells 0 and m - 1 are the two halves of the split top
corner) and the positive gap boundaries g[1..q-1] of the assembly, zero padded
to the row width W of `_asm_sc_xbnds`, `_map_asm2gap(d, row)` returns

    gap -> duct   F (m - 1 x W):  F[i, j] = |duct cell i ^ gap cell j| / |duct cell i|
    duct -> gap   C (W x m - 1):  C[j, i] = |duct cell i ^ gap cell j| / |gap cell j|

in that order, where the gap cells are closed by 0 and d[m], the two halves
of the top corner are folded in the SAME way in both (first row added to the
last, first column added to the last, last row halved, first row and column
dropped -- for equal halves: overlap with the re-joined corner cell over its
width), every row of the unpadded block sums to one, the W - (q - 1) padded
columns of F / rows of C are zero, and meshes that coincide (np.allclose with
its default tolerance) give exact identity blocks.

How: finite-domain evaluation.  The ORIGINAL source text of the function (not
the canonicalised tree) is evaluated by the checker's own interpreter below
-- exact rational arithmetic, a NumPy array model in which basic indexing and
`.T` give views on a shared store, everything else copies; nothing of /repo
is imported or run -- on MODEL mesh pairs built from the conventions of
`RoddedRegion.calculate_xbnds`, `SingleNodeHomogeneous.calculate_xbnds` and
`Core._calculate_gap_xbnds` (trusted base, see `side_kinds` / `walk`): every
duct kind x every gap kind, gap meshes mixed side by side (also across the
top corner), coincident, nearly coincident (inside / outside the allclose
tolerance), nesting and non-nesting, gap corner longer / shorter than the
duct corner, padded and unpadded rows.  The two returned matrices are compared
entry by entry, exactly, with F and C above.  No source form is matched: a
loop, a vectorised body, helpers, views, `A / d[:, None]` -- all are judged by
the matrices they produce.  Unmodelled constructs are an analysis error
(exit 2), never ignored.
"""
import ast
import itertools
from fractions import Fraction

from ..core import AnalysisError, src
from ..finite import Unsupported, Raised

PROPS = ('C10',)
RULE = 'C10.R7'
ANCHOR = ('mesh_functions', '_map_asm2gap')


def _s(n):
    return ' '.join(src(n).split())


# ---------------------------------------------------------------------------
# values

class _Sentinel:
    def __init__(self, name):
        self.name = name

    def __repr__(self):
        return self.name


NONFINITE = _Sentinel('inf/nan')      # x / 0 inside an array operation
UNSET = _Sentinel('uninitialised')    # element of np.empty(...)

NUM = (int, Fraction)                 # bool is an int


def _num(v):
    if isinstance(v, float):
        if v != v or v in (float('inf'), float('-inf')):
            return NONFINITE
        return Fraction(str(v))
    return v


def _is_int(v):
    return isinstance(v, int) and not isinstance(v, bool)


class _Return(Exception):
    def __init__(self, value):
        self.value = value


class _Break(Exception):
    pass


class _Continue(Exception):
    pass


def _prod(shape):
    n = 1
    for k in shape:
        n *= k
    return n


def _kind_of(values):
    if not values or type(values[0]) is Fraction:
        return 'f'
    if all(isinstance(v, bool) for v in values):
        return 'b'
    if all(isinstance(v, int) and not isinstance(v, bool) for v in values):
        return 'i'
    return 'f'


def _conv(v, kind, node=None):
    """value as stored in an array of the given kind"""
    if type(v) is Fraction and kind == 'f':
        return v
    if v is NONFINITE or v is UNSET:
        if kind != 'f':
            raise Unsupported('non-finite value in a non-float array')
        return v
    if isinstance(v, NArr):
        if v.size != 1:
            raise Raised(node)          # setting an element with a sequence
        v = v.values()[0]
    if not isinstance(v, NUM):
        raise Unsupported('array element %r' % (v,))
    if kind == 'f':
        return Fraction(int(v)) if isinstance(v, int) else v
    if kind == 'i':
        return int(v)           # a float is truncated towards zero, silently
    return bool(v)


class NArr:
    """ndarray model: a shared element store and the positions this array
    (or view) occupies in it, row-major.  kind: 'f' float (Fractions), 'i'
    integer, 'b' boolean."""
    __slots__ = ('shape', 'store', 'pos', 'kind')

    def __init__(self, shape, store, pos, kind):
        self.shape, self.store, self.pos, self.kind = \
            tuple(shape), store, pos, kind

    @staticmethod
    def fresh(shape, values, kind=None):
        values = list(values)
        shape = tuple(shape)
        if len(values) != _prod(shape):
            raise Unsupported('array of %d values with shape %r'
                              % (len(values), shape))
        if kind is None:
            kind = _kind_of(values)
        values = [_conv(v, kind) for v in values]
        return NArr(shape, values, list(range(len(values))), kind)

    @property
    def ndim(self):
        return len(self.shape)

    @property
    def size(self):
        return len(self.pos)

    def values(self):
        st = self.store
        return [st[p] for p in self.pos]

    def copy(self):
        return NArr(self.shape, self.values(), list(range(len(self.pos))),
                    self.kind)

    def strides(self):
        out, acc = [], 1
        for dim in reversed(self.shape):
            out.insert(0, acc)
            acc *= dim
        return out

    def transpose(self):
        if self.ndim < 2:
            return self
        st = self.strides()
        rs, rst = tuple(reversed(self.shape)), list(reversed(st))
        pos = [self.pos[sum(i * s for i, s in zip(t, rst))]
               for t in itertools.product(*[range(k) for k in rs])]
        return NArr(rs, self.store, pos, self.kind)

    def items(self, node=None):
        """iteration over the first axis"""
        if not self.shape:
            raise Raised(node)          # iteration over a 0-d array
        return [self.get(i, node) for i in range(self.shape[0])]

    # -- indexing --
    def _select(self, idx, node):
        """-> (shape, positions, is_view)"""
        if not isinstance(idx, tuple):
            idx = (idx,)
        idx = tuple(NArr.fresh((len(k),), k) if isinstance(k, list) and k
                    and all(isinstance(e, int) for e in k) else k
                    for k in idx)
        adv = [k for k in idx if isinstance(k, NArr)]
        if adv:
            return self._select_adv(idx, node) + (False,)
        if any(k is Ellipsis for k in idx):
            if sum(1 for k in idx if k is Ellipsis) > 1:
                raise Raised(node)
            e = idx.index(Ellipsis)
            used = sum(1 for k in idx if k is not None and k is not Ellipsis)
            idx = idx[:e] + (slice(None),) * (self.ndim - used) + idx[e + 1:]
        used = sum(1 for k in idx if k is not None)
        if used > self.ndim:
            raise Raised(node)          # too many indices
        idx = idx + (slice(None),) * (self.ndim - used)
        axes, shape, ax = [], [], 0
        for k in idx:
            if k is None:
                shape.append(1)
                continue
            dim = self.shape[ax]
            ax += 1
            if isinstance(k, bool):
                raise Unsupported('boolean scalar index')
            if isinstance(k, int):
                if not -dim <= k < dim:
                    raise Raised(node)  # IndexError
                axes.append([k % dim])
            elif isinstance(k, slice):
                if not all(p is None or _is_int(p)
                           for p in (k.start, k.stop, k.step)):
                    raise Raised(node)  # slice indices must be integers
                if k.step == 0:
                    raise Raised(node)
                r = list(range(*k.indices(dim)))
                axes.append(r)
                shape.append(len(r))
            elif isinstance(k, Fraction):
                raise Raised(node)      # float index
            else:
                raise Unsupported('array index %r' % (k,))
        st = self.strides()
        if len(axes) == 1:
            pos = [self.pos[i * st[0]] for i in axes[0]]
        elif len(axes) == 2:
            s0, s1 = st
            pos = [self.pos[i * s0 + j * s1] for i in axes[0]
                   for j in axes[1]]
        else:
            pos = [self.pos[sum(i * s for i, s in zip(t, st))]
                   for t in itertools.product(*axes)]
        return tuple(shape), pos, True

    def _select_adv(self, idx, node):
        if len(idx) != 1:
            # slices and ONE vector of indices / mask: the vector takes the
            # place of its axis (a copy)
            if len(idx) > self.ndim or sum(
                    1 for k in idx if isinstance(k, NArr)) != 1 or not all(
                        isinstance(k, (NArr, slice)) for k in idx):
                raise Unsupported('index arrays combined with other indices')
            idx = idx + (slice(None),) * (self.ndim - len(idx))
            axes = []
            for k, dim in zip(idx, self.shape):
                if isinstance(k, slice):
                    if not all(p is None or _is_int(p)
                               for p in (k.start, k.stop, k.step)) or \
                            k.step == 0:
                        raise Raised(node)
                    axes.append(list(range(*k.indices(dim))))
                elif k.ndim != 1:
                    raise Unsupported('index array of rank %d' % k.ndim)
                elif k.kind == 'b':
                    if k.size != dim:
                        raise Raised(node)
                    axes.append([i for i, m in enumerate(k.values()) if m])
                elif k.kind == 'i':
                    if any(not -dim <= i < dim for i in k.values()):
                        raise Raised(node)
                    axes.append([i % dim for i in k.values()])
                else:
                    raise Raised(node)
            st = self.strides()
            pos = [self.pos[sum(i * s_ for i, s_ in zip(t, st))]
                   for t in itertools.product(*axes)]
            return tuple(len(a) for a in axes), pos
        k = idx[0]
        if k.kind == 'b':
            if k.shape == self.shape:
                pos = [p for p, m in zip(self.pos, k.values()) if m]
                return (len(pos),), pos
            if k.ndim == 1 and self.ndim >= 1 and k.shape[0] == self.shape[0]:
                rows = [i for i, m in enumerate(k.values()) if m]
            else:
                raise Raised(node)      # mask shape mismatch
        elif k.kind == 'i':
            if k.ndim != 1:
                raise Unsupported('index array of rank %d' % k.ndim)
            dim = self.shape[0] if self.shape else 0
            rows = []
            for i in k.values():
                if not -dim <= i < dim:
                    raise Raised(node)
                rows.append(i % dim)
        else:
            raise Raised(node)          # float index array
        st = self.strides()
        per = st[0] if st else 1
        pos = [self.pos[r * per + o] for r in rows for o in range(per)]
        return (len(rows),) + self.shape[1:], pos

    def get(self, idx, node=None):
        shape, pos, view = self._select(idx, node)
        if not shape and view:
            return self.store[pos[0]]
        if view:
            return NArr(shape, self.store, pos, self.kind)
        return NArr(shape, [self.store[p] for p in pos],
                    list(range(len(pos))), self.kind)

    def set(self, idx, val, node=None):
        shape, pos, _ = self._select(idx, node)
        self._write(shape, pos, val, node)

    def _write(self, shape, pos, val, node):
        val = _as_array(val)
        if isinstance(val, NArr):
            vals = _broadcast(val, shape, node)
        else:
            vals = [val] * len(pos)
        vals = [_conv(v, self.kind, node) for v in vals]
        st = self.store
        for p, v in zip(pos, vals):
            st[p] = v

    def assign(self, val, node=None):
        """in-place replacement of all elements (augmented assignment)"""
        if isinstance(val, NArr) and self.kind == 'i' and val.kind == 'f':
            raise Raised(node)          # same-kind casting rule of ufuncs
        self._write(self.shape, self.pos, val, node)

    def __repr__(self):
        return 'NArr(%r, %r)' % (self.shape, self.values())


def _as_array(v):
    """python list / tuple of numbers -> NArr (NumPy converts on the fly)"""
    if isinstance(v, (list, tuple)):
        return _to_arr(v)
    return v


def _to_arr(v, kind=None):
    if isinstance(v, NArr):
        c = v.copy()
        if kind is not None and kind != c.kind:
            c = NArr.fresh(c.shape, c.values(), kind)
        return c
    if not isinstance(v, (list, tuple)):
        if isinstance(v, NUM):
            return NArr.fresh((), [v], kind)
        raise Unsupported('array of %s' % type(v).__name__)
    items = [(_to_arr(x) if isinstance(x, (list, tuple, NArr)) else _num(x))
             for x in v]
    if items and all(isinstance(x, NArr) for x in items):
        sh = items[0].shape
        if any(x.shape != sh for x in items):
            raise Unsupported('ragged array')
        return NArr.fresh((len(items),) + sh,
                          [e for x in items for e in x.values()], kind)
    if any(isinstance(x, NArr) for x in items):
        raise Unsupported('ragged array')
    if any(not isinstance(x, NUM) and x is not NONFINITE for x in items):
        raise Unsupported('array of non-numbers')
    return NArr.fresh((len(items),), items, kind)


def _bshape(a, b, node=None):
    out = []
    for x, y in itertools.zip_longest(reversed(a), reversed(b), fillvalue=1):
        if x != y and 1 not in (x, y):
            raise Raised(node)          # shapes do not broadcast
        out.insert(0, y if x == 1 else x)
    return tuple(out)


def _broadcast(arr, shape, node=None):
    """values of arr broadcast to shape (row-major list)"""
    shape = tuple(shape)
    if arr.shape == shape:
        return arr.values()
    if len(arr.shape) > len(shape) and _prod(arr.shape) == _prod(shape) \
            and all(k == 1 for k in arr.shape[:len(arr.shape) - len(shape)]):
        # leading axes of length one may be dropped on assignment
        arr = NArr(arr.shape[len(arr.shape) - len(shape):], arr.store,
                   arr.pos, arr.kind)
    if len(arr.shape) > len(shape) or _bshape(arr.shape, shape,
                                              node) != shape:
        raise Raised(node)
    vals = arr.values()
    if not shape:
        return vals
    st, acc = [], 1
    for dim in reversed(arr.shape):
        st.insert(0, acc if dim != 1 else 0)
        acc *= dim
    st = [0] * (len(shape) - len(arr.shape)) + st
    if len(shape) == 2:
        s0, s1 = st
        return [vals[i * s0 + j * s1] for i in range(shape[0])
                for j in range(shape[1])]
    return [vals[sum(i * s for i, s in zip(t, st))]
            for t in itertools.product(*[range(k) for k in shape])]


_FAST_OPS = {ast.Add: lambda a, b: a + b, ast.Sub: lambda a, b: a - b,
             ast.Mult: lambda a, b: a * b}
_ZERO = Fraction(0)


def _scalar_arith(op, a, b, node=None, in_array=False):
    if type(a) is Fraction and type(b) is Fraction:
        t = type(op)
        if t is ast.Div:
            if b._numerator:
                return a / b if a._numerator else _ZERO
        elif t is ast.Mult:
            return a * b if a._numerator and b._numerator else _ZERO
        elif t is ast.Add:
            return a + b if a._numerator else b
        elif t is ast.Sub:
            return a - b if b._numerator else a
    if a is UNSET or b is UNSET:
        raise Unsupported('arithmetic on an uninitialised array element')
    if a is NONFINITE or b is NONFINITE:
        return NONFINITE
    a, b = _num(a), _num(b)
    if not (isinstance(a, NUM) and isinstance(b, NUM)):
        raise Unsupported('arithmetic on %r and %r' % (a, b))
    if isinstance(a, bool):
        a = int(a)
    if isinstance(b, bool):
        b = int(b)
    if isinstance(op, ast.Add):
        return a + b
    if isinstance(op, ast.Sub):
        return a - b
    if isinstance(op, ast.Mult):
        return a * b
    if isinstance(op, (ast.Div, ast.FloorDiv, ast.Mod)):
        if b == 0:
            if in_array:
                return NONFINITE
            raise Unsupported('scalar division by zero (inf or an '
                              'exception, depending on the scalar type)')
        if isinstance(op, ast.Div):
            return Fraction(a) / Fraction(b)
        if isinstance(op, ast.FloorDiv):
            r = a // b
            return r if isinstance(a, int) and isinstance(b, int) \
                else Fraction(r)
        return a % b
    if isinstance(op, ast.Pow):
        if _is_int(b):
            if b < 0 and a == 0:
                raise Unsupported('0 ** negative')
            if b < 0 and isinstance(a, int):
                return Fraction(a) ** b
            return a ** b
        if isinstance(b, Fraction) and b.denominator == 1:
            return Fraction(a) ** int(b)
        raise Unsupported('non-integer power')
    raise Unsupported('operator %s' % type(op).__name__)


def _elementwise(f, a, b, node=None):
    """f over broadcast operands; a, b: NArr or scalars (one is an NArr)"""
    a, b = _as_array(a), _as_array(b)
    if isinstance(a, NArr) and isinstance(b, NArr):
        shape = _bshape(a.shape, b.shape, node)
        va, vb = _broadcast(a, shape, node), _broadcast(b, shape, node)
        return NArr.fresh(shape, [f(x, y) for x, y in zip(va, vb)])
    if isinstance(a, NArr):
        return NArr.fresh(a.shape, [f(x, b) for x in a.values()])
    return NArr.fresh(b.shape, [f(a, y) for y in b.values()])


def _matmul(a, b, node=None):
    a, b = _as_array(a), _as_array(b)
    if not (isinstance(a, NArr) and isinstance(b, NArr)):
        if isinstance(a, NArr) or isinstance(b, NArr):
            return _elementwise(lambda x, y: _scalar_arith(
                ast.Mult(), x, y, node, True), a, b, node)
        return _scalar_arith(ast.Mult(), a, b, node)
    if a.ndim > 2 or b.ndim > 2 or not a.ndim or not b.ndim:
        raise Unsupported('matrix product rank')
    A = a if a.ndim == 2 else NArr((1,) + a.shape, a.store, a.pos, a.kind)
    B = b if b.ndim == 2 else NArr(b.shape + (1,), b.store, b.pos, b.kind)
    if A.shape[1] != B.shape[0]:
        raise Raised(node)
    n, k, m = A.shape[0], A.shape[1], B.shape[1]
    av, bv = A.values(), B.values()
    out = []
    for i in range(n):
        for j in range(m):
            t = Fraction(0) if 'f' in (a.kind, b.kind) else 0
            for l in range(k):
                t = _scalar_arith(ast.Add(), t, _scalar_arith(
                    ast.Mult(), av[i * k + l], bv[l * m + j], node, True),
                    node, True)
            out.append(t)
    shape = (n, m)
    if a.ndim == 1 and b.ndim == 1:
        return out[0]
    if a.ndim == 1:
        shape = (m,)
    elif b.ndim == 1:
        shape = (n,)
    return NArr.fresh(shape, out)


# ---------------------------------------------------------------------------
# models of the NumPy functions / builtins a mesh map is written with.  Every
# model takes (node, args, kw); an unknown keyword is an analysis error.

RTOL, ATOL = Fraction(1, 10 ** 5), Fraction(1, 10 ** 8)


class DType:
    def __init__(self, kind):
        self.kind = kind

    def __repr__(self):
        return 'dtype(%s)' % self.kind


def _only(kw, allowed, name):
    for k in kw:
        if k not in allowed:
            raise Unsupported('keyword %s= of %s is not modelled' % (k, name))


def _dtype_kind(kw, name):
    d = kw.get('dtype')
    if d is None:
        return None
    if isinstance(d, DType):
        return d.kind
    if isinstance(d, _Builtin) and d.name in ('float', 'int', 'bool'):
        return {'float': 'f', 'int': 'i', 'bool': 'b'}[d.name]
    if isinstance(d, str) and d in ('float', 'float64', 'f8', 'd', 'double'):
        return 'f'
    raise Unsupported('dtype %r of %s' % (d, name))


def _shape_arg(s, node):
    if isinstance(s, NArr):
        s = s.values()
    if _is_int(s):
        s = (s,)
    if not isinstance(s, (tuple, list)) or not all(_is_int(k) for k in s):
        raise Raised(node)              # e.g. a float as a dimension
    if any(k < 0 for k in s):
        raise Raised(node)
    return tuple(s)


def _filled(value):
    def f(node, args, kw):
        _only(kw, ('dtype', 'shape'), 'np.zeros/ones/empty')
        if 'shape' in kw:
            args = [kw['shape']] + list(args)
        if len(args) == 2:
            kw = dict(kw, dtype=args[1])
            args = args[:1]
        if len(args) != 1:
            raise Raised(node)
        kind = _dtype_kind(kw, 'np.zeros/ones/empty') or 'f'
        shape = _shape_arg(args[0], node)
        if value is UNSET:
            v = UNSET
            if kind != 'f':
                raise Unsupported('np.empty of a non-float type')
        else:
            v = {'f': Fraction(value), 'i': int(value),
                 'b': bool(value)}[kind]
        return NArr.fresh(shape, [v] * _prod(shape), kind)
    return f


def _like(value):
    def f(node, args, kw):
        _only(kw, ('dtype',), 'np.zeros_like')
        if len(args) != 1:
            raise Raised(node)
        a = _need_arr(args[0])
        kind = _dtype_kind(kw, 'np.zeros_like') or a.kind
        v = {'f': Fraction(value), 'i': int(value), 'b': bool(value)}[kind]
        return NArr.fresh(a.shape, [v] * a.size, kind)
    return f


def _need_arr(v):
    v = _as_array(v)
    if isinstance(v, NArr):
        return v
    if isinstance(v, NUM):
        return NArr.fresh((), [v])
    if hasattr(v, '__next__'):
        raise Unsupported('array of an iterator')
    raise Unsupported('array of %r' % (v,))


def _np_identity(node, args, kw):
    _only(kw, ('dtype',), 'np.identity')
    if _dtype_kind(kw, 'np.identity') not in (None, 'f'):
        raise Unsupported('integer identity')
    if len(args) not in (1, 2) or not all(_is_int(a) for a in args) or \
            any(a < 0 for a in args):
        raise Raised(node)
    n, m = args[0], args[-1]
    return NArr.fresh((n, m), [Fraction(int(i == j)) for i in range(n)
                               for j in range(m)], 'f')


def _np_array(copy):
    def f(node, args, kw):
        _only(kw, ('dtype',), 'np.array')
        if len(args) == 2:
            kw = dict(kw, dtype=args[1])
            args = args[:1]
        if len(args) != 1:
            raise Raised(node)
        kind = _dtype_kind(kw, 'np.array')
        a = args[0]
        if isinstance(a, NArr) and not copy and kind in (None, a.kind):
            return a
        if hasattr(a, '__next__'):
            raise Unsupported('np.array of an iterator')
        return _to_arr(a, kind)
    return f


def _np_count_nonzero(node, args, kw):
    _only(kw, (), 'np.count_nonzero')
    if len(args) != 1:
        raise Unsupported('np.count_nonzero with an axis')
    vals = _need_arr(args[0]).values()
    if any(v is NONFINITE or v is UNSET for v in vals):
        raise Unsupported('count_nonzero of non-finite values')
    return sum(1 for v in vals if v != 0)


def _np_searchsorted(node, args, kw):
    _only(kw, ('side',), 'np.searchsorted')
    if len(args) == 3:
        kw = dict(kw, side=args[2])
        args = args[:2]
    if len(args) != 2:
        raise Raised(node)
    side = kw.get('side', 'left')
    if side not in ('left', 'right'):
        raise Raised(node)
    a = _need_arr(args[0])
    if a.ndim != 1:
        raise Raised(node)
    av = a.values()
    if any(not isinstance(v, NUM) for v in av):
        raise Unsupported('searchsorted in non-finite values')
    unsorted = any(x > y for x, y in zip(av, av[1:]))

    def one(v):
        # the bisection NumPy performs for one key (also what it does, and
        # returns, when the vector is not sorted)
        if not isinstance(v, NUM):
            raise Unsupported('searchsorted of %r' % (v,))
        lo, hi = 0, len(av)
        while lo < hi:
            mid = lo + ((hi - lo) >> 1)
            if av[mid] < v if side == 'left' else av[mid] <= v:
                lo = mid + 1
            else:
                hi = mid
        return lo
    v = _as_array(args[1])
    if isinstance(v, NArr):
        if unsorted:
            raise Unsupported('searchsorted of several keys in an unsorted '
                              'vector (result depends on the key order)')
        return NArr.fresh(v.shape, [one(x) for x in v.values()], 'i')
    return one(_num(v))


def _close(a, b, rtol, atol):
    if a is UNSET or b is UNSET:
        raise Unsupported('comparison of an uninitialised element')
    if a is NONFINITE or b is NONFINITE:
        raise Unsupported('closeness of non-finite values')
    return abs(a - b) <= atol + rtol * abs(b)


def _tolerances(args, kw, name, I, node):
    _only(kw, ('rtol', 'atol', 'equal_nan'), name)
    if kw.get('equal_nan', False) is not False:
        raise Unsupported('equal_nan')
    rest = list(args[2:])
    rtol = _num(rest[0] if rest else kw.get('rtol', RTOL))
    atol = _num(rest[1] if len(rest) > 1 else kw.get('atol', ATOL))
    if len(args) < 2 or len(rest) > 2:
        raise Raised(node)
    if not isinstance(rtol, NUM) or not isinstance(atol, NUM):
        raise Unsupported('tolerance of %s' % name)
    if (rtol, atol) != (RTOL, ATOL):
        I.tolerances.append((node, rtol, atol))
    return rtol, atol


def _np_isclose(I, node, args, kw):
    rtol, atol = _tolerances(args, kw, 'np.isclose', I, node)
    a, b = _as_array(args[0]), _as_array(args[1])
    f = lambda x, y: _close(x, y, rtol, atol)
    if isinstance(a, NArr) or isinstance(b, NArr):
        return _elementwise(f, a, b, node)
    return f(_num(a), _num(b))


def _np_allclose(I, node, args, kw):
    r = _np_isclose(I, node, args, kw)
    return all(r.values()) if isinstance(r, NArr) else bool(r)


def _np_array_equal(node, args, kw):
    _only(kw, (), 'np.array_equal')
    if len(args) != 2:
        raise Raised(node)
    a, b = _need_arr(args[0]), _need_arr(args[1])
    if a.shape != b.shape:
        return False
    va, vb = a.values(), b.values()
    if any(not isinstance(v, NUM) for v in va + vb):
        raise Unsupported('array_equal of non-finite values')
    return va == vb


def _axis_arg(args, kw, name, node, extra=()):
    _only(kw, ('axis',) + tuple(extra), name)
    if len(args) == 2:
        kw = dict(kw, axis=args[1])
        args = args[:1]
    if len(args) != 1:
        raise Raised(node)
    ax = kw.get('axis')
    if ax is not None and not _is_int(ax):
        raise Unsupported('axis %r of %s' % (ax, name))
    return args[0], ax


def _reduce(f, name):
    """f: list of scalars -> scalar"""
    def g(node, args, kw):
        a, ax = _axis_arg(args, kw, name, node)
        if hasattr(a, '__next__'):
            raise Unsupported('%s of an iterator' % name)
        a = _need_arr(a)
        if ax is None:
            return f(a.values(), node)
        if not -a.ndim <= ax < a.ndim:
            raise Raised(node)
        ax %= a.ndim
        if a.ndim == 1:
            return f(a.values(), node)
        if a.ndim != 2:
            raise Unsupported('%s over an axis of a rank-%d array'
                              % (name, a.ndim))
        m = a if ax == 1 else a.transpose()
        return NArr.fresh((m.shape[0],),
                          [f(r.values(), node) for r in m.items()])
    return g


def _r_sum(vals, node):
    t = 0
    for v in vals:
        t = _scalar_arith(ast.Add(), t, v, node, True)
    if vals and isinstance(vals[0], Fraction) and isinstance(t, int):
        t = Fraction(t)
    return t


def _finite(vals, what):
    if any(not isinstance(v, NUM) for v in vals):
        raise Unsupported('%s of non-finite values' % what)
    return vals


def _r_min(vals, node):
    if not vals:
        raise Raised(node)
    return min(_finite(vals, 'min'))


def _r_max(vals, node):
    if not vals:
        raise Raised(node)
    return max(_finite(vals, 'max'))


def _r_any(vals, node):
    return any(bool(v) for v in _finite(vals, 'any'))


def _r_all(vals, node):
    return all(bool(v) for v in _finite(vals, 'all'))


def _np_cumsum(node, args, kw):
    a, ax = _axis_arg(args, kw, 'np.cumsum', node)
    a = _need_arr(a)
    if a.ndim != 1:
        raise Unsupported('cumsum of a rank-%d array' % a.ndim)
    out, t = [], (Fraction(0) if a.kind == 'f' else 0)
    for v in a.values():
        t = _scalar_arith(ast.Add(), t, v, node, True)
        out.append(t)
    return NArr.fresh(a.shape, out)


def _np_diff(node, args, kw):
    _only(kw, ('n', 'axis'), 'np.diff')
    if len(args) != 1 or kw.get('n', 1) != 1:
        raise Unsupported('np.diff of higher order')
    a = _need_arr(args[0])
    if a.ndim != 1 or kw.get('axis', -1) not in (-1, 0):
        raise Unsupported('np.diff of a rank-%d array' % a.ndim)
    v = a.values()
    return NArr.fresh((max(len(v) - 1, 0),),
                      [_scalar_arith(ast.Sub(), q, p, node, True)
                       for p, q in zip(v, v[1:])],
                      'f' if a.kind == 'f' else None)


def _binary(op):
    def f(node, args, kw):
        _only(kw, (), 'numpy arithmetic function')
        if len(args) != 2:
            raise Raised(node)
        return _binop(op, args[0], args[1], node)
    return f


def _np_minmax(pick):
    def f(node, args, kw):
        _only(kw, (), 'np.minimum/maximum')
        if len(args) != 2:
            raise Raised(node)
        g = lambda x, y: pick(_finite([x, y], 'minimum/maximum'))
        a, b = _as_array(args[0]), _as_array(args[1])
        if isinstance(a, NArr) or isinstance(b, NArr):
            return _elementwise(g, a, b, node)
        return g(_num(a), _num(b))
    return f


def _np_abs(node, args, kw):
    _only(kw, (), 'np.abs')
    if len(args) != 1:
        raise Raised(node)
    a = _as_array(args[0])
    g = lambda x: x if x is NONFINITE else abs(x)
    if isinstance(a, NArr):
        return NArr.fresh(a.shape, [g(v) for v in a.values()])
    return g(_num(a))


def _np_where(node, args, kw):
    _only(kw, (), 'np.where')
    if len(args) == 1:
        return _np_nonzero(node, args, kw)
    if len(args) != 3:
        raise Raised(node)
    c, a, b = [_as_array(x) for x in args]
    if not isinstance(c, NArr):
        c = NArr.fresh((), [c])
    shape = c.shape
    for x in (a, b):
        if isinstance(x, NArr):
            shape = _bshape(shape, x.shape, node)
    cv = _broadcast(c, shape, node)
    av = _broadcast(a, shape, node) if isinstance(a, NArr) \
        else [_num(a)] * len(cv)
    bv = _broadcast(b, shape, node) if isinstance(b, NArr) \
        else [_num(b)] * len(cv)
    if any(not isinstance(m, NUM) for m in cv):
        raise Unsupported('np.where on non-finite values')
    return NArr.fresh(shape, [x if m else y
                              for m, x, y in zip(cv, av, bv)])


def _np_nonzero(node, args, kw):
    _only(kw, (), 'np.nonzero')
    if len(args) != 1:
        raise Raised(node)
    a = _need_arr(args[0])
    vals = _finite(a.values(), 'nonzero')
    idx = [t for t, v in zip(itertools.product(*[range(k) for k in a.shape]),
                             vals) if v]
    return tuple(NArr.fresh((len(idx),), [t[ax] for t in idx], 'i')
                 for ax in range(a.ndim))


def _np_flatnonzero(node, args, kw):
    _only(kw, (), 'np.flatnonzero')
    a = _need_arr(args[0])
    vals = _finite(a.values(), 'flatnonzero')
    idx = [i for i, v in enumerate(vals) if v]
    return NArr.fresh((len(idx),), idx, 'i')


def _np_arange(node, args, kw):
    _only(kw, (), 'np.arange')
    if not 1 <= len(args) <= 3 or not all(_is_int(a) for a in args):
        raise Unsupported('np.arange of non-integers')
    r = list(range(*args))
    return NArr.fresh((len(r),), r, 'i')


def _np_concatenate(node, args, kw):
    _only(kw, ('axis',), 'np.concatenate')
    if len(args) == 2:
        kw = dict(kw, axis=args[1])
        args = args[:1]
    if len(args) != 1 or not isinstance(args[0], (list, tuple)):
        raise Unsupported('np.concatenate argument')
    parts = [_need_arr(x) for x in args[0]]
    ax = kw.get('axis', 0)
    if not parts:
        raise Raised(node)
    nd = parts[0].ndim
    if any(p.ndim != nd for p in parts) or nd == 0:
        raise Raised(node)
    if nd == 1 and ax in (0, -1):
        return NArr.fresh((sum(p.size for p in parts),),
                          [v for p in parts for v in p.values()])
    if nd == 2 and ax in (0, -2, 1, -1):
        if ax in (1, -1):
            parts = [p.transpose() for p in parts]
        w = parts[0].shape[1]
        if any(p.shape[1] != w for p in parts):
            raise Raised(node)
        out = NArr.fresh((sum(p.shape[0] for p in parts), w),
                         [v for p in parts for v in p.values()])
        return out.transpose().copy() if ax in (1, -1) else out
    raise Unsupported('np.concatenate of rank-%d arrays' % nd)


def _np_append(node, args, kw):
    _only(kw, (), 'np.append')
    if len(args) != 2:
        raise Unsupported('np.append with an axis')
    a, b = _need_arr(args[0]), _need_arr(args[1])
    return NArr.fresh((a.size + b.size,), a.values() + b.values())


def _np_hstack(node, args, kw):
    _only(kw, (), 'np.hstack')
    parts = [_need_arr(x) for x in args[0]]
    if all(p.ndim <= 1 for p in parts):
        return NArr.fresh((sum(p.size for p in parts),),
                          [v for p in parts for v in p.values()])
    return _np_concatenate(node, [list(parts)], {'axis': 1})


def _np_vstack(node, args, kw):
    _only(kw, (), 'np.vstack')
    parts = [_need_arr(x) for x in args[0]]
    parts = [NArr((1,) + p.shape, p.store, p.pos, p.kind) if p.ndim == 1
             else p for p in parts]
    return _np_concatenate(node, [list(parts)], {'axis': 0})


def _np_transpose(node, args, kw):
    _only(kw, (), 'np.transpose')
    if len(args) != 1:
        raise Unsupported('np.transpose with axes')
    return _need_arr(args[0]).transpose()


def _np_diag(node, args, kw):
    _only(kw, (), 'np.diag')
    if len(args) != 1:
        raise Unsupported('np.diag with an offset')
    a = _need_arr(args[0])
    if a.ndim == 1:
        n = a.size
        v = a.values()
        z = Fraction(0) if a.kind == 'f' else 0
        return NArr.fresh((n, n), [v[i] if i == j else z for i in range(n)
                                   for j in range(n)])
    if a.ndim == 2:
        n = min(a.shape)
        return NArr.fresh((n,), [a.get((i, i)) for i in range(n)])
    raise Raised(node)


def _np_dot(node, args, kw):
    _only(kw, (), 'np.dot')
    if len(args) != 2:
        raise Raised(node)
    return _matmul(args[0], args[1], node)


def _np_outer(node, args, kw):
    _only(kw, (), 'np.outer')
    a, b = _need_arr(args[0]), _need_arr(args[1])
    av, bv = a.values(), b.values()
    return NArr.fresh((len(av), len(bv)),
                      [_scalar_arith(ast.Mult(), x, y, node, True)
                       for x in av for y in bv])


def _np_copy(node, args, kw):
    _only(kw, (), 'np.copy')
    return _need_arr(args[0]).copy()


def _np_roll(node, args, kw):
    _only(kw, (), 'np.roll')
    a = _need_arr(args[0])
    if len(args) != 2 or a.ndim != 1 or not _is_int(args[1]):
        raise Unsupported('np.roll')
    n, v = a.size, a.values()
    return NArr.fresh(a.shape, [v[(i - args[1]) % n] for i in range(n)],
                      a.kind) if n else a.copy()


def _np_flip(node, args, kw):
    _only(kw, (), 'np.flip')
    a = _need_arr(args[0])
    if len(args) != 1 or a.ndim != 1:
        raise Unsupported('np.flip')
    return a.get(slice(None, None, -1), node).copy()


def _np_clip(node, args, kw):
    _only(kw, (), 'np.clip')
    if len(args) != 3:
        raise Raised(node)
    lo = _np_minmax(max)(node, [args[0], args[1]], {}) \
        if args[1] is not None else args[0]
    return _np_minmax(min)(node, [lo, args[2]], {}) \
        if args[2] is not None else lo


def _np_isin(node, args, kw):
    _only(kw, (), 'np.isin')
    a, b = _as_array(args[0]), _need_arr(args[1])
    bv = set(_finite(b.values(), 'isin'))
    if isinstance(a, NArr):
        return NArr.fresh(a.shape, [v in bv for v in a.values()], 'b')
    return _num(a) in bv


NP_MODELS = {
    'zeros': _filled(0), 'ones': _filled(1), 'empty': _filled(UNSET),
    'zeros_like': _like(0), 'ones_like': _like(1),
    'identity': _np_identity, 'eye': _np_identity,
    'array': _np_array(True), 'asarray': _np_array(False),
    'copy': _np_copy, 'count_nonzero': _np_count_nonzero,
    'searchsorted': _np_searchsorted, 'array_equal': _np_array_equal,
    'sum': _reduce(_r_sum, 'np.sum'), 'min': _reduce(_r_min, 'np.min'),
    'max': _reduce(_r_max, 'np.max'), 'amin': _reduce(_r_min, 'np.amin'),
    'amax': _reduce(_r_max, 'np.amax'), 'any': _reduce(_r_any, 'np.any'),
    'all': _reduce(_r_all, 'np.all'), 'cumsum': _np_cumsum, 'diff': _np_diff,
    'minimum': _np_minmax(min), 'maximum': _np_minmax(max),
    'fmin': _np_minmax(min), 'fmax': _np_minmax(max),
    'abs': _np_abs, 'absolute': _np_abs, 'fabs': _np_abs,
    'where': _np_where, 'nonzero': _np_nonzero,
    'flatnonzero': _np_flatnonzero, 'arange': _np_arange,
    'concatenate': _np_concatenate, 'append': _np_append,
    'hstack': _np_hstack, 'vstack': _np_vstack,
    'transpose': _np_transpose, 'diag': _np_diag, 'dot': _np_dot,
    'matmul': _np_dot, 'outer': _np_outer, 'roll': _np_roll,
    'flip': _np_flip, 'clip': _np_clip, 'isin': _np_isin,
    'add': _binary(ast.Add()), 'subtract': _binary(ast.Sub()),
    'multiply': _binary(ast.Mult()), 'divide': _binary(ast.Div()),
    'true_divide': _binary(ast.Div()),
}
# models that need the interpreter (they record what they were asked)
NP_MODELS_I = {'allclose': _np_allclose, 'isclose': _np_isclose}
NP_DTYPES = {'float64': 'f', 'double': 'f', 'float_': 'f', 'longdouble': None,
             'int64': 'i', 'int32': 'i', 'intp': 'i', 'int_': 'i',
             'bool_': 'b'}


def _binop(op, a, b, node=None):
    if isinstance(op, ast.MatMult):
        return _matmul(a, b, node)
    if isinstance(a, NArr) or isinstance(b, NArr):
        if isinstance(op, (ast.BitAnd, ast.BitOr)):
            g = (lambda x, y: bool(x) and bool(y)) if isinstance(
                op, ast.BitAnd) else (lambda x, y: bool(x) or bool(y))
            for x in (a, b):
                if not (isinstance(x, NArr) and x.kind == 'b') and \
                        not isinstance(x, bool):
                    raise Unsupported('bitwise operator on non-booleans')
            return _elementwise(g, a, b, node)
        return _elementwise(lambda x, y: _scalar_arith(op, x, y, node, True),
                            a, b, node)
    if isinstance(op, ast.Add) and type(a) is type(b) and \
            isinstance(a, (list, tuple, str)):
        return a + b
    if isinstance(op, ast.Mult) and isinstance(a, (list, tuple)) and \
            _is_int(b):
        return a * b
    if isinstance(op, ast.Mult) and isinstance(b, (list, tuple)) and \
            _is_int(a):
        return b * a
    if isinstance(a, str) or isinstance(b, str):
        raise Unsupported('string operation')
    return _scalar_arith(op, a, b, node)


def _iterate(v, node=None):
    """python iteration over a model value (lazily for arrays)"""
    if isinstance(v, NArr):
        if not v.shape:
            raise Raised(node)
        return (v.get(i, node) for i in range(v.shape[0]))
    if isinstance(v, (list, tuple, str)):
        return iter(v)
    if isinstance(v, dict):
        return iter(list(v))
    if isinstance(v, range):
        return iter(v)
    if hasattr(v, '__next__'):
        return v                        # one-shot, as in the language
    raise Raised(node)                  # not iterable


def _b_minmax(pick):
    def f(node, args, kw):
        _only(kw, (), 'min/max')
        if len(args) == 1:
            vals = list(_iterate(args[0], node))
        else:
            vals = list(args)
        if not vals:
            raise Raised(node)
        if any(isinstance(v, NArr) and v.size != 1 for v in vals):
            raise Raised(node)          # truth value of an array
        vals = [v.values()[0] if isinstance(v, NArr) else _num(v)
                for v in vals]
        return pick(_finite(vals, 'min/max'))
    return f


def _b_sum(node, args, kw):
    _only(kw, (), 'sum')
    if not 1 <= len(args) <= 2:
        raise Raised(node)
    t = args[1] if len(args) == 2 else 0
    for v in _iterate(args[0], node):
        t = _binop(ast.Add(), t, v, node)
    return t


def _b_int(node, args, kw):
    _only(kw, (), 'int')
    v = _num(args[0]) if len(args) == 1 else None
    if isinstance(v, NArr) and v.size == 1:
        v = v.values()[0]
    if not isinstance(v, NUM):
        raise Unsupported('int(%r)' % (v,))
    return int(v)


def _b_float(node, args, kw):
    _only(kw, (), 'float')
    v = _num(args[0]) if len(args) == 1 else None
    if isinstance(v, NArr) and v.size == 1:
        v = v.values()[0]
    if v is NONFINITE:
        return v
    if not isinstance(v, NUM):
        raise Unsupported('float(%r)' % (v,))
    return Fraction(int(v)) if isinstance(v, int) else v


def _b_len(node, args, kw):
    v = args[0] if len(args) == 1 else None
    if isinstance(v, NArr):
        if not v.shape:
            raise Raised(node)
        return v.shape[0]
    if isinstance(v, (list, tuple, dict, str, range)):
        return len(v)
    raise Raised(node)


def _b_range(node, args, kw):
    if not 1 <= len(args) <= 3 or not all(_is_int(a) for a in args) or kw:
        raise Raised(node)              # e.g. a float bound
    return range(*args)


def _b_enumerate(node, args, kw):
    _only(kw, ('start',), 'enumerate')
    start = kw.get('start', args[1] if len(args) == 2 else 0)
    if not _is_int(start) or not 1 <= len(args) <= 2:
        raise Raised(node)
    return ((i, v) for i, v in enumerate(_iterate(args[0], node), start))


def _b_zip(node, args, kw):
    _only(kw, (), 'zip')
    return zip(*[_iterate(a, node) for a in args])


def _b_abs(node, args, kw):
    return _np_abs(node, args, kw)


def _b_bool(node, args, kw):
    return _truth(args[0], node) if args else False


def _b_any(node, args, kw):
    return any(_truth(v, node) for v in _iterate(args[0], node))


def _b_all(node, args, kw):
    return all(_truth(v, node) for v in _iterate(args[0], node))


def _b_sorted(node, args, kw):
    _only(kw, ('reverse',), 'sorted')
    vals = [_num(v) for v in _iterate(args[0], node)]
    if any(not isinstance(v, NUM) for v in vals):
        raise Unsupported('sorted of non-numbers')
    return sorted(vals, reverse=bool(kw.get('reverse', False)))


def _b_slice(node, args, kw):
    if not 1 <= len(args) <= 3 or kw:
        raise Raised(node)
    return slice(*args)


def _b_divmod(node, args, kw):
    return (_scalar_arith(ast.FloorDiv(), args[0], args[1], node),
            _scalar_arith(ast.Mod(), args[0], args[1], node))


BUILTINS = {
    'len': _b_len, 'range': _b_range, 'enumerate': _b_enumerate,
    'zip': _b_zip, 'min': _b_minmax(min), 'max': _b_minmax(max),
    'sum': _b_sum, 'abs': _b_abs, 'int': _b_int, 'float': _b_float,
    'bool': _b_bool, 'any': _b_any, 'all': _b_all, 'sorted': _b_sorted,
    'slice': _b_slice, 'divmod': _b_divmod,
    'list': lambda node, args, kw: list(_iterate(args[0], node))
    if args else [],
    'tuple': lambda node, args, kw: tuple(_iterate(args[0], node))
    if args else (),
    'reversed': lambda node, args, kw: iter(list(reversed(list(
        _iterate(args[0], node))))),
    'print': lambda node, args, kw: None,
}


def _truth(v, node=None):
    if isinstance(v, NArr):
        if v.size != 1:
            raise Raised(node)          # truth value of an array is ambiguous
        v = v.values()[0]
    if v is NONFINITE or v is UNSET:
        raise Unsupported('decision on a non-finite / uninitialised value')
    if isinstance(v, (_NpModule, _NpFunc, Func, DType)):
        return True
    if hasattr(v, '__next__'):
        return True
    return bool(v)


class _NpModule:
    def __repr__(self):
        return '<numpy>'


class _NpFunc:
    def __init__(self, name):
        self.name = name

    def __repr__(self):
        return 'np.%s' % self.name


class _Builtin:
    def __init__(self, name):
        self.name = name


class _Method:
    def __init__(self, recv, attr):
        self.recv, self.attr = recv, attr


class Func:
    """a function of the analysed module / a closure / a lambda"""
    def __init__(self, node, env):
        self.node, self.env = node, env


def _arr_method(I, a, attr, node, args, kw):
    if attr in ('sum', 'min', 'max', 'any', 'all', 'cumsum'):
        return NP_MODELS[attr](node, [a] + list(args), kw)
    if attr == 'copy' and not args:
        _only(kw, (), '.copy')
        return a.copy()
    contiguous = a.pos == list(range(a.pos[0], a.pos[0] + a.size)) \
        if a.size else True
    if attr == 'flatten' and not args and not kw:
        return NArr.fresh((a.size,), a.values(), a.kind)
    if attr == 'ravel' and not args and not kw:
        if contiguous:                  # a view, as in NumPy
            return NArr((a.size,), a.store, a.pos, a.kind)
        return NArr.fresh((a.size,), a.values(), a.kind)
    if attr == 'transpose' and not args and not kw:
        return a.transpose()
    if attr == 'tolist' and not args and not kw:
        def rec(x):
            return [rec(y) if isinstance(y, NArr) else y for y in x.items()]
        return rec(a) if a.shape else a.values()[0]
    if attr == 'item' and not args and not kw:
        if a.size != 1:
            raise Raised(node)
        return a.values()[0]
    if attr == 'fill' and len(args) == 1 and not kw:
        a.assign(_num(args[0]), node)
        return None
    if attr == 'dot' and len(args) == 1 and not kw:
        return _matmul(a, args[0], node)
    if attr == 'nonzero' and not args and not kw:
        return _np_nonzero(node, [a], {})
    if attr == 'astype' and len(args) == 1 and not kw:
        k = _dtype_kind({'dtype': args[0]}, '.astype')
        if k == a.kind:
            return a.copy()
        if k == 'f':
            return NArr.fresh(a.shape, a.values(), 'f')
        raise Unsupported('.astype to a narrower type')
    if attr == 'reshape':
        _only(kw, (), '.reshape')
        shape = args[0] if len(args) == 1 and isinstance(
            args[0], (tuple, list)) else tuple(args)
        if not shape or not all(_is_int(k) for k in shape) or \
                sum(1 for k in shape if k == -1) > 1:
            raise Raised(node)
        shape = list(shape)
        if -1 in shape:
            rest = _prod([k for k in shape if k != -1])
            if rest == 0 or a.size % rest:
                raise Raised(node)
            shape[shape.index(-1)] = a.size // rest
        if _prod(shape) != a.size or any(k < 0 for k in shape):
            raise Raised(node)
        if contiguous:                  # a view, as in NumPy
            return NArr(tuple(shape), a.store, a.pos, a.kind)
        return NArr.fresh(tuple(shape), a.values(), a.kind)
    raise Unsupported('no model of the array method .%s' % attr)


class Env(dict):
    def __init__(self, parent=None):
        dict.__init__(self)
        self.parent = parent

    locals_ = ()

    def lookup(self, name):
        """-> (True, value) | (False, None) | (None, None) for a local of
        a function that is not bound yet (UnboundLocalError)"""
        e = self
        while e is not None:
            if name in e:
                return True, e[name]
            if name in e.locals_:
                return None, None
            e = e.parent
        return False, None


def _assigned_names(fnode):
    out = set()
    for n in ast.walk(fnode):
        if isinstance(n, ast.Name) and isinstance(n.ctx, (ast.Store,
                                                           ast.Del)):
            out.add(n.id)
        elif isinstance(n, (ast.FunctionDef, ast.ClassDef)) and \
                n is not fnode:
            out.add(n.name)
    return out


class Interp:
    """Evaluator of the module's functions on model values (never runs
    repository code)."""

    def __init__(self, tree, fuel=3000000):
        self.fuel = fuel
        self.funcs, self.consts, self.np_names, self.np_members = \
            {}, {}, set(), {}
        self._const_cache = {}
        self._facts = {}
        self.tolerances = []         # allclose / isclose with own tolerances
        self.cur = self.last = None
        self.depth = 0
        for st in tree.body:
            if isinstance(st, ast.FunctionDef):
                self.funcs[st.name] = st
            elif isinstance(st, ast.Import):
                for a in st.names:
                    if a.name == 'numpy':
                        self.np_names.add(a.asname or 'numpy')
            elif isinstance(st, ast.ImportFrom) and st.module == 'numpy' \
                    and not st.level:
                for a in st.names:
                    self.np_members[a.asname or a.name] = a.name
            elif isinstance(st, ast.Assign):
                for t in st.targets:
                    if isinstance(t, ast.Name):
                        self.consts[t.id] = st.value

    def tick(self):
        self.fuel -= 1
        if self.fuel < 0:
            raise Unsupported('evaluation budget exhausted')

    # -- names --
    def name(self, n, env):
        found, v = env.lookup(n.id)
        if found:
            return v
        if found is None:
            raise Raised(n)             # UnboundLocalError
        if n.id in self.funcs:
            return Func(self.funcs[n.id], None)
        if n.id in self.consts:
            if n.id not in self._const_cache:
                self._const_cache[n.id] = self.ev(self.consts[n.id], Env())
            v = self._const_cache[n.id]
            if isinstance(v, (NArr, list, dict)):
                raise Unsupported('module-level mutable `%s`' % n.id)
            return v
        if n.id in self.np_names:
            return _NpModule()
        if n.id in self.np_members:
            return self.np_attr(self.np_members[n.id], n)
        if n.id in BUILTINS:
            return _Builtin(n.id)
        if n.id in ('float', 'int', 'bool'):
            return DType({'float': 'f', 'int': 'i', 'bool': 'b'}[n.id])
        raise Unsupported('unknown name `%s`' % n.id)

    def np_attr(self, attr, node):
        if attr == 'newaxis':
            return None
        if attr in NP_DTYPES:
            if NP_DTYPES[attr] is None:
                raise Unsupported('dtype np.%s' % attr)
            return DType(NP_DTYPES[attr])
        if attr in NP_MODELS or attr in NP_MODELS_I:
            return _NpFunc(attr)
        raise Unsupported('no model of np.%s' % attr)

    # -- expressions --
    def ev(self, n, env):
        self.tick()
        if isinstance(n, ast.Constant):
            if isinstance(n.value, (bytes, complex)):
                raise Unsupported('constant %r' % (n.value,))
            return _num(n.value)
        if isinstance(n, ast.Name):
            return self.name(n, env)
        if isinstance(n, ast.Tuple):
            return tuple(self.elts(n.elts, env))
        if isinstance(n, ast.List):
            return self.elts(n.elts, env)
        if isinstance(n, ast.BinOp):
            return _binop(n.op, self.ev(n.left, env), self.ev(n.right, env),
                          n)
        if isinstance(n, ast.UnaryOp):
            v = self.ev(n.operand, env)
            if isinstance(n.op, ast.Not):
                return not _truth(v, n)
            if isinstance(n.op, ast.USub):
                return _binop(ast.Sub(), 0, v, n)
            if isinstance(n.op, ast.UAdd):
                return v
            if isinstance(n.op, ast.Invert):
                if isinstance(v, NArr) and v.kind == 'b':
                    return NArr.fresh(v.shape, [not x for x in v.values()],
                                      'b')
                raise Unsupported('~ on a non-boolean')
        if isinstance(n, ast.BoolOp):
            res = None
            for x in n.values:
                res = self.ev(x, env)
                t = _truth(res, n)
                if isinstance(n.op, ast.And) and not t:
                    return res
                if isinstance(n.op, ast.Or) and t:
                    return res
            return res
        if isinstance(n, ast.Compare):
            left = self.ev(n.left, env)
            res = True
            for k, (op, c) in enumerate(zip(n.ops, n.comparators)):
                right = self.ev(c, env)
                res = self.compare(op, left, right, n)
                if k < len(n.ops) - 1 and not _truth(res, n):
                    return res
                left = right
            return res
        if isinstance(n, ast.IfExp):
            return self.ev(n.body if _truth(self.ev(n.test, env), n)
                           else n.orelse, env)
        if isinstance(n, ast.Subscript):
            base = self.ev(n.value, env)
            key = self.ev(n.slice, env)
            return self.getitem(base, key, n)
        if isinstance(n, ast.Slice):
            return slice(*[None if x is None else self.ev(x, env)
                           for x in (n.lower, n.upper, n.step)])
        if isinstance(n, ast.Attribute):
            return self.attribute(self.ev(n.value, env), n.attr, n)
        if isinstance(n, ast.Call):
            return self.call(n, env)
        if isinstance(n, (ast.ListComp, ast.GeneratorExp)):
            out = self.comp(n, env)
            return out if isinstance(n, ast.ListComp) else iter(out)
        if isinstance(n, ast.Lambda):
            return Func(n, env)
        if isinstance(n, ast.JoinedStr):
            return '<text>'
        if isinstance(n, ast.Dict):
            if any(k is None for k in n.keys):
                raise Unsupported('** in a dict display')
            return {self.hashable(self.ev(k, env)): self.ev(v, env)
                    for k, v in zip(n.keys, n.values)}
        if isinstance(n, ast.Starred):
            raise Unsupported('starred expression')
        raise Unsupported('expression %s' % type(n).__name__)

    def elts(self, elts, env):
        out = []
        for e in elts:
            if isinstance(e, ast.Starred):
                out += list(_iterate(self.ev(e.value, env), e))
            else:
                out.append(self.ev(e, env))
        return out

    @staticmethod
    def hashable(v):
        if isinstance(v, (NArr, list, dict)):
            raise Unsupported('unhashable key')
        return v

    def comp(self, n, env):
        out = []
        scope = Env(env)

        def rec(k):
            if k == len(n.generators):
                out.append(self.ev(n.elt, scope))
                return
            gen = n.generators[k]
            if gen.is_async:
                raise Unsupported('async comprehension')
            for v in _iterate(self.ev(gen.iter, scope if k else env), n):
                self.tick()
                self.bind(gen.target, v, scope)
                if all(_truth(self.ev(c, scope), n) for c in gen.ifs):
                    rec(k + 1)
        rec(0)
        return out

    def compare(self, op, a, b, node):
        if isinstance(op, (ast.Is, ast.IsNot)):
            r = a is b or (a is None and b is None) or (
                isinstance(a, bool) and isinstance(b, bool) and a == b)
            return r if isinstance(op, ast.Is) else not r
        if isinstance(op, (ast.In, ast.NotIn)):
            if isinstance(b, NArr):
                r = _num(a) in _finite(b.values(), 'membership')
            elif isinstance(b, (list, tuple, dict, range)):
                if isinstance(a, NArr):
                    raise Unsupported('array in a sequence')
                r = a in b
            elif isinstance(b, str) and isinstance(a, str):
                r = a in b
            else:
                raise Unsupported('membership in %r' % (b,))
            return r if isinstance(op, ast.In) else not r
        if isinstance(a, NArr) or isinstance(b, NArr):
            if isinstance(a, (list, tuple)) or isinstance(b, (list, tuple)):
                a, b = _as_array(a), _as_array(b)
            if a is None or b is None or isinstance(a, str) or \
                    isinstance(b, str):
                raise Unsupported('comparison of an array with %r'
                                  % (b if isinstance(a, NArr) else a,))
            return _elementwise(lambda x, y: self.compare(op, x, y, node),
                                a, b, node)
        for v in (a, b):
            if v is NONFINITE or v is UNSET:
                raise Unsupported('comparison with a non-finite / '
                                  'uninitialised value')
        if isinstance(op, ast.Eq):
            return self.equal(a, b)
        if isinstance(op, ast.NotEq):
            return not self.equal(a, b)
        if not (isinstance(a, NUM) and isinstance(b, NUM)) and not (
                isinstance(a, (tuple, list)) and type(a) is type(b) and all(
                    isinstance(x, NUM) for x in tuple(a) + tuple(b))) and \
                not (isinstance(a, str) and isinstance(b, str)):
            raise Unsupported('ordering of %r and %r' % (a, b))
        if isinstance(op, ast.Lt):
            return a < b
        if isinstance(op, ast.LtE):
            return a <= b
        if isinstance(op, ast.Gt):
            return a > b
        if isinstance(op, ast.GtE):
            return a >= b
        raise Unsupported('comparison operator')

    def equal(self, a, b):
        if isinstance(a, (tuple, list)) and type(a) is type(b):
            return len(a) == len(b) and all(
                _truth(self.compare(ast.Eq(), x, y, None))
                for x, y in zip(a, b))
        if isinstance(a, (tuple, list)) or isinstance(b, (tuple, list)):
            return False
        if isinstance(a, (NUM, str, type(None))) and \
                isinstance(b, (NUM, str, type(None))):
            return a == b
        raise Unsupported('equality of %r and %r' % (a, b))

    def getitem(self, base, key, node):
        if isinstance(base, NArr):
            return base.get(key, node)
        if isinstance(base, (list, tuple, str, range)):
            if isinstance(key, slice):
                if not all(p is None or _is_int(p)
                           for p in (key.start, key.stop, key.step)):
                    raise Raised(node)
                return base[key]
            if not _is_int(key):
                raise Raised(node)
            try:
                return base[key]
            except IndexError:
                raise Raised(node)
        if isinstance(base, dict):
            try:
                return base[self.hashable(key)]
            except KeyError:
                raise Raised(node)
        if isinstance(base, NUM):
            raise Raised(node)          # a scalar is not subscriptable
        raise Unsupported('subscript of %r' % (base,))

    def attribute(self, base, attr, node):
        if isinstance(base, _NpModule):
            return self.np_attr(attr, node)
        if isinstance(base, NArr):
            if attr == 'shape':
                return base.shape
            if attr == 'size':
                return base.size
            if attr == 'ndim':
                return base.ndim
            if attr == 'T':
                return base.transpose()
            return _Method(base, attr)
        if isinstance(base, (list, dict)):
            return _Method(base, attr)
        raise Unsupported('attribute .%s of %r' % (attr, base))

    # -- calls --
    def call(self, n, env):
        f = self.ev(n.func, env)
        args = self.elts(n.args, env)
        kw = {}
        for k in n.keywords:
            if k.arg is None:
                raise Unsupported('** in a call')
            kw[k.arg] = self.ev(k.value, env)
        return self.apply(f, args, kw, n)

    def apply(self, f, args, kw, n):
        if isinstance(f, _NpFunc):
            if f.name in NP_MODELS_I:
                return NP_MODELS_I[f.name](self, n, args, kw)
            return NP_MODELS[f.name](n, args, kw)
        if isinstance(f, _Builtin):
            if f.name in ('any', 'all', 'len', 'bool', 'list', 'tuple',
                          'reversed', 'abs', 'divmod') and kw:
                raise Raised(n)
            return BUILTINS[f.name](n, args, kw)
        if isinstance(f, DType):
            if len(args) == 1 and not kw:
                return BUILTINS[{'f': 'float', 'i': 'int',
                                 'b': 'bool'}[f.kind]](n, args, kw)
            raise Raised(n)
        if isinstance(f, Func):
            return self.call_user(f, args, kw, n)
        if isinstance(f, _Method):
            r = f.recv
            if isinstance(r, NArr):
                return _arr_method(self, r, f.attr, n, args, kw)
            if kw:
                raise Unsupported('keyword argument of .%s' % f.attr)
            if isinstance(r, list):
                if f.attr == 'append' and len(args) == 1:
                    r.append(args[0])
                    return None
                if f.attr == 'extend' and len(args) == 1:
                    r.extend(list(_iterate(args[0], n)))
                    return None
                if f.attr == 'insert' and len(args) == 2 and \
                        _is_int(args[0]):
                    r.insert(args[0], args[1])
                    return None
                if f.attr == 'pop' and len(args) <= 1 and all(
                        _is_int(a) for a in args):
                    try:
                        return r.pop(*args)
                    except IndexError:
                        raise Raised(n)
                if f.attr == 'reverse' and not args:
                    r.reverse()
                    return None
                if f.attr == 'copy' and not args:
                    return list(r)
            if isinstance(r, dict):
                if f.attr == 'get' and 1 <= len(args) <= 2:
                    return r.get(self.hashable(args[0]),
                                 args[1] if len(args) == 2 else None)
                if f.attr in ('keys', 'values', 'items') and not args:
                    return list(getattr(r, f.attr)())
            raise Unsupported('no model of the method .%s' % f.attr)
        raise Unsupported('call of %r' % (f,))

    def call_user(self, f, args, kw, node):
        self.depth += 1
        if self.depth > 12:
            raise Unsupported('call depth')
        fn = f.node
        a = fn.args
        if a.vararg or a.kwarg or a.kwonlyargs:
            raise Unsupported('signature of %s' % getattr(fn, 'name',
                                                          'lambda'))
        if getattr(fn, 'decorator_list', None):
            raise Unsupported('decorated function %s' % fn.name)
        params = [x.arg for x in a.posonlyargs + a.args]
        if len(args) > len(params):
            raise Raised(node)
        env = Env(f.env)
        for p, v in zip(params, args):
            env[p] = v
        for k, v in kw.items():
            if k not in params or k in env or k in [
                    x.arg for x in a.posonlyargs]:
                raise Raised(node)
            env[k] = v
        defaults = dict(zip(params[len(params) - len(a.defaults):],
                            a.defaults))
        for p in params:
            if p not in env:
                if p not in defaults:
                    raise Raised(node)
                env[p] = self.ev(defaults[p], Env(f.env))
        saved = self.cur
        try:
            if isinstance(fn, ast.Lambda):
                return self.ev(fn.body, env)
            if id(fn) not in self._facts:
                self._facts[id(fn)] = (fn, _assigned_names(fn), any(
                    isinstance(st, (ast.Yield, ast.YieldFrom, ast.Await))
                    for st in ast.walk(fn)))
            _, env.locals_, gen = self._facts[id(fn)]
            if gen:
                raise Unsupported('generator function %s' % fn.name)
            try:
                self.block(fn.body, env)
            except _Return as r:
                return r.value
            return None
        finally:
            self.depth -= 1
            self.cur = saved

    # -- statements --
    def bind(self, tgt, val, env):
        if isinstance(tgt, ast.Name):
            env[tgt.id] = val
        elif isinstance(tgt, (ast.Tuple, ast.List)):
            if any(isinstance(e, ast.Starred) for e in tgt.elts):
                raise Unsupported('starred assignment target')
            vals = list(_iterate(val, tgt))
            if len(vals) != len(tgt.elts):
                raise Raised(tgt)
            for e, v in zip(tgt.elts, vals):
                self.bind(e, v, env)
        elif isinstance(tgt, ast.Subscript):
            base = self.ev(tgt.value, env)
            key = self.ev(tgt.slice, env)
            self.setitem(base, key, val, tgt)
        else:
            raise Unsupported('assignment target %s' % type(tgt).__name__)

    def setitem(self, base, key, val, node):
        if isinstance(base, NArr):
            if hasattr(val, '__next__'):
                raise Unsupported('an iterator is stored into an array')
            base.set(key, val, node)
        elif isinstance(base, list):
            if isinstance(key, slice):
                base[key] = list(_iterate(val, node))
            elif _is_int(key):
                try:
                    base[key] = val
                except IndexError:
                    raise Raised(node)
            else:
                raise Raised(node)
        elif isinstance(base, dict):
            base[self.hashable(key)] = val
        elif isinstance(base, tuple):
            raise Raised(node)
        else:
            raise Unsupported('store into %r' % (base,))

    def block(self, body, env):
        for st in body:
            self.stmt(st, env)

    def stmt(self, st, env):
        self.tick()
        self.cur = self.last = st
        if isinstance(st, ast.Assign):
            v = self.ev(st.value, env)
            if len(st.targets) > 1 and hasattr(v, '__next__'):
                raise Unsupported('an iterator bound to several targets')
            for t in st.targets:
                self.bind(t, v, env)
        elif isinstance(st, ast.AnnAssign):
            if st.value is not None:
                self.bind(st.target, self.ev(st.value, env), env)
        elif isinstance(st, ast.AugAssign):
            self.augassign(st, env)
        elif isinstance(st, ast.Expr):
            if not isinstance(st.value, ast.Constant):
                self.ev(st.value, env)
        elif isinstance(st, ast.If):
            self.block(st.body if _truth(self.ev(st.test, env), st.test)
                       else st.orelse, env)
        elif isinstance(st, ast.For):
            broke = False
            for v in _iterate(self.ev(st.iter, env), st.iter):
                self.tick()
                self.bind(st.target, v, env)
                try:
                    self.block(st.body, env)
                except _Continue:
                    continue
                except _Break:
                    broke = True
                    break
            if not broke:
                self.block(st.orelse, env)
        elif isinstance(st, ast.While):
            broke = False
            while _truth(self.ev(st.test, env), st.test):
                self.tick()
                try:
                    self.block(st.body, env)
                except _Continue:
                    continue
                except _Break:
                    broke = True
                    break
            if not broke:
                self.block(st.orelse, env)
        elif isinstance(st, ast.Return):
            raise _Return(None if st.value is None
                          else self.ev(st.value, env))
        elif isinstance(st, ast.Raise):
            raise Raised(st)
        elif isinstance(st, ast.Assert):
            if not _truth(self.ev(st.test, env), st.test):
                raise Raised(st)
        elif isinstance(st, ast.Pass):
            pass
        elif isinstance(st, ast.Break):
            raise _Break()
        elif isinstance(st, ast.Continue):
            raise _Continue()
        elif isinstance(st, ast.FunctionDef):
            env[st.name] = Func(st, env)
        elif isinstance(st, ast.Delete):
            for t in st.targets:
                if isinstance(t, ast.Name) and t.id in env:
                    del env[t.id]
                else:
                    raise Unsupported('del %s' % _s(t))
        else:
            raise Unsupported('statement %s' % type(st).__name__)

    def augassign(self, st, env):
        t = st.target
        if isinstance(t, ast.Name):
            old = self.name(ast.Name(id=t.id, ctx=ast.Load()), env)
            val = self.ev(st.value, env)
            if isinstance(old, NArr):
                new = _binop(st.op, old, val, st)
                if not isinstance(new, NArr) or new.shape != old.shape:
                    raise Raised(st)    # the result does not fit in place
                old.assign(new, st)
                if t.id not in env:
                    env[t.id] = old
            elif isinstance(old, list) and isinstance(st.op, ast.Add):
                old.extend(list(_iterate(val, st)))
                if t.id not in env:
                    env[t.id] = old
            else:
                env[t.id] = _binop(st.op, old, val, st)
        elif isinstance(t, ast.Subscript):
            base = self.ev(t.value, env)
            key = self.ev(t.slice, env)
            old = self.getitem(base, key, t)
            val = self.ev(st.value, env)
            if isinstance(old, NArr) and isinstance(base, NArr):
                new = _binop(st.op, old, val, st)
                if not isinstance(new, NArr) or new.shape != old.shape:
                    raise Raised(st)
                if base.kind == 'i' and new.kind == 'f':
                    raise Raised(st)
                self.setitem(base, key, new, t)
            else:
                if isinstance(base, NArr) and base.kind == 'i':
                    new = _binop(st.op, old, val, st)
                    if isinstance(new, Fraction):
                        raise Raised(st)
                    self.setitem(base, key, new, t)
                else:
                    self.setitem(base, key, _binop(st.op, old, val, st), t)
        else:
            raise Unsupported('augmented assignment target')


# ---------------------------------------------------------------------------
# model mesh pairs (trusted base: the boundary conventions of the producers)

MM = Fraction(1, 1000)          # lengths in metres, as in the package
L_SIDE = 120 * MM               # hexagon side (outer face of the duct)
PERIM = 6 * L_SIDE

# side kind -> (cells along the side, their pitch); the corner half-length
# follows from count * pitch + 2 * corner = side (C09.R4 / C10.R4)
SIDE_KINDS = {
    'corner-only': (0, Fraction(0)),
    'n1': (1, 40 * MM),
    'n2': (2, 30 * MM),
    'n2-wide': (2, 36 * MM),
    'n2-narrow': (2, 25 * MM),
    'n3': (3, 24 * MM),
    'n3-wide': (3, 28 * MM),
    'n4': (4, 20 * MM),
    'n5': (5, 17 * MM),
    'n7': (7, 13 * MM),
}
QUICK_KINDS = ['corner-only', 'n1', 'n2', 'n2-wide', 'n2-narrow', 'n3',
               'n3-wide', 'n4']
MIX_QUICK = [('n2', 'n3'), ('n1', 'n2-narrow'), ('n3-wide', 'n2-wide'),
             ('corner-only', 'n2')]
MIX_MORE = [('n4', 'n5'), ('n7', 'n3'), ('n2-narrow', 'n2-wide'),
            ('n5', 'n1')]
PATTERNS = {'alternating': 'ababab', 'side 0 differs': 'baaaaa',
            'side 5 differs': 'aaaaab', 'middle sides differ': 'aabbaa'}


def corner(kind):
    n, p = SIDE_KINDS[kind]
    return (L_SIDE - n * p) / 2


def walk(kinds):
    """Boundaries met walking round the hexagon from the middle of the top
    corner: on side s the first one lies a corner half-length after the
    vertex, then one per cell (RoddedRegion.calculate_xbnds with the same
    kind on all sides -- unrodded: kind `corner-only`, boundaries at the
    side midpoints --; Core._calculate_gap_xbnds with the kind of the finer
    neighbour on each side).  -> [0, ..., perimeter]"""
    out = [Fraction(0)]
    for s, k in enumerate(kinds):
        n, p = SIDE_KINDS[k]
        x = s * L_SIDE + corner(k)
        out.append(x)
        for _ in range(n):
            x = x + p
            out.append(x)
    out.append(PERIM)
    return out


class Pair:
    def __init__(self, duct_kind, gap_kinds, pad, text, shift=None):
        self.text = text
        self.duct = walk([duct_kind] * 6)
        g = walk(gap_kinds)
        if shift is not None:
            g = [x + shift(i) if 0 < i < len(g) - 1 else x
                 for i, x in enumerate(g)]
        self.gap = g                      # closed: 0 ... perimeter
        self.row = g[1:-1] + [Fraction(0)] * pad
        self.width = len(self.row)
        self.asym = corner(gap_kinds[0]) != corner(gap_kinds[5])
        self.close = len(self.duct) == len(self.gap) and all(
            _close(a, b, RTOL, ATOL) for a, b in zip(self.gap, self.duct))
        self.exact = self.duct == self.gap
        self.pad = pad

    def overlaps(self):
        """m x q matrix of |duct cell i ^ gap cell j| over the SPLIT cells
        (both halves of either top corner are cells of their own)"""
        d, g = self.duct, self.gap
        m, q = len(d) - 1, len(g) - 1
        O = [[_ZERO] * q for _ in range(m)]
        for i in range(m):
            for j in range(q):
                if g[j + 1] <= d[i]:
                    continue
                if g[j] >= d[i + 1]:
                    break
                O[i][j] = min(d[i + 1], g[j + 1]) - max(d[i], g[j])
        return O

    @staticmethod
    def fold(A):
        A = [list(r) for r in A]
        A[-1] = [x + y for x, y in zip(A[-1], A[0])]
        for r in A:
            r[-1] = r[-1] + r[0]
        A[-1] = [x / 2 for x in A[-1]]
        return [r[1:] for r in A[1:]]

    def expected(self):
        """-> (F, C) unpadded: gap->duct (m-1 x q-1), duct->gap (q-1 x m-1)"""
        d, g = self.duct, self.gap
        m, q = len(d) - 1, len(g) - 1
        if self.close:
            if m != q:
                raise AnalysisError('C10.R7: model pair')
            eye = [[Fraction(int(i == j)) for j in range(m - 1)]
                   for i in range(m - 1)]
            return eye, [list(r) for r in eye]
        O = self.overlaps()
        wd = [d[i + 1] - d[i] for i in range(m)]
        wg = [g[j + 1] - g[j] for j in range(q)]
        A = [[O[i][j] / wd[i] if O[i][j] else _ZERO for j in range(q)]
             for i in range(m)]
        B = [[O[i][j] / wg[j] if O[i][j] else _ZERO for i in range(m)]
             for j in range(q)]
        F, C = self.fold(A), self.fold(B)
        self._selfcheck(F, C)
        return F, C

    def _selfcheck(self, F, C):
        """the specification agrees with the geometry it stands for"""
        for M in (F, C):
            if any(sum(x for x in r if x) != 1 for r in M) or any(
                    x < 0 for r in M for x in r if x):
                raise AnalysisError('C10.R7: the expected map of a model '
                                    'pair is not a partition of unity (%s)'
                                    % self.text)
        if self.asym:
            return
        d, g = self.duct, self.gap
        # merged cells: index k = cell k + 1, the last one the re-joined
        # top corner (two intervals)
        def cells(x):
            c = [[(x[k], x[k + 1])] for k in range(1, len(x) - 2)]
            return c + [[(x[-2], x[-1]), (x[0], x[1])]]
        dc, gc = cells(d), cells(g)
        ov = lambda a, b: sum((max(Fraction(0), min(p[1], q[1])
                                   - max(p[0], q[0]))
                               for p in a for q in b), Fraction(0))
        wd = [sum(p[1] - p[0] for p in a) for a in dc]
        wg = [sum(p[1] - p[0] for p in b) for b in gc]
        for i, a in enumerate(dc):
            for j, b in enumerate(gc):
                if not F[i][j] and not C[j][i] and (
                        a[-1][1] <= b[0][0] or b[-1][1] <= a[0][0]):
                    continue            # disjoint single intervals
                o = ov(a, b)
                if F[i][j] != o / wd[i] or C[j][i] != o / wg[j]:
                    raise AnalysisError(
                        'C10.R7: the folded overlap map of a model pair '
                        'with equal corner halves is not overlap / width '
                        '(%s)' % self.text)
        # perimeter-weighted integral preserved in both directions
        for j in range(len(gc)):
            if sum(wd[i] * F[i][j] for i in range(len(dc))
                   if F[i][j]) != wg[j]:
                raise AnalysisError('C10.R7: model pair not conservative '
                                    '(%s)' % self.text)
        for i in range(len(dc)):
            if sum(wg[j] * C[j][i] for j in range(len(gc))
                   if C[j][i]) != wd[i]:
                raise AnalysisError('C10.R7: model pair not conservative '
                                    '(%s)' % self.text)

    def traits(self):
        # (integers: the model boundaries are multiples of 5e-10 m)
        d = [int(x * 2000000000) for x in self.duct]
        g = [int(x * 2000000000) for x in self.gap]
        if [Fraction(x, 2000000000) for x in d + g] != self.duct + self.gap:
            raise AnalysisError('C10.R7: model boundary off the grid')
        t = set()
        t.add('padded row' if self.pad else 'unpadded row')
        if self.exact:
            t.add('coincident')
            return t
        if len(d) == len(g):
            t.add('equal cell count, inside the allclose tolerance'
                  if self.close else
                  'equal cell count, outside the allclose tolerance')
        if self.close:
            return t
        ds, gs = set(d), set(g)
        t.add('nesting' if ds <= gs or gs <= ds else 'non-nesting')
        if g[1] > d[1]:
            t.add('gap corner longer than the duct corner')
        if g[1] < d[1]:
            t.add('gap corner shorter than the duct corner')
        if self.asym:
            t.add('unequal halves of the gap top corner')
        for i in range(len(d) - 1):
            for j in range(len(g) - 1):
                if g[j] < d[i] and d[i + 1] < g[j + 1]:
                    t.add('duct cell strictly inside a gap cell')
                if d[i] < g[j] and g[j + 1] < d[i + 1]:
                    t.add('gap cell strictly inside a duct cell')
        for j in range(len(g) - 1):
            if sum(1 for x in d if g[j] < x < g[j + 1]) >= 2:
                t.add('gap cell across three duct cells')
        for i in range(len(d) - 1):
            if sum(1 for x in g if d[i] < x < d[i + 1]) >= 2:
                t.add('duct cell across three gap cells')
        return t


TRAITS_REQUIRED = (
    'padded row', 'unpadded row', 'coincident',
    'equal cell count, inside the allclose tolerance',
    'equal cell count, outside the allclose tolerance', 'nesting',
    'non-nesting', 'gap corner longer than the duct corner',
    'gap corner shorter than the duct corner',
    'unequal halves of the gap top corner',
    'duct cell strictly inside a gap cell',
    'gap cell strictly inside a duct cell',
    'gap cell across three duct cells', 'duct cell across three gap cells')


def pairs(tier):
    kinds = list(QUICK_KINDS)
    mixes = list(MIX_QUICK)
    mix_ducts = ['corner-only', 'n2', 'n3']
    if tier == 'thorough':
        kinds += ['n5', 'n7']
        mixes += MIX_MORE
        mix_ducts += ['n1', 'n4']
    out = []

    def add(dk, gk, text, shift=None):
        out.append(Pair(dk, gk, (0, 2, 1, 3)[len(out) % 4],
                        text, shift))
    for dk in kinds:
        for gk in kinds:
            add(dk, [gk] * 6, 'duct mesh `%s`, gap mesh `%s`' % (dk, gk))
    for dk in mix_ducts:
        for a, b in mixes:
            for pname, pat in sorted(PATTERNS.items()):
                gk = [a if c == 'a' else b for c in pat]
                add(dk, gk, 'duct mesh `%s`, gap mesh `%s`/`%s` (%s)'
                    % (dk, a, b, pname))
    tiny = Fraction(1, 10 ** 9)          # 1 nm
    for dk in kinds:
        add(dk, [dk] * 6, 'duct mesh `%s`, gap mesh the same up to 1e-9 '
            '(inside the allclose tolerance)' % dk,
            lambda i: tiny if i % 2 else -tiny)
        add(dk, [dk] * 6, 'duct mesh `%s`, gap mesh the same except one '
            'boundary moved by 1e-4 (outside the allclose tolerance)' % dk,
            lambda i: Fraction(1, 10 ** 4) if i == 2 else Fraction(0))
    return out


# ---------------------------------------------------------------------------
# the rule

KINDS = ('fails', 'result', 'order', 'identity', 'shape', 'padding',
         'weights', 'tolerance')
WHAT = {
    'fails': 'the map calculation fails (index / shape / arithmetic error)',
    'result': 'the function must return the pair (gap->duct, duct->gap) of '
              'matrices',
    'order': 'the two maps are returned in the opposite order (the caller '
             'stores the first as gap2duct, the second as duct2gap)',
    'identity': 'meshes that coincide (np.allclose, default tolerance) must '
                'give exact identity blocks, zero padded',
    'shape': 'gap->duct must be (duct cells x row width of _asm_sc_xbnds), '
             'duct->gap its transpose shape',
    'padding': 'the columns of gap->duct / rows of duct->gap that belong to '
               'the zero padding of the boundary row must be zero and the '
               'overlap block must sit in the top left corner',
    'weights': 'weight of (duct cell i, gap cell j) = overlap length / width '
               'of the receiving cell, the two halves of the top corner '
               'folded the same way in both maps, rows summing to one',
    'tolerance': 'the coincidence test must keep the default tolerance of '
                 'np.allclose (rtol 1e-5, atol 1e-8)',
}


def _fmt(v):
    if isinstance(v, Fraction):
        return str(v) if v.denominator == 1 or v.denominator < 10 ** 4 \
            else '%.6g' % float(v)
    return repr(v)


def _rows(a):
    v = a.values()
    n, m = a.shape
    return [v[i * m:(i + 1) * m] for i in range(n)]


def _judge(pair, got):
    """-> None | (kind, detail)"""
    if not isinstance(got, (tuple, list)) or len(got) != 2 or not all(
            isinstance(x, NArr) and x.ndim == 2 for x in got):
        return 'result', 'returned %s' % (
            ' / '.join('array of shape %r' % (x.shape,) if isinstance(
                x, NArr) else type(x).__name__ for x in got)
            if isinstance(got, (tuple, list)) else type(got).__name__)
    F, C = pair.expected()
    nd, ng, W = len(F), len(C), pair.width
    Fp = [r + [Fraction(0)] * (W - ng) for r in F]
    Cp = C + [[Fraction(0)] * nd for _ in range(W - ng)]
    g0, g1 = _rows(got[0]), _rows(got[1])
    if g0 == Fp and g1 == Cp:
        return None
    if g0 == Cp and g1 == Fp:
        return 'order', 'first matrix %r, second %r' % (got[0].shape,
                                                       got[1].shape)
    if got[0].shape != (nd, W) or got[1].shape != (W, nd):
        return 'shape', 'returned shapes %r and %r, expected %r and %r' % (
            got[0].shape, got[1].shape, (nd, W), (W, nd))
    for name, g, want, rows_are in (('gap->duct', g0, Fp, 'duct'),
                                    ('duct->gap', g1, Cp, 'gap')):
        for i, (gr, wr) in enumerate(zip(g, want)):
            for j, (x, y) in enumerate(zip(gr, wr)):
                if x == y and isinstance(x, NUM):
                    continue
                dcell = i if rows_are == 'duct' else j
                gcell = j if rows_are == 'duct' else i
                where = '%s[%d, %d]' % (name, i, j)
                if gcell >= ng:
                    return 'padding', '%s (padding of the boundary row) ' \
                        'is %s' % (where, _fmt(x))
                tot = [v for v in gr if isinstance(v, NUM)]
                det = '%s (duct cell %d%s, gap cell %d%s) is %s, must be ' \
                    '%s; the row sums to %s' % (
                        where, dcell + 1,
                        ' = top corner' if dcell == nd - 1 else '',
                        gcell + 1,
                        ' = top corner' if gcell == ng - 1 else '',
                        _fmt(x), _fmt(y), _fmt(sum(tot, Fraction(0))))
                return ('identity' if pair.close else 'weights'), det
    raise AnalysisError('C10.R7: internal comparison error')


def _original(fi):
    """the function as written (the rules otherwise see the canonicalised
    tree; the evaluation must not depend on any rewrite)"""
    try:
        tree = ast.parse(fi.mod.text)
    except SyntaxError as e:
        raise AnalysisError('cannot parse %s: %s' % (fi.mod.rel, e))
    defs = [st for st in tree.body if isinstance(st, ast.FunctionDef)
            and st.name == fi.name]
    if len(defs) != 1:
        raise AnalysisError('%s: %d module-level definitions'
                            % (fi.full, len(defs)))
    return tree, defs[0]


class Verdict:
    def __init__(self):
        self.all_ok = False
        self.n_pairs = 0
        self.bad = {}


def evaluate(ctx):
    """Evaluate the anchor on the model pairs once per run, report what is
    wrong under C10.R7 and return the verdict (cached on the context) --
    the form rules C10.R1-R3 consult it before they reject a spelling."""
    v = getattr(ctx, '_c10_values', None)
    if v is not None:
        return v
    v = ctx._c10_values = Verdict()
    ctx.decided.append(
        'R7 the matrices returned by _map_asm2gap are, on every model mesh '
        'pair (duct kinds x gap kinds, gap meshes mixed side by side also '
        'across the top corner, coincident / nearly coincident / nesting / '
        'non-nesting meshes, padded and unpadded boundary rows), exactly '
        'overlap length / width of the receiving cell with the split top '
        'corner folded the same way in both, rows summing to one, zero in '
        'the padding, gap->duct first, identity blocks for coincident '
        'meshes: finite-domain evaluation of the source as written by the '
        'checker\'s own interpreter, exact rational arithmetic, NumPy views '
        'modelled')
    ctx.trusted.append(
        'C10.R7: the boundary conventions of calculate_xbnds / '
        '_calculate_gap_xbnds transcribed in dsa/rules/_f_c10.py (walk, '
        'SIDE_KINDS), the default tolerance of np.allclose, the NumPy '
        'semantics transcribed in NArr / NP_MODELS')
    fi = ctx.repo.func(*ANCHOR)
    tree, fnode = _original(fi)
    if len(fnode.args.posonlyargs + fnode.args.args) != 2:
        raise AnalysisError('%s: expected two parameters (region bounds, '
                            'gap bounds)' % fi.full)
    plist = pairs(ctx.tier)
    seen = {}
    bad = v.bad
    it = Interp(tree)
    for pr in plist:
        it.fuel, it.depth, it.cur, it.tolerances = 3000000, 0, None, []
        reg = NArr.fresh((len(pr.duct),), pr.duct, 'f')
        row = NArr.fresh((len(pr.row),), pr.row, 'f')
        keep = (list(pr.duct), list(pr.row))
        try:
            got = it.call_user(Func(fnode, None), [reg, row], {}, fnode)
            verdict = _judge(pr, got)
            node = None
        except Unsupported as e:
            raise AnalysisError(
                '%s is not evaluable on the model pair (%s): %s [at `%s`]'
                % (fi.full, pr.text, e,
                   _s(it.last)[:120] if it.last is not None else ''))
        except Raised as r:
            node = r.node if isinstance(r.node, ast.AST) else it.last
            verdict = ('fails', 'at `%s`' % _s(node)[:100]
                       if node is not None else '')
        except RecursionError:
            raise AnalysisError('%s: recursion while evaluating' % fi.full)
        if verdict is None and (reg.values(), row.values()) != keep:
            raise AnalysisError('C10.R7: %s changes the boundary vectors it '
                                'is given (%s)' % (fi.full, pr.text))
        for node_t, rtol, atol in it.tolerances:
            rec = bad.setdefault('tolerance', [0, None, node_t])
            rec[0] += 1
            rec[1] = rec[1] or 'rtol=%s, atol=%s at `%s`' % (
                _fmt(rtol), _fmt(atol), _s(node_t)[:80])
        v.n_pairs += 1
        for t in pr.traits():
            seen[t] = seen.get(t, 0) + 1
        if verdict is None:
            ctx.ok(RULE, fi, None, '%s: %d x %d and %d x %d weights'
                   % (pr.text, len(pr.duct) - 2, pr.width, pr.width,
                      len(pr.duct) - 2))
            continue
        kind, det = verdict
        rec = bad.setdefault(kind, [0, None, node])
        rec[0] += 1
        if rec[1] is None:
            rec[1] = '%s: %s' % (pr.text, det)
    last = [n for n in ast.walk(fi.node) if isinstance(n, ast.Return)]
    for kind in KINDS:
        if kind not in bad:
            continue
        cnt, text, node = bad[kind]
        if node is None or not hasattr(node, 'lineno'):
            node = last[-1] if last else fi.node
        ctx.violation(
            RULE, fi, node,
            'duct<->gap maps: %s -- wrong on %d of %d model mesh pairs, '
            'first: %s.  Every wall-to-gap heat transfer of the affected '
            'assemblies inherits the error.' % (WHAT[kind], cnt, len(plist),
                                                text),
            key='%s | %s' % (fi.full, kind))
    ctx.extra['C10.R7 model mesh pairs evaluated'] = v.n_pairs
    ctx.extra['C10.R7 pairs by trait'] = dict(sorted(seen.items()))
    for t in TRAITS_REQUIRED:
        if seen.get(t, 0) < 3:
            raise AnalysisError('C10.R7: the model pairs contain only %d '
                                'with the trait `%s`' % (seen.get(t, 0), t))
    ctx.min_instances(RULE, 100)
    v.all_ok = not bad and v.n_pairs == len(plist) and v.n_pairs >= 100
    return v


def run(ctx):
    evaluate(ctx)
