"""C18.R8 -- a rejection decision examines the value the calculation consumes.

Clause (necessary condition of C18): while the input is read, every value
that is *brought into* an input key K from somewhere else in the input (a
legacy keyword folded into the standard one, a default taken from another
section, a derived bound ...) is in place **before** the reader's rejection
decisions examine K.  A decision that looked at K earlier -- or that looks at
a local copy of K taken earlier -- has validated a value the solver never
sees: the impossible value arrives afterwards, unexamined, and is swept.

How it is decided (nothing is keyed to a function or key name):

* scope: every method in the MRO of ``DASSH_Input`` (the reader); the parsed
  input is ``self.data``; access paths are resolved with ``dsa.inputpaths``
  (local aliases of sub-dictionaries, literal-loop subscripts, ``.get`` /
  ``.pop``);
* a *rejection decision* is an error sink (``self.log('error'|'critical')``
  or a call of an error helper of the class) with the tests / loop iterables
  that guard it and, for helpers, the deciding arguments (the machinery of
  C18.R2); its *reads* are the input paths these expressions read, directly
  or through locals -- each read is located at the CFG node where the
  subscript is evaluated (the guard itself, or the assignment of the local);
* a *foreign store* is an assignment into an input path P whose value
  (expanded through locals) reads an input path that is neither P, nor below
  P, nor a container of P: it brings a different input value into P.
  Normalisations of the key's own value (``P = conv(P)``, ``[float(x) for x
  in P]``, a filtered copy of P) and constants are not foreign;
* a call ``self.m()`` stands for the decisions and the foreign stores of
  ``m`` (transitively), so that the order of the ``check_*`` calls in
  ``__init__`` and helpers extracted from a check are covered;
* violation, for a decision read R of path P guarding through test node T and
  a foreign store S into P (or into a container of P), within one iteration
  of every loop that encloses both:
    (a) S is reachable from T            -- K is overwritten after the check;
    (b) R precedes S and S precedes T    -- the check reads a stale copy.

A decision that reads a key through a non-literal subscript (``sec[k]`` for k
in a dictionary of defaults, ``AxialRegion[r]`` for every region r) is a
decision about the section / about every member present at that moment, and
is not matched against a store into one constant key.

The clause is decided on the canonical form of the reader (dsa/canon.py, so
that extracted helpers, renamed locals, swapped branches ... do not matter)
and, when the loader has rewritten the module, also on the methods as
written: inlining a hoisted look-up into its use is an equivalence only if
nothing stores into the key in between under another spelling -- which is
what (b) is about.  A violation in either form is reported (once per key).

Trusted: the access-path resolution of ``dsa.inputpaths``; stores into the
parsed input are subscript assignments (an ``update`` / ``setdefault`` on an
input path is an analysis error: not modelled).  Not decided: that the
foreign value is harmless for the relation the decision tests (any store of
another input value into K after a decision on K is reported).
"""
import ast

from ..core import (AnalysisError, ancestors, call_name, const, parent,
                    src, walk_no_nested)
from ..cfg import cfg_of
from .. import core
from .. import util as U
from .. import inputpaths as IP

PROPS = ('C18',)
RULE = 'C18.R8'
STAR = IP.STAR

# floors, below what the pinned tree has (measured and read): 285 distinct
# reads of input paths in the rejection decisions of 30 reader methods; 6
# stores that bring another input value into a key -- the two legacy-gap
# folds (check_fuel_model, check_pin_model), the implicit / derived 'rods'
# axial region (2, from Core/length), outlet temperature from delta T +
# inlet temperature, the plot section cross-checked against the assignment
MIN_DECISION_READS = 200
MIN_FOREIGN_STORES = 4


def _s(n):
    return ' '.join(src(n).split())


# ---------------------------------------------------------------------------
# access paths

def _as_subscript(n):
    """d.get(k) / d.pop(k) read like d[k]."""
    if isinstance(n, ast.Call) and isinstance(n.func, ast.Attribute) and \
            n.func.attr in ('get', 'pop') and n.args:
        return True
    return False


class _PopToGet(ast.NodeTransformer):
    def visit_Call(self, n):
        self.generic_visit(n)
        if isinstance(n.func, ast.Attribute) and n.func.attr == 'pop' \
                and n.args:
            n.func.attr = 'get'
        return n


def _resolve(M, node):
    """Input paths denoted by a subscript chain (or None)."""
    if any(isinstance(x, ast.Call) and isinstance(x.func, ast.Attribute)
           and x.func.attr == 'pop' for x in ast.walk(node)):
        line = getattr(node, 'lineno', 0)
        node = _PopToGet().visit(U._clone(node))
        return IP.resolve(M.fi.node, node, M.roots, M.aliases, line=line)
    return IP.resolve(M.fi.node, node, M.roots, M.aliases)


def _covers(store_path, read_path):
    """A store into store_path replaces what read_path reads: store_path is
    read_path or a container of it.  A constant component of the store is
    never matched by a wildcard of the read (decision about the section)."""
    if len(store_path) > len(read_path):
        return False
    for i, (s, r) in enumerate(zip(store_path, read_path)):
        if s == r or s == STAR:
            continue
        if r == STAR and i < len(store_path) - 1:
            continue        # '[asm]' style wildcard above the key
        return False
    return True


def _related(a, b):
    """One path is a prefix of the other (wildcards match anything)."""
    for x, y in zip(a, b):
        if x != y and STAR not in (x, y):
            return False
    return True


# ---------------------------------------------------------------------------
# per-method model

class _Method:
    def __init__(self, repo, ci, fi, helpers):
        self.fi = fi
        self.roots = set(IP.roots_for(fi)) | {'self.data'}
        self.aliases = IP.local_aliases_with(fi.node, self.roots, {})
        self.g = cfg_of(fi)
        self.decisions = []     # (sink call, [(P, nR, nT, read expr)])
        self.stores = []        # (stmt, nS, [target paths], [foreign paths])
        self.calls = []         # (call, node, callee name)
        self.unmodelled = []
        self._collect(repo, ci, helpers)

    # -- reads of an expression, through locals ---------------------------
    def reads(self, expr, at, seen=None):
        """[(path, cfg node of the read, ast)] for every input read that can
        flow into `expr` evaluated at cfg node `at`."""
        out = []
        seen = set() if seen is None else seen
        if expr is None or at is None:
            return out
        for n in ast.walk(expr):
            if isinstance(n, ast.Subscript) or _as_subscript(n):
                up = parent(n)
                if isinstance(up, ast.Subscript) and up.value is n:
                    continue            # not maximal
                if isinstance(up, ast.Attribute) and up.value is n and \
                        up.attr in ('get', 'pop') and isinstance(
                            parent(up), ast.Call) and parent(up).args:
                    continue
                if isinstance(getattr(n, 'ctx', None), (ast.Store, ast.Del)):
                    continue
                ps = _resolve(self, n)
                for p in ps or []:
                    if p:
                        out.append((p, at, n))
            elif isinstance(n, ast.Name) and isinstance(n.ctx, ast.Load):
                if n.id in self.fi.params:
                    continue
                for d in U.assigns_of(self.fi.node, n.id):
                    if (id(d), at.id) in seen:
                        continue
                    seen.add((id(d), at.id))
                    nd = self.g.node_of(d)
                    if nd is None:
                        continue
                    if nd is not at and not self.g.path_exists(nd, at):
                        continue        # this definition cannot reach the use
                    v = d.iter if isinstance(d, ast.For) else getattr(
                        d, 'value', None)
                    if isinstance(d, ast.With):
                        continue
                    out += self.reads(v, nd, seen)
        # comprehension variables: their iterables are part of the expression
        # itself (ast.walk has visited them)
        return out

    def _collect(self, repo, ci, helpers):
        from . import c18
        fi, g = self.fi, self.g
        for c in walk_no_nested(fi.node):
            if not isinstance(c, ast.Call):
                continue
            nm = call_name(c) or ''
            exprs = None
            if nm == 'self.log' and c.args and const(c.args[0]) in (
                    'error', 'critical'):
                exprs = c18._guard_exprs(c)
            elif nm.startswith('self.') and nm.count('.') == 1:
                callee = nm[5:]
                if callee in helpers and callee != fi.name:
                    exprs = c18._guard_exprs(c) + c18._deciding_args(
                        repo, ci, helpers, callee, c)
                if repo.lookup_method(ci, callee) is not None:
                    nc = g.node_containing(c)
                    if nc is not None:
                        self.calls.append((c, nc, callee))
            elif isinstance(c.func, ast.Attribute) and c.func.attr in (
                    'update', 'setdefault') and _resolve(
                        self, c.func.value):
                self.unmodelled.append(c)
            if exprs is None:
                continue
            ne = g.node_containing(c)
            if ne is None or not g.is_reachable(ne):
                continue
            # the decision point: a helper decides at its call; an error
            # log is decided by the innermost test / loop header around it
            nd = ne
            if nm == 'self.log':
                child = c
                for a in ancestors(c):
                    if isinstance(a, (ast.FunctionDef, ast.AsyncFunctionDef)):
                        break
                    if isinstance(a, (ast.If, ast.While, ast.For)) and not \
                            any(child is x for x in getattr(a, 'orelse', [])
                                if isinstance(a, (ast.For, ast.While))):
                        nd = g.node_of(a)
                        break
                    child = a
            rd = []
            for e in exprs:
                nr0 = g.node_containing(e)
                if nr0 is None:
                    continue
                for p, nr, node in self.reads(e, nr0):
                    rd.append((p, nr, nd, node))
            self.decisions.append((c, rd))
        for t, st in U.stores(fi.node):
            if isinstance(st, ast.Delete) or not isinstance(t, ast.Subscript):
                continue
            tps = [p for p in (_resolve(self, t) or []) if p]
            if not tps:
                continue
            ns = g.node_containing(st)
            if ns is None or not g.is_reachable(ns):
                continue
            val = getattr(st, 'value', None)
            foreign = []
            for p, nr, node in self.reads(val, ns):
                if any(_related(tp, p) for tp in tps):
                    continue    # the key's own value / its container
                foreign.append((p, node))
            self.stores.append((st, ns, tps, foreign))


def _common_loop_heads(g, a, b):
    def loops(n):
        st = n.stmt
        out = []
        x = st
        while x is not None and not isinstance(
                x, (ast.FunctionDef, ast.AsyncFunctionDef)):
            if isinstance(x, (ast.For, ast.While)) and x is not st:
                out.append(x)
            x = parent(x)
        return out
    la, lb = loops(a), loops(b)
    return [g.node_of(l) for l in la if any(l is m for m in lb)]


# ---------------------------------------------------------------------------

class _RawRepo:
    """The reader classes as written (no canonicalisation): the same
    interface the rule uses of core.Repo (mro / lookup_method)."""

    def __init__(self, repo, ci):
        self.classes = []
        self.touched = False
        mods = {}
        for c in repo.mro(ci):
            m = c.mod
            if m.name not in mods:
                if not m.renames:
                    mods[m.name] = m        # not rewritten: same program
                else:
                    self.touched = True
                    rm = core.Module.__new__(core.Module)
                    rm.name, rm.path, rm.rel, rm.text = (m.name, m.path,
                                                         m.rel, m.text)
                    rm.tree = ast.parse(m.text)
                    rm.renames = []
                    core.set_parents(rm.tree)
                    rm.funcs, rm.classes, rm.imports, rm.globals = \
                        {}, {}, {}, {}
                    rm._index()
                    mods[m.name] = rm
            rc = mods[m.name].classes.get(c.name)
            if rc is None:
                raise AnalysisError('C18.R8: class %s not found in the '
                                    'unrewritten %s' % (c.name, m.name))
            self.classes.append(rc)

    def mro(self, ci):
        return self.classes

    def lookup_method(self, ci, name):
        for c in self.classes:
            if name in c.methods:
                return c.methods[name]
        return None


def _analyse(ctx, repo, ci, label, reported):
    """One pass over the reader methods of `repo` (the canonical program or
    the program as written).  Returns (decision reads, foreign stores,
    methods)."""
    from . import c18
    helpers = c18._error_helpers(repo, ci)
    methods = {}
    for c in repo.mro(ci):
        for nm, m in c.methods.items():
            if nm not in methods and not m.is_setter:
                methods[nm] = m
    if '__init__' not in methods:
        raise AnalysisError('DASSH_Input.__init__ vanished')
    models = {nm: _Method(repo, ci, m, helpers) for nm, m in methods.items()}

    # transitive summaries of a method: paths examined by its decisions,
    # foreign stores it performs
    memo = {}

    def summary(nm, stack=()):
        if nm in memo:
            return memo[nm]
        if nm in stack or nm not in models:
            return (set(), [])
        M = models[nm]
        gr = {p for _, rd in M.decisions for p, _, _, _ in rd}
        fs = [(tp, M.fi, st, [f for f, _ in fo])
              for st, _, tps, fo in M.stores if fo for tp in tps]
        for c, nc, callee in M.calls:
            g2, f2 = summary(callee, stack + (nm,))
            gr |= g2
            fs += f2
        if not stack:
            memo[nm] = (gr, fs)
        return (gr, fs)

    n_reads = n_foreign = 0
    for nm in sorted(models):
        M = models[nm]
        fi, g = M.fi, M.g
        # events of this method
        D = []      # (P, nR, nT, what is decided, ast of the read)
        for sink, rd in M.decisions:
            for p, nr, nt, node in rd:
                D.append((p, nr, nt, _s(sink)[:70], node))
        S = []      # (target path, node, stmt / call, foreign paths, where)
        for st, ns, tps, fo in M.stores:
            if fo:
                n_foreign += 1
                for tp in tps:
                    S.append((tp, ns, st, [f for f, _ in fo], fi))
        for c, nc, callee in M.calls:
            gr, fs = summary(callee)
            for p in sorted(gr):
                D.append((p, nc, nc, 'self.%s()' % callee, c))
            for tp, f2, st2, fo in fs:
                S.append((tp, nc, c, fo, f2))
        bad_reads = set()
        for p, nr, nt, what, rnode in D:
            for tp, ns, st, fo, where in S:
                if not _covers(tp, p):
                    continue
                if ns is nt and ns is nr:
                    continue        # inside one callee: judged there
                avoid = [a for a in _common_loop_heads(g, nt, ns)
                         if a is not None and a is not nt and a is not ns]
                after = ns is not nt and g.path_exists(nt, ns, avoid=avoid)
                stale = nr is not nt and nr is not ns and \
                    g.path_exists(nr, ns, avoid=[
                        a for a in _common_loop_heads(g, nr, ns)
                        if a is not None and a is not nr and a is not ns]) \
                    and (ns is nt or g.path_exists(ns, nt, avoid=avoid))
                if not (after or stale):
                    continue
                frm = sorted({IP.fmt(f) for f in fo})
                key = '%s | %s checked %s value from %s' % (
                    fi.full, IP.fmt(p), 'before' if after else 'on a copy '
                    'taken before', '+'.join(frm))
                bad_reads.add(id(rnode))
                if key in reported:
                    continue
                reported.add(key)
                stxt = _s(st)[:110]
                if where is not fi:
                    stxt += '  [in %s]' % where.qual
                ctx.violation(
                    RULE, fi, st if isinstance(st, ast.stmt) else rnode,
                    'a rejection decision must examine the value of input '
                    'key %s that the calculation consumes: the decision `%s` '
                    'reads it at `%s`, but `%s` %s brings the value of %s '
                    'into that key -- an impossible value given through %s '
                    'is never examined and is accepted%s'
                    % (IP.fmt(p), what, _s(rnode)[:60], stxt,
                       'afterwards' if after else 'between that read and '
                       'the decision', ', '.join(frm), ', '.join(frm),
                       label), key=key)
        if label:
            continue        # instances are counted on the canonical program
        seen_ok = set()
        for p, nr, nt, what, rnode in D:
            if id(rnode) in bad_reads or (id(rnode), p) in seen_ok:
                continue
            seen_ok.add((id(rnode), p))
            n_reads += 1
            ctx.ok(RULE, fi, rnode, 'decision `%s` reads %s; no foreign '
                   'store into it afterwards' % (what[:50], IP.fmt(p)))
    unm = [(_s(c)[:80]) for M in models.values() for c in M.unmodelled]
    if unm:
        raise AnalysisError('C18.R8: the reader stores into the parsed input '
                            'through update()/setdefault(), which the rule '
                            'does not model: %s' % unm[:3])
    return n_reads, n_foreign, len(models)


def run(ctx):
    repo = ctx.repo
    ci = repo.cls('read_input', 'DASSH_Input')
    repo.func('read_input', 'DASSH_Input.__init__')
    reported = set()
    n_reads, n_foreign, n_meth = _analyse(ctx, repo, ci, '', reported)
    # the loader has rewritten the reader towards its recorded form
    # (dsa/canon.py).  Inlining a hoisted look-up moves a read to its use;
    # that is only an equivalence if nothing stores into the key in between
    # under another spelling, which is exactly what clause (b) is about: the
    # clause is therefore also decided on the methods as written
    raw = _RawRepo(repo, ci)
    if raw.touched:
        _analyse(ctx, raw, raw.classes[0],
                 ' (in the method as written, before canonicalisation)',
                 reported)
    ctx.extra['c18_r8'] = {'decision_reads': n_reads,
                           'foreign_stores': n_foreign,
                           'reader_methods': n_meth,
                           'also_as_written': raw.touched}
    if n_reads < MIN_DECISION_READS:
        raise AnalysisError('C18.R8 found %d reads of input keys in rejection '
                            'decisions of DASSH_Input, expected >= %d (rule '
                            'went blind)' % (n_reads, MIN_DECISION_READS))
    if n_foreign < MIN_FOREIGN_STORES and not reported:
        raise AnalysisError('C18.R8 found %d stores that bring another input '
                            'value into an input key, expected >= %d (rule '
                            'went blind)' % (n_foreign, MIN_FOREIGN_STORES))
    ctx.decided.append(
        'R8 while the input is read, every store that brings the value of '
        'another input key into a key K (legacy keyword folded into the '
        'standard one, derived defaults) precedes every rejection decision '
        'that examines K, and no decision examines a copy of K taken before '
        'such a store (CFG order within a method, call order of the check_* '
        'methods through call summaries)')
    ctx.trusted.append('C18.R8: access paths of dsa.inputpaths; stores into '
                       'the parsed input are subscript assignments')
