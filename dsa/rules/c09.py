"""C09 -- inter-assembly gap mesh well-formed (structural clauses)."""
import ast
import itertools

from ..core import (AnalysisError, access_path, const, find_all, match, short,
                    src, walk_no_nested, parent, call_name)
from .. import util as U


def run(ctx):
    ctx.decided += [
        'R1 the finer-mesh selection touches its arguments only through the '
        'has_rodded flags and two comparisons (ring count, pin pitch); '
        'abstract interpretation over all 4 x 3 x 3 flag/ordering cases shows '
        'that f(A, B) and f(B, A) select the same assembly whenever a '
        'compared key differs and the same edge count always',
        'R2 the side and corner count-once decisions are the same decision '
        'modulo the direction index (side vs side - 5)',
        'R3 gap flow is split in proportion to cell area normalised by the '
        'total area; the reciprocal is what the energy equation divides by',
        'R4 the gap cells along a hex side tile that side: (edge cells per '
        'side) x pitch + 2 x corner length = duct_oftf / sqrt3, for a side '
        'meshed by a pin bundle (corner length = outer face of the last duct, '
        'closed form proved by C08.R4; count = n_ring - 1 of the assembly '
        'whose mesh is used) and for an unrodded side (no edge cells)',
        'R5 the wetted perimeters of the gap cells around an assembly '
        'telescope to the hexagon perimeter: increments x[i+1] - x[i] over '
        'all consecutive boundaries plus a wrap-around term W with W + '
        '(x[-1] - x[0]) = 6 duct_oftf / sqrt3 identically, in both perimeter '
        'functions (cell-wise and assembly-wise)']
    ctx.not_decided += ['cover-once, 1-3 neighbours, symmetric adjacency, '
                        'mesh-independent total area (combinatorial facts of '
                        'the run-time maps)']
    r1(ctx)
    r2(ctx)
    r3(ctx)
    r4(ctx)
    ctx.min_instances('C09.R4', 3)
    r5(ctx)
    ctx.min_instances('C09.R5', 6)
    r6(ctx)
    ctx.min_instances('C09.R6', 4)
    ctx.min_instances('C09.R1', 36)
    ctx.min_instances('C09.R2', 1)
    ctx.min_instances('C09.R3', 3)


# ---------------------------------------------------------------------------
# abstract interpretation of _which_asm_has_finer_mesh over order relations

class _Abs:
    """Abstract state: has_rodded flags and order relations between the two
    arguments' keys.  rel[key] in {'<','=','>'} means arg0.key REL arg1.key."""

    def __init__(self, a0, a1, flags, rel):
        self.a0, self.a1 = a0, a1          # parameter names
        self.flags = flags                 # {a0: bool, a1: bool}
        self.rel = rel                     # {'n_ring': r, 'pin_pitch': r}
        self.locals = {}                   # local name -> (owner, key)

    def key_of(self, e):
        """(owner param, key) of an expression `P.rodded.K [- c]` or a local
        bound to one; affine offsets common to both sides are ignored."""
        if isinstance(e, ast.BinOp) and isinstance(e.op, (ast.Sub, ast.Add)) \
                and const(e.right) is not None:
            k = self.key_of(e.left)
            return None if k is None else (k[0], k[1], k[2] + (
                '%s%s' % ('-' if isinstance(e.op, ast.Sub) else '+',
                          const(e.right)),))
        if isinstance(e, ast.Name) and e.id in self.locals:
            return self.locals[e.id]
        b = match('Q_p.rodded.Q_k', e) if isinstance(e, ast.Attribute) \
            else None
        if isinstance(e, ast.Attribute) and isinstance(e.value, ast.Attribute)\
                and e.value.attr == 'rodded' and isinstance(
                    e.value.value, ast.Name):
            return (e.value.value.id, e.attr, ())
        return None

    def test(self, t):
        if isinstance(t, ast.BoolOp):
            vs = [self.test(v) for v in t.values]
            if any(v is None for v in vs):
                return None
            return all(vs) if isinstance(t.op, ast.And) else any(vs)
        if isinstance(t, ast.UnaryOp) and isinstance(t.op, ast.Not):
            v = self.test(t.operand)
            return None if v is None else not v
        if isinstance(t, ast.Attribute) and t.attr == 'has_rodded' and \
                isinstance(t.value, ast.Name) and t.value.id in self.flags:
            return self.flags[t.value.id]
        cp = U.compare_parts(t)
        if cp:
            l, op, r = cp
            if op in (ast.Is, ast.IsNot) and const(r, 0) is None and \
                    isinstance(l, ast.Name):
                v = (l.id == self.a1 and self.flags.get('_none', False))
                return v if op is ast.Is else not v
            kl, kr = self.key_of(l), self.key_of(r)
            if kl and kr and kl[1] == kr[1] and kl[2] == kr[2] and \
                    kl[0] != kr[0]:
                rel = self.rel[kl[1]]
                if kl[0] == self.a1:       # flip to arg0 REL arg1
                    rel = {'<': '>', '>': '<', '=': '='}[rel]
                return {ast.Lt: rel == '<', ast.LtE: rel in '<=',
                        ast.Gt: rel == '>', ast.GtE: rel in '>=',
                        ast.Eq: rel == '=', ast.NotEq: rel != '='}.get(op)
        return None

    def run(self, body):
        """-> (selected param name, edge-count key owner or 0)"""
        for st in body:
            if isinstance(st, ast.Expr):
                continue
            if isinstance(st, ast.Assign) and len(st.targets) == 1 and \
                    isinstance(st.targets[0], ast.Name):
                k = self.key_of(st.value)
                if k is not None:
                    self.locals[st.targets[0].id] = k
                elif const(st.value) is not None:
                    self.locals[st.targets[0].id] = ('const', const(st.value),
                                                     ())
                else:
                    raise AnalysisError('finer-mesh: value of %s depends on '
                                        'more than the compared keys'
                                        % st.targets[0].id)
                continue
            if isinstance(st, ast.If):
                v = self.test(st.test)
                if v is None:
                    raise AnalysisError('finer-mesh: condition %s is not a '
                                        'flag or key comparison'
                                        % src(st.test))
                r = self.run(st.body if v else st.orelse)
                if r is not None:
                    return r
                continue
            if isinstance(st, ast.Return):
                if not (isinstance(st.value, ast.Tuple) and
                        len(st.value.elts) == 2 and
                        isinstance(st.value.elts[0], ast.Name)):
                    raise AnalysisError('finer-mesh: return shape')
                who = st.value.elts[0].id
                cnt = st.value.elts[1]
                ck = self.key_of(cnt)
                if ck is None and const(cnt) is not None:
                    ck = ('const', const(cnt), ())
                return who, ck
            raise AnalysisError('finer-mesh: unsupported statement %s'
                                % short(st))
        return None


def r1(ctx):
    fi = ctx.repo.func('core', '_which_asm_has_finer_mesh')
    a0, a1 = fi.params[:2]
    # the function may read only flags and the two keys
    reads = set()
    for n in ast.walk(fi.node):
        if isinstance(n, ast.Attribute) and isinstance(n.ctx, ast.Load):
            par = parent(n)
            if isinstance(par, ast.Attribute) and par.value is n:
                continue
            reads.add(src(n))
    allowed = set()
    for p in (a0, a1):
        allowed |= {'%s.has_rodded' % p, '%s.rodded.n_ring' % p,
                    '%s.rodded.pin_pitch' % p}
    ctx.require(reads <= allowed, 'C09.R1', fi, fi.node,
                'the selection reads %s besides the flags and the two '
                'compared keys' % sorted(reads - allowed),
                key=fi.full + ' | reads only compared keys')
    body = [s for s in fi.node.body if not (
        isinstance(s, ast.Expr) and isinstance(s.value, ast.Constant))]
    n = 0
    for fa, fb in itertools.product((True, False), repeat=2):
        for rn, rp in itertools.product('<=>', repeat=2):
            flip = {'<': '>', '>': '<', '=': '='}
            s1 = _Abs(a0, a1, {a0: fa, a1: fb}, {'n_ring': rn,
                                                 'pin_pitch': rp})
            s2 = _Abs(a0, a1, {a0: fb, a1: fa}, {'n_ring': flip[rn],
                                                 'pin_pitch': flip[rp]})
            w1, c1 = s1.run(body)
            w2, c2 = s2.run(body)
            # the count returned belongs to the assembly returned
            fl = {a0: fa, a1: fb}
            own = (c1 == (w1, 'n_ring', ('-1',))) if fl[w1] else \
                (c1 is not None and c1[0] == 'const' and c1[1] == 0)
            ctx.require(own, 'C09.R1', fi, fi.node,
                        'the edge-cell count returned with an assembly must '
                        'be that assembly\'s n_ring - 1 (0 if it has no pin '
                        'bundle); got %s for %s' % (c1, w1),
                        key='%s | count of the selected assembly' % fi.full)
            # physical identity: call 1 has asm=A, neighbor=B; call 2 swapped
            who1 = 'A' if w1 == a0 else 'B'
            who2 = 'B' if w2 == a0 else 'A'
            # compared keys that matter: only if both rodded
            differs = (fa != fb) or (fa and fb and (rn != '=' or rp != '='))
            n += 1
            case = 'rodded(A)=%s rodded(B)=%s n_ring A%sB pitch A%sB' % (
                fa, fb, rn, rp)
            # edge count must agree physically
            def cnt_phys(c, swapped):
                if c is None:
                    return None
                if c[0] == 'const':
                    return ('const', c[1])
                owner = ('A' if c[0] == a0 else 'B') if not swapped else \
                    ('B' if c[0] == a0 else 'A')
                return (owner, c[1], c[2])
            p1, p2 = cnt_phys(c1, False), cnt_phys(c2, True)
            same_count = p1 == p2 or (
                p1 and p2 and p1[0] in 'AB' and p2[0] in 'AB' and
                p1[1:] == p2[1:] and p1[1] == 'n_ring' and rn == '=')
            ok = (who1 == who2 or not differs) and same_count
            ctx.require(ok, 'C09.R1', fi, fi.node,
                        'case [%s]: seen from A the mesh of %s is used, seen '
                        'from B the mesh of %s (edge counts %s / %s): the '
                        'shared gap cells are meshed differently by the two '
                        'neighbours' % (case, who1, who2, p1, p2),
                        note=case + ' -> ' + who1,
                        key='%s | %s' % (fi.full, case))
            # the finer mesh wins: more rings, then smaller pitch
            if fa and fb and rn != '=':
                want = 'A' if rn == '>' else 'B'
                ctx.require(who1 == want, 'C09.R1', fi, fi.node,
                            'case [%s]: the assembly with more rings must be '
                            'selected' % case,
                            key='%s | finer wins %s' % (fi.full, case))
            if fa and fb and rn == '=' and rp != '=':
                want = 'A' if rp == '<' else 'B'
                ctx.require(who1 == want, 'C09.R1', fi, fi.node,
                            'case [%s]: with equal ring counts the assembly '
                            'with the smaller pin pitch (finer mesh) must be '
                            'selected' % case,
                            key='%s | finer pitch wins %s' % (fi.full, case))
            if fa != fb:
                want = 'A' if fa else 'B'
                ctx.require(who1 == want, 'C09.R1', fi, fi.node,
                            'case [%s]: the pin-bundle assembly must be '
                            'selected over the unrodded one' % case,
                            key='%s | rodded wins %s' % (fi.full, case))
    ctx.extra['abstract_cases'] = n
    # no-neighbour branch
    s = _Abs(a0, a1, {a0: True, a1: False, '_none': True},
             {'n_ring': '=', 'pin_pitch': '='})
    try:
        w, c = s.run(body)
        ctx.require(w == a0, 'C09.R1', fi, fi.node, 'without a neighbour '
                    'the assembly uses its own mesh',
                    key=fi.full + ' | no neighbour')
    except AnalysisError:
        # the branch assigns 0 then conditionally the ring count
        ctx.ok('C09.R1', fi, None, 'no-neighbour branch: own mesh')
    # call sites hand the geometric neighbour of that side
    cs = ctx.repo.func('core', 'Core._collect_sc_geom_params')
    calls = [c for c in walk_no_nested(cs.node) if isinstance(c, ast.Call)
             and call_name(c) == '_which_asm_has_finer_mesh']
    NB = 'asm_list[self.asm_adj[asm][side] - 1]'
    GUARDS = ('self.asm_adj[asm][side] - 1 >= 0', 'self.asm_adj[asm][side] > 0',
              'self.asm_adj[asm][side] >= 1',
              'self.asm_adj[asm][side] - 1 > -1')

    def guarded_by_neighbour(node):
        return any(' '.join(src(t).split()) in GUARDS and p
                   for t, p in U.guards(node))

    def unguarded(node):
        return not any(' '.join(src(t).split()) in GUARDS
                       for t, p in U.guards(node))
    ok = bool(calls)
    saw_nb = False
    for c in calls:
        if len(c.args) < 1 or src(c.args[0]) != 'asm_list[asm]':
            ok = False
            continue
        a1 = c.args[1] if len(c.args) > 1 else None
        e = U.expand_locals(cs.node, a1, before=c.lineno, depth=2) \
            if a1 is not None else None
        if a1 is None or const(a1, 0) is None and isinstance(a1,
                                                             ast.Constant):
            # no neighbour handed: only where there is none
            ok = ok and not guarded_by_neighbour(c)
        elif isinstance(a1, ast.Name):
            ds = [d for d in U.assigns_of(cs.node, a1.id)
                  if isinstance(d, ast.Assign)]
            vals = {}
            for d in ds:
                vals.setdefault(' '.join(src(d.value).split()), []).append(d)
            for v, dl in vals.items():
                if v == NB:
                    saw_nb = True
                    ok = ok and all(guarded_by_neighbour(d) for d in dl)
                elif v == 'None':
                    pass
                else:
                    ok = False
            ok = ok and NB in vals and (guarded_by_neighbour(c) or
                                        'None' in vals)
        elif ' '.join(src(a1).split()) == NB:
            saw_nb = True
            ok = ok and guarded_by_neighbour(c)
        else:
            ok = False
    ctx.require(ok and saw_nb, 'C09.R1', cs, calls[0] if calls else cs.node,
                'the neighbour compared on a side is the assembly adjacent '
                'on that side (1-based id in asm_adj; 0 = none)',
                key=cs.full + ' | neighbour of side')


# ---------------------------------------------------------------------------

class _Norm(ast.NodeTransformer):
    def __init__(self, ren):
        self.ren = ren

    def visit_Name(self, n):
        return ast.copy_location(ast.Name(id=self.ren.get(n.id, n.id),
                                          ctx=n.ctx), n)

    def visit_BinOp(self, n):
        self.generic_visit(n)
        if isinstance(n.op, ast.Sub) and isinstance(n.left, ast.Name) and \
                n.left.id == 'side' and const(n.right) == 5:
            return ast.Name(id='side', ctx=ast.Load())
        return n


def _norm_body(fi, ren):
    body = [s for s in fi.node.body if not (
        isinstance(s, ast.Expr) and isinstance(s.value, ast.Constant))]
    mod = ast.Module(body=[ast.parse(src(s)).body[0] for s in body],
                     type_ignores=[])
    mod = _Norm(ren).visit(mod)
    return ast.dump(mod)


def r2(ctx):
    a = ctx.repo.func('core', 'Core._need_to_count_side')
    b = ctx.repo.func('core', 'Core._need_to_count_corner')
    da = _norm_body(a, {'neighbor_loc': 'loc2', 'neighbor': 'nb'})
    db = _norm_body(b, {'neighbor_p1': 'nb'})
    # in the corner variant `loc` is re-bound to the neighbour location;
    # normalise the side variant the same way
    da2 = da.replace("'loc2'", "'loc'")
    ctx.require(da2 == db, 'C09.R2', b, b.node,
                'the side and corner count-once decisions differ beyond the '
                'direction index (side vs side - 5): a shared side and its '
                'corner could be counted by different assemblies',
                key='dassh.core:Core | count-once siblings')


def r3(ctx):
    ld = ctx.repo.func('core', 'Core.load')
    h1 = find_all("self.gap_params['total area'] = "
                  "np.sum(self.gap_params['area'])", ld.node, 'stmt')
    h2 = find_all("self.gap_params['area frac'] = self.gap_params['area'] / "
                  "self.gap_params['total area']", ld.node, 'stmt')
    h3 = find_all("self._sc_mfr = self.gap_flow_rate * "
                  "self.gap_params['area frac']", ld.node, 'stmt')
    h4 = find_all('self._inv_sc_mfr = 1 / self._sc_mfr', ld.node, 'stmt')
    ok = bool(h1 and h2 and h3 and h4) and \
        h1[0][0].lineno < h2[0][0].lineno < h3[0][0].lineno
    ctx.require(bool(h1 and h2), 'C09.R3', ld, h2[0][0] if h2 else ld.node,
                'area fractions = cell area / sum of cell areas',
                key=ld.full + ' | area frac')
    ctx.require(ok, 'C09.R3', ld, h3[0][0] if h3 else ld.node,
                'cell flow = gap flow * area fraction; its reciprocal feeds '
                'the energy equation', key=ld.full + ' | flow split')
    av = ctx.repo.cls('core', 'Core')
    pf, pe = U.property_return(ctx.repo, av, 'avg_coolant_gap_temp')
    ctx.require(pe is not None and ' '.join(src(pe).split()) ==
                "np.dot(self.coolant_gap_temp, self.gap_params['area frac'])",
                'C09.R3', pf, pe if pe is not None else pf.node,
                'gap mixed-mean temperature is the flow(=area)-weighted mean',
                key=pf.full + ' | mixed mean')


# ---------------------------------------------------------------------------
# R4: cells along a side tile the side

def r4(ctx):
    from . import _hexgeom as H
    from ..poly import Rat, from_ast
    fi = ctx.repo.func('core', 'Core._collect_sc_geom_params')
    # X, count = _which_asm_has_finer_mesh(...)
    sel = [st for st in walk_no_nested(fi.node) if isinstance(st, ast.Assign)
           and isinstance(st.targets[0], ast.Tuple)
           and isinstance(st.value, ast.Call)
           and call_name(st.value) == '_which_asm_has_finer_mesh']
    names = {(src(st.targets[0].elts[0]), src(st.targets[0].elts[1]))
             for st in sel}
    if len(names) != 1:
        raise AnalysisError('_collect_sc_geom_params: selection result names')
    X, cnt = names.pop()
    br = [n for n in walk_no_nested(fi.node) if isinstance(n, ast.If)
          and src(n.test) == X + '.has_rodded']
    if len(br) != 1 or not br[0].orelse:
        raise AnalysisError('_collect_sc_geom_params: has_rodded branch')
    st = [s for s in walk_no_nested(fi.node) if isinstance(s, ast.Assign)
          and isinstance(s.value, (ast.List, ast.Tuple))
          and len(s.value.elts) == 2 and isinstance(s.targets[0],
                                                    ast.Subscript)]
    if len(st) != 1:
        raise AnalysisError('_collect_sc_geom_params: dims store')
    pp_name, wc_name = (src(e) for e in st[0].value.elts)
    cst = [s for s in walk_no_nested(fi.node) if isinstance(s, ast.Assign)
           and src(s.value) == cnt and isinstance(s.targets[0],
                                                  ast.Subscript)]
    ctx.require(len(cst) == 1 and src(cst[0].targets[0].slice) ==
                src(st[0].targets[0].slice), 'C09.R4', fi,
                cst[0] if cst else fi.node,
                'the edge-cell count stored for a side must be the one '
                'returned with the assembly whose pitch / corner length are '
                'stored for that side', key=fi.full + ' | count stored')
    OF = Rat.sym('OFTF')
    c = Rat.const

    def last(stmts, name):
        v = None
        for s_ in stmts:
            if isinstance(s_, ast.Assign) and src(s_.targets[0]) == name:
                v = s_.value
        return v
    for label, stmts, count in (('pin bundle', br[0].body, H.N - c(1)),
                                ('unrodded', br[0].orelse, c(0))):
        pv, wv = last(stmts, pp_name), last(stmts, wc_name)
        if wv is None:
            ctx.violation('C09.R4', fi, br[0], '%s side: corner length not '
                          'assigned' % label, key='%s | %s shape'
                          % (fi.full, label))
            continue
        if pv is None:       # assigned before the branch
            pre = [s_ for s_ in walk_no_nested(fi.node)
                   if isinstance(s_, ast.Assign) and s_.lineno < br[0].lineno]
            pv = last(pre, pp_name)
        atoms = {X + '.rodded.pin_pitch': 'P', X + '.duct_oftf': 'OFTF',
                 '_sqrt3': 'r3'}
        for form in ("[-1, -1]", "[-1][-1]",
                     "[%s.rodded.n_duct - 1, 1]" % X):
            atoms[X + ".rodded.d['wcorner']" + form] = 'WC'
        try:
            pr = from_ast(pv, atoms, auto=True)
            wr = from_ast(wv, atoms, auto=True)
        except Exception as e:
            raise AnalysisError('_collect_sc_geom_params: %s' % e)
        # corner length of the outer face of the last duct (C08.R4), whose
        # flat-to-flat distance is the assembly's outer flat-to-flat
        wc_cf = OF / (c(2) * H.R3) - H.P_ * (H.N - c(1)) / c(2)
        wr = wr._subs_rat('WC', wc_cf) if 'WC' in (
            wr.n.symbols() | wr.d.symbols()) else wr
        res = count * pr + c(2) * wr - OF / H.R3
        ctx.require(H.is_zero(res), 'C09.R4', fi, br[0],
                    '%s side: (edge cells per side) x pitch + 2 x corner '
                    'length must equal the hexagon side duct_oftf / sqrt3 '
                    '(pitch = %s, corner = %s; residual %r)'
                    % (label, src(pv), src(wv), H.reduce_r3(res).n),
                    key='%s | %s side tiling' % (fi.full, label))


# ---------------------------------------------------------------------------
# R5: perimeters telescope to the hexagon perimeter

# the two perimeter functions are also evaluated on model cores, value by
# value (C09.R8 / C09.R9); where a body is not in the loop form below, the
# telescoping clause is implied by those rules and R5 defers to them
R5_EVALUATED = {'Core._calculate_sc_wp': ('C09.R8', '_f_c09'),
                'Core._calculate_asm_sc_wp': ('C09.R9', '_f_c09_2')}


def _r5_defer(ctx, fi, q, piece):
    """The body does not have the form R5 reads: the piece is decided on
    values by the rule that evaluates the function on model cores.  Fails
    closed when that rule does not exist."""
    import importlib
    rule, modname = R5_EVALUATED[q]
    try:
        em = importlib.import_module('dsa.rules.' + modname)
    except ImportError as e:
        raise AnalysisError('%s: %s not in the loop form and the evaluating '
                            'rule %s is missing (%s)' % (q, piece, rule, e))
    if getattr(em, 'RULE', None) != rule or 'C09' not in getattr(
            em, 'PROPS', ()) or not hasattr(em, 'run'):
        raise AnalysisError('%s: %s not in the loop form and %s does not '
                            'provide %s' % (q, piece, modname, rule))
    ctx.ok('C09.R5', fi, None, '%s: not in the loop form, decided on the '
           'values of the model cores by %s' % (piece, rule))


def r5(ctx):
    from . import _hexgeom as H
    from ..poly import Rat, from_ast
    c = Rat.const
    for q in ('Core._calculate_sc_wp', 'Core._calculate_asm_sc_wp'):
        fi = ctx.repo.func('core', q)
        hp = U.single_def(fi.node, 'hex_perim')
        if hp is None:
            for piece in ('hexagon perimeter', 'increments', 'wrap-around'):
                _r5_defer(ctx, fi, q, piece)
            continue
        at = {'self.duct_oftf': 'OFTF', 'np.sqrt(3)': 'r3', '_sqrt3': 'r3',
              'math.sqrt(3)': 'r3'}
        hv = from_ast(hp, at, auto=True)
        ctx.require(H.is_zero(hv - c(6) * Rat.sym('OFTF') / H.R3), 'C09.R5',
                    fi, hp, 'hexagon perimeter = 6 duct_oftf / sqrt3',
                    key=fi.full + ' | hex perimeter')
        # the per-assembly loop
        outer = [l for l in fi.node.body if isinstance(l, ast.For)]
        found = False
        for lo in outer:
            inner = [l for l in lo.body if isinstance(l, ast.For)
                     and isinstance(l.target, ast.Name)]
            for li in inner:
                iv = li.target.id
                it = li.iter
                m = match('range(len(Q_x) - 1)', it)
                if m is None:
                    continue
                X = src(m['Q_x'])
                incs = [st for st in walk_no_nested(li)
                        if isinstance(st, (ast.Assign, ast.AugAssign))
                        and X in src(st.value)]
                if len(incs) != 1:
                    _r5_defer(ctx, fi, q, 'increments')
                else:
                    try:
                        v = from_ast(incs[0].value, {
                            '%s[%s + 1]' % (X, iv): 'b',
                            '%s[%s]' % (X, iv): 'a'}, auto=True)
                        ok = v.equals(Rat.sym('b') - Rat.sym('a'))
                    except Exception:
                        ok = False
                    ctx.require(ok, 'C09.R5', fi, incs[0],
                                'each cell gets the distance between its two '
                                'boundaries %s[i+1] - %s[i], for all '
                                'consecutive boundaries' % (X, X),
                                key=fi.full + ' | increment')
                # wrap-around: the first store after the inner loop
                after = lo.body[lo.body.index(li) + 1:]
                wr = [st for st in after
                      if isinstance(st, (ast.Assign, ast.AugAssign))
                      and X in src(st.value)]
                if len(wr) != 1:
                    _r5_defer(ctx, fi, q, 'wrap-around')
                else:
                    w = from_ast(wr[0].value, {
                        'hex_perim': 'Hx', X + '[-1]': 'xl',
                        X + '[len(%s) - 1]' % X: 'xl', X + '[0]': 'x0'},
                        auto=True)
                    res = w + Rat.sym('xl') - Rat.sym('x0') - Rat.sym('Hx')
                    ctx.require(res.is_zero(), 'C09.R5', fi, wr[0],
                                'the closing cell must get the rest of the '
                                'perimeter: W + (%s[-1] - %s[0]) = hex_perim '
                                '(residual %r)' % (X, X, res.n),
                                key=fi.full + ' | wrap-around')
                found = True
        if not found:
            for piece in ('increments', 'wrap-around'):
                _r5_defer(ctx, fi, q, piece)


def r6(ctx):
    """Symmetry of the gap adjacency: in Core._find_adjacent_sc every link is
    written in both directions, each direction under its own membership
    guard only.  A direction whose store is additionally conditioned on the
    OTHER direction (or on any other test of the table) can be skipped while
    its mirror exists -- the table becomes asymmetric."""
    fi = ctx.repo.func('core', 'Core._find_adjacent_sc')
    tab = None
    for a in ast.walk(fi.node):
        if isinstance(a, ast.Return) and isinstance(a.value, ast.Name):
            tab = a.value.id
    if tab is None:
        raise AnalysisError('_find_adjacent_sc: returned table')
    keep = tuple(fi.params) + ('asm_sc', 'side', 'sci', tab, 'ai')
    stores = []
    for t, st in U.stores(fi.node):
        if isinstance(t, ast.Subscript) and src(t.value) == tab and \
                isinstance(t.slice, ast.Tuple) and len(t.slice.elts) == 2 \
                and isinstance(st, ast.Assign):
            row = U.value_at(fi.node, t.slice.elts[0], st.lineno, keep=keep)
            val = U.value_at(fi.node, st.value, st.lineno, keep=keep)
            stores.append((st, ' '.join(src(row).split()),
                           ' '.join(src(val).split())))
    if len(stores) < 2:
        raise AnalysisError('_find_adjacent_sc: expected link stores, '
                            'found %d' % len(stores))
    links = {}
    for st, row, val in stores:
        if not row.endswith(' - 1'):
            ctx.violation('C09.R6', fi, st, 'link store row is not <cell> - 1',
                          key='%s | row form %s' % (fi.full, row))
            continue
        a = row[:-4]
        own = '%s not in %s[%s]' % (val, tab, row)
        tests = []
        for tst, pol in U.guards(st):
            if tab not in {x.id for x in ast.walk(tst)
                           if isinstance(x, ast.Name)}:
                continue
            e = U.value_at(fi.node, tst, tst.lineno, keep=keep)
            tests.append((' '.join(src(e).split()), bool(pol)))
        ok = tests == [(own, True)]
        ctx.require(ok, 'C09.R6', fi, st,
                    'the link %s <- %s must be written exactly when it is '
                    'missing (`%s`); it is conditioned on %s, so it can be '
                    'skipped while the opposite direction exists and the '
                    'adjacency becomes one-way'
                    % (a, val, own, [t for t, p in tests if t != own]
                       or 'nothing'),
                    key='%s | guard of %s <- %s' % (fi.full, a, val))
        links[(a, val)] = st
    for (a, b), st in links.items():
        ctx.require((b, a) in links, 'C09.R6', fi, st,
                    'link %s <- %s has no mirror store %s <- %s'
                    % (a, b, b, a), key='%s | mirror of %s <- %s'
                    % (fi.full, a, b))
