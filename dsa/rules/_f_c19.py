"""C19.R8 -- the hot spot of a location is built from the temperature rises
stored with the nominal peak of THAT location (and that assembly type).

Clause.  `hotspot.analyze` computes, per assembly type A and per requested
location K, a row of hot-spot temperatures that is stored under K and that
uses the sigma levels / subfactor table of options[A][K].  Every array of
nominal rises consumed by that calculation -- the `dT` handed to
`calculate_temps`, the `dT` handed to `_evaluate_hcf_expr`, and every other
read of a rises array inside the pass of the location loop -- must be the
*whole* result of `_get_peak_dt(<reactor>, A, K)`: the profile
`Assembly._peak['pin'][K][2]` recorded at the pin and height where the
nominal peak of K occurred.  The rises of another location (each location
has its own peak pin / height), of another assembly type, a slice or a
combination of such arrays, or an array pulled in an earlier pass of the loop
make the "hot spot" differ from the nominal peak at unit subfactors.

Decision.  Values, not source forms: a small symbolic evaluator over the
statement CFG of `analyze` (reaching definitions; every local is replaced by
the right-hand sides that can reach the use; loop variables and parameters
become symbols tagged with their binder; `{k: f(k) for k in S}[x]` is
beta-reduced; conditional expressions and several reaching definitions give
several alternatives, each of which is judged).  Nothing is executed.
"""
import ast
import itertools
import re

from ..core import (AnalysisError, call_name, const, enclosing_stmt, parent,
                    src, walk_no_nested)
from ..cfg import cfg_of
from ..dataflow import _in_body, _loads, path_conditions

PROPS = ('C19',)
RULE = 'C19.R8'
SOURCE = '_get_peak_dt'
MAX_ALT = 48


def _s(n):
    return ' '.join(src(n).split())


def _plain(text):
    """Tagged text -> readable text (binder tags removed)."""
    return re.sub(r'@[A-Za-z]\w*', '', text)


# ---------------------------------------------------------------------------
# expression copies that remember the node they were copied from


def _clone(n, repl=None):
    """Parent-link free copy of an expression; Name loads whose id() is in
    `repl` are replaced by (a copy of) the mapped expression.  Call nodes keep
    a pointer `_orig` to the node of the loaded tree they stem from."""
    if repl and isinstance(n, ast.Name) and id(n) in repl:
        return _clone(repl[id(n)])
    new = n.__class__()
    for f, v in ast.iter_fields(n):
        if isinstance(v, ast.AST):
            v = _clone(v, repl)
        elif isinstance(v, list):
            v = [_clone(x, repl) if isinstance(x, ast.AST) else x for x in v]
        setattr(new, f, v)
    if isinstance(n, ast.Call):
        new._orig = getattr(n, '_orig', n)
    return new


def _rename(n, old, new_expr):
    """Copy of n with every Name `old` replaced by new_expr (used for the
    bound variable of a comprehension: no capture is possible because all
    free names of n carry a binder tag `x@...`)."""
    if isinstance(n, ast.Name) and n.id == old:
        return _clone(new_expr)
    out = n.__class__()
    for f, v in ast.iter_fields(n):
        if isinstance(v, ast.AST):
            v = _rename(v, old, new_expr)
        elif isinstance(v, list):
            v = [_rename(x, old, new_expr) if isinstance(x, ast.AST) else x
                 for x in v]
        setattr(out, f, v)
    if isinstance(n, ast.Call):
        out._orig = getattr(n, '_orig', n)
    return out


# ---------------------------------------------------------------------------
# symbolic values over the CFG


class Val:
    __slots__ = ('expr', 'carried')

    def __init__(self, expr, carried=False):
        self.expr = expr
        self.carried = carried

    @property
    def text(self):
        return _s(self.expr)


class Flow:
    """Reaching definitions and symbolic expansion for one function."""

    def __init__(self, fi):
        self.fi = fi
        self.g = cfg_of(fi)
        a = fi.node.args
        self.params = {x.arg for x in a.posonlyargs + a.args + a.kwonlyargs}
        if a.vararg:
            self.params.add(a.vararg.arg)
        if a.kwarg:
            self.params.add(a.kwarg.arg)
        self.binds = {}             # cfg node id -> set of names bound there
        self.locals = set()
        for n in self.g.nodes:
            b = self._bound_at(n)
            if b:
                self.binds[n.id] = b
                self.locals |= b
        # loop headers and the nodes of their bodies
        self.loops = [n for n in self.g.nodes
                      if (n.kind == 'loop') or (
                          n.kind == 'test' and isinstance(n.stmt, ast.While))]
        self._rd = {}
        self._val = {}

    @staticmethod
    def _names(t):
        return {x.id for x in ast.walk(t) if isinstance(x, ast.Name)}

    def _bound_at(self, n):
        out = set()
        st = n.stmt
        if n.kind == 'stmt':
            if isinstance(st, (ast.Assign, ast.AugAssign, ast.AnnAssign)):
                ts = st.targets if isinstance(st, ast.Assign) else [st.target]
                for t in ts:
                    for e in _flat(t):
                        if isinstance(e, ast.Name):
                            out.add(e.id)
            elif isinstance(st, ast.Delete):
                out |= {t.id for t in st.targets if isinstance(t, ast.Name)}
            elif isinstance(st, (ast.Import, ast.ImportFrom)):
                out |= {(x.asname or x.name).split('.')[0] for x in st.names}
            elif isinstance(st, (ast.FunctionDef, ast.AsyncFunctionDef,
                                 ast.ClassDef)):
                out.add(st.name)
            if not isinstance(st, (ast.FunctionDef, ast.AsyncFunctionDef,
                                   ast.ClassDef)):
                for x in ast.walk(st):
                    if isinstance(x, ast.NamedExpr):
                        out |= self._names(x.target)
        elif n.kind == 'loop':
            out |= self._names(st.target)
        elif n.kind == 'with':
            for it in st.items:
                if it.optional_vars is not None:
                    out |= self._names(it.optional_vars)
        elif n.kind == 'except' and st.name:
            out.add(st.name)
        elif n.kind == 'test':
            for x in ast.walk(n.expr):
                if isinstance(x, ast.NamedExpr):
                    out |= self._names(x.target)
        return out

    def loops_around(self, node):
        return [h for h in self.loops if _in_body(node, h.stmt)]

    def node_of(self, astnode):
        n = self.g.node_containing(astnode)
        if n is None:
            raise AnalysisError('%s: no CFG node for `%s` (unreachable code?)'
                                % (self.fi.full, _s(astnode)[:60]))
        return n

    def reaching(self, name, node):
        """[(binding node | None for 'function entry', carried)]: bindings of
        `name` that can reach the entry of `node`.  carried = the value was
        bound in an EARLIER pass of a loop whose body contains `node`."""
        key = (name, node.id)
        if key in self._rd:
            return self._rd[key]
        around = {h.id: h for h in self.loops_around(node)}
        out = {}
        seen = set()

        def crossed(p, h, c):
            """Loops (containing the use) whose back edge p -> h is taken."""
            if h.id in around and _in_body(p, h.stmt):
                return c | {h.id}
            return c

        stack = []
        for p in node.pred:
            if node.kind == 'loop' and _in_body(p, node.stmt):
                continue    # the iterable is evaluated once, on loop entry
            stack.append((p, crossed(p, node, frozenset())))
        while stack:
            n, c = stack.pop()
            if (n.id, c) in seen:
                continue
            seen.add((n.id, c))
            if name in self.binds.get(n.id, ()):
                # bound in an earlier pass only if the binding itself lies in
                # the body of a loop that was re-entered on the way back
                carried = any(_in_body(n, around[h].stmt) for h in c)
                out[(n.id, carried)] = (n, carried)
                continue
            if n is self.g.entry:
                out[(None, False)] = (None, False)
                continue
            for p in n.pred:
                stack.append((p, crossed(p, n, c)))
        res = sorted(out.values(), key=lambda t: (-1 if t[0] is None
                                                  else t[0].id, t[1]))
        self._rd[key] = res
        return res

    # -- expansion --
    def resolve(self, expr, node, stack=()):
        """Alternatives [Val] of `expr` evaluated on entry of CFG `node`."""
        free = _loads(expr)
        names = []
        for nm in free:
            if nm.id not in names:
                names.append(nm.id)
        alts = []
        for name in names:
            alts.append(self.name_values(name, node, stack))
        out = []
        n_comb = 1
        for a in alts:
            n_comb *= len(a)
        if n_comb > MAX_ALT:
            raise AnalysisError('%s: more than %d alternative values for `%s`'
                                % (self.fi.full, MAX_ALT, _s(expr)[:80]))
        for combo in itertools.product(*alts):
            by_name = dict(zip(names, combo))
            repl = {id(nm): by_name[nm.id].expr for nm in free}
            e = _simplify(_clone(expr, repl))
            carried = any(v.carried for v in combo)
            for x in _split_ifexp(e):
                out.append(Val(x, carried))
        return _dedupe(out)

    def name_values(self, name, node, stack=()):
        key = (name, node.id)
        if key in self._val and not stack:
            return self._val[key]
        if name not in self.locals:
            if name in self.params:
                return [Val(_sym(name, 'p'))]
            # module-level names / builtins keep their spelling
            return [Val(ast.Name(id=name, ctx=ast.Load()))]
        out = []
        defs = self.reaching(name, node)
        real = [d for d in defs if d[0] is not None]
        for d, carried in real:
            if (name, d.id) in stack or len(stack) > 40:
                out.append(Val(_sym(name, 'cyc%d' % d.id), carried))
                continue
            for v in self._binding_values(name, d, stack + ((name, d.id),)):
                out.append(Val(v.expr, carried or v.carried))
        if not real:
            if name in self.params:
                out.append(Val(_sym(name, 'p')))
            else:
                out.append(Val(_sym(name, 'undef')))
        elif name in self.params and any(d[0] is None for d in defs):
            out.append(Val(_sym(name, 'p')))
        out = _dedupe(out)
        if len(out) > MAX_ALT:
            raise AnalysisError('%s: more than %d reaching values for `%s`'
                                % (self.fi.full, MAX_ALT, name))
        if not stack:
            self._val[key] = out
        return out

    def _binding_values(self, name, d, stack):
        st = d.stmt
        if d.kind == 'loop':
            tg, it = st.target, st.iter
            if isinstance(tg, ast.Tuple) and len(tg.elts) == 2 and all(
                    isinstance(e, ast.Name) for e in tg.elts) and \
                    isinstance(it, ast.Call) and isinstance(
                        it.func, ast.Attribute) and it.func.attr == 'items' \
                    and not it.args and tg.elts[1].id == name:
                # for key, value in X.items():  value == X[key]
                key = _sym(tg.elts[0].id, 'L%d' % d.id)
                return [Val(ast.Subscript(value=v.expr, slice=key,
                                          ctx=ast.Load()), v.carried)
                        for v in self.resolve(it.func.value, d, stack)]
            return [Val(_sym(name, 'L%d' % d.id))]
        if d.kind == 'stmt' and isinstance(st, ast.Assign) and \
                len(st.targets) == 1:
            t = st.targets[0]
            if isinstance(t, ast.Name):
                return self.resolve(st.value, d, stack)
            if isinstance(t, (ast.Tuple, ast.List)) and isinstance(
                    st.value, (ast.Tuple, ast.List)) and len(t.elts) == len(
                        st.value.elts) and not any(isinstance(
                            e, ast.Starred) for e in t.elts + st.value.elts):
                for te, ve in zip(t.elts, st.value.elts):
                    if isinstance(te, ast.Name) and te.id == name:
                        return self.resolve(ve, d, stack)
        if d.kind == 'stmt' and isinstance(st, ast.AugAssign) and isinstance(
                st.target, ast.Name):
            prev = self.name_values(name, d, stack)
            rhs = self.resolve(st.value, d, stack)
            if len(prev) * len(rhs) > MAX_ALT:
                raise AnalysisError('%s: too many values for `%s`'
                                    % (self.fi.full, name))
            return [Val(ast.BinOp(left=p.expr, op=st.op, right=r.expr),
                        p.carried or r.carried) for p in prev for r in rhs]
        if d.kind == 'stmt' and isinstance(st, ast.AnnAssign) and \
                st.value is not None and isinstance(st.target, ast.Name):
            return self.resolve(st.value, d, stack)
        # tuple unpacking of a call, with-item, import, def, del ...: opaque
        return [Val(_sym(name, 'o%d' % d.id))]


def _flat(t):
    if isinstance(t, (ast.Tuple, ast.List)):
        out = []
        for e in t.elts:
            out += _flat(e)
        return out
    if isinstance(t, ast.Starred):
        return _flat(t.value)
    return [t]


def _sym(name, tag):
    return ast.Name(id='%s@%s' % (name, tag), ctx=ast.Load())


def _dedupe(vals):
    seen, out = set(), []
    for v in vals:
        k = (v.text, v.carried)
        if k not in seen:
            seen.add(k)
            out.append(v)
    return out


def _split_ifexp(e):
    """A conditional expression anywhere on the spine of the value (through
    subscripts / wrapper calls) yields one alternative per branch."""
    if isinstance(e, ast.IfExp):
        return _split_ifexp(e.body) + _split_ifexp(e.orelse)
    if isinstance(e, ast.Subscript):
        return [ast.Subscript(value=v, slice=e.slice, ctx=ast.Load())
                for v in _split_ifexp(e.value)]
    return [e]


def _simplify(e):
    """{k: V(k) for k in S}[x] -> V(x);  {'a': X, ...}['a'] -> X."""
    for f, v in list(ast.iter_fields(e)):
        if isinstance(v, ast.AST):
            setattr(e, f, _simplify(v))
        elif isinstance(v, list):
            setattr(e, f, [_simplify(x) if isinstance(x, ast.AST) else x
                           for x in v])
    if isinstance(e, ast.Subscript):
        v = e.value
        if isinstance(v, ast.DictComp) and len(v.generators) == 1 and \
                isinstance(v.generators[0].target, ast.Name) and \
                isinstance(v.key, ast.Name) and \
                v.key.id == v.generators[0].target.id and \
                not isinstance(e.slice, (ast.Slice, ast.Tuple)):
            return _simplify(_rename(v.value, v.key.id, e.slice))
        if isinstance(v, ast.Dict) and const(e.slice) is not None and all(
                k is not None and const(k) is not None for k in v.keys):
            hit = [x for k, x in zip(v.keys, v.values)
                   if const(k) == const(e.slice)]
            if len(hit) == 1:
                return hit[0]
    return e


# ---------------------------------------------------------------------------
# recognising "the whole rises array of (A, K)"


_WRAP_CALLS = ('np.array', 'np.asarray', 'np.copy', 'np.ascontiguousarray',
               'numpy.array', 'numpy.asarray', 'numpy.copy')


def _full_slice(sl):
    def full(x):
        return (isinstance(x, ast.Slice) and x.lower is None and
                x.upper is None and x.step is None) or (
                    isinstance(x, ast.Constant) and x.value is Ellipsis)
    if isinstance(sl, ast.Tuple):
        return bool(sl.elts) and all(full(x) for x in sl.elts)
    return full(sl)


def _strip_identity(e):
    """Remove wrappers that return the same array (copy / asarray / [:])."""
    while True:
        if isinstance(e, ast.Call) and call_name(e) in _WRAP_CALLS and \
                len(e.args) == 1 and not e.keywords:
            e = e.args[0]
        elif isinstance(e, ast.Call) and isinstance(e.func, ast.Attribute) \
                and e.func.attr == 'copy' and not e.args and not e.keywords:
            e = e.func.value
        elif isinstance(e, ast.Subscript) and _full_slice(e.slice):
            e = e.value
        else:
            return e


def _core(e):
    """The array a value is a view / copy of (any subscripts removed)."""
    while True:
        e2 = _strip_identity(e)
        if isinstance(e2, ast.Subscript):
            e2 = e2.value
        if e2 is e:
            return e
        e = e2


def _is_source(e):
    return isinstance(e, ast.Call) and call_name(e) == SOURCE


def _bind(call, params):
    """{param: argument expression} for a call of a package function."""
    out = {}
    for i, a in enumerate(call.args):
        if isinstance(a, ast.Starred):
            return None
        if i < len(params):
            out[params[i]] = a
    for k in call.keywords:
        if k.arg is None:
            return None
        out[k.arg] = k.value
    return out


# ---------------------------------------------------------------------------


class Context:
    """One hot-spot calculation: the calculate_temps call, the key K its
    result is stored under, the assembly type A of its options, the loop L
    that enumerates K."""

    def __init__(self, call, K, A, L, store):
        self.call, self.K, self.A, self.L, self.store = call, K, A, L, store


def _result_key(flow, call):
    """(key expression, statement) of the keyed store that receives the
    result of `call` (directly or through one local)."""
    fi = flow.fi

    def keyed(expr_node):
        """expr_node is stored by its parent construct under a key?"""
        p = parent(expr_node)
        if isinstance(p, (ast.List, ast.Tuple)):
            expr_node, p = p, parent(p)
        if isinstance(p, ast.Call) and isinstance(p.func, ast.Attribute) \
                and p.func.attr in ('append', 'extend') and any(
                    a is expr_node for a in p.args) and isinstance(
                        p.func.value, ast.Subscript):
            return p.func.value.slice, enclosing_stmt(p)
        if isinstance(p, ast.BinOp) and isinstance(p.op, ast.Add):
            p = parent(p)
        if isinstance(p, ast.AugAssign) and isinstance(p.target,
                                                       ast.Subscript):
            return p.target.slice, p
        if isinstance(p, ast.Assign) and len(p.targets) == 1 and isinstance(
                p.targets[0], ast.Subscript):
            return p.targets[0].slice, p
        return None

    hit = keyed(call)
    if hit:
        return hit
    st = enclosing_stmt(call)
    if isinstance(st, ast.Assign) and len(st.targets) == 1 and isinstance(
            st.targets[0], ast.Name) and st.value is call:
        tmp = st.targets[0].id
        dnode = flow.node_of(st)
        hits = []
        for n in walk_no_nested(fi.node):
            if isinstance(n, ast.Name) and n.id == tmp and isinstance(
                    n.ctx, ast.Load):
                un = flow.node_of(n)
                rd = flow.reaching(tmp, un)
                if any(d is dnode for d, _ in rd):
                    h = keyed(n)
                    if h:
                        if not all(d is dnode for d, _ in rd):
                            raise AnalysisError(
                                '%s: `%s` stored under a key has several '
                                'reaching definitions' % (fi.full, tmp))
                        hits.append(h)
        if len(hits) == 1:
            return hits[0]
    raise AnalysisError('%s: the result of `%s` is not stored under a '
                        'location key in a form the rule reads'
                        % (fi.full, _s(call)[:70]))


def _assembly_key(vals):
    """A in <options>['hotspot'][A][K]... of the expanded option look-ups."""
    found = set()
    for v in vals:
        for x in ast.walk(v.expr):
            if isinstance(x, ast.Subscript) and isinstance(
                    x.value, ast.Subscript) and const(
                        x.value.slice) == 'hotspot':
                found.add(_s(x.slice))
    return found


def _contexts(ctx, flow, calc):
    fi = flow.fi
    calls = [c for c in walk_no_nested(fi.node) if isinstance(c, ast.Call)
             and call_name(c) == calc.name]
    if not calls:
        raise AnalysisError('%s: call of %s vanished' % (fi.full, calc.name))
    out = []
    for c in calls:
        node = flow.node_of(c)
        kexpr, store = _result_key(flow, c)
        kv = flow.resolve(kexpr, flow.node_of(store))
        if len(kv) != 1:
            raise AnalysisError('%s: location key `%s` of the stored result '
                                'has %d values' % (fi.full, _s(kexpr),
                                                   len(kv)))
        K = kv[0].text
        loops = [h for h in flow.loops_around(node)
                 if re.search(r'@L%d\b' % h.id, K)]
        if not loops:
            raise AnalysisError('%s: location key `%s` of the stored result '
                                'is not enumerated by a loop around the '
                                'calculation' % (fi.full, _plain(K)))
        # innermost = the one whose body is contained in all the others
        L = [h for h in loops if all(h is o or _in_body(h, o.stmt)
                                     for o in loops)][0]
        b = _bind(c, calc.params)
        if b is None:
            raise AnalysisError('%s: starred call of %s' % (fi.full,
                                                            calc.name))
        A = set()
        for p in calc.params[3:5]:
            if p in b:
                A |= _assembly_key(flow.resolve(b[p], node))
        if len(A) != 1:
            raise AnalysisError(
                '%s: the sigma levels handed to %s are not read from '
                '<options>[\'hotspot\'][<assembly type>][<location>] of one '
                'assembly type (found %s)' % (fi.full, calc.name,
                                              sorted(_plain(a) for a in A)))
        out.append(Context(c, K, A.pop(), L, store))
    return out


class Judge:
    def __init__(self, ctx, flow, source):
        self.ctx, self.flow, self.source = ctx, flow, source
        self.fi = flow.fi
        self.reactor = '%s@p' % self.fi.params[0]

    def key_equal(self, kexpr, cx, call):
        """The location argument of a rises call denotes K."""
        if _s(kexpr) == cx.K:
            return True
        c = const(kexpr)
        orig = getattr(call, '_orig', None)
        if not isinstance(c, str) or orig is None or parent(orig) is None:
            return False
        # a literal location under a dominating test `K == literal`
        for test, pol in path_conditions(self.fi, orig):
            if not (isinstance(test, ast.Compare) and len(test.ops) == 1):
                continue
            op, l, r = test.ops[0], test.left, test.comparators[0]
            if const(l) is not None:
                l, r = r, l
            lit = const(r)
            if isinstance(op, ast.In) and isinstance(r, (ast.Tuple, ast.List,
                                                         ast.Set)) and \
                    len(r.elts) == 1:
                lit, op = const(r.elts[0]), ast.Eq()
            if lit != c:
                continue
            if not ((isinstance(op, ast.Eq) and pol) or
                    (isinstance(op, ast.NotEq) and not pol)):
                continue
            tn = self.flow.g.node_containing(test)
            if tn is None:
                continue
            lv = self.flow.resolve(l, tn)
            if len(lv) == 1 and lv[0].text == cx.K and not lv[0].carried:
                return True
        return False

    def why_not_own(self, val, cx):
        """None if `val` is the whole rises array of (A, K) of this pass,
        else the reason."""
        e = _strip_identity(val.expr)
        core = _core(val.expr)
        if not _is_source(core):
            return 'it is not a result of %s' % SOURCE
        b = _bind(core, self.source.params)
        if b is None or any(p not in b for p in self.source.params[:3]):
            return 'the arguments of %s cannot be read' % SOURCE
        r_, a_, k_ = (b[p] for p in self.source.params[:3])
        if not self.key_equal(k_, cx, core):
            return ('these are the rises stored with the nominal peak of '
                    'location `%s`, not of `%s` (each location has its own '
                    'peak pin and height)' % (_plain(_s(k_)), _plain(cx.K)))
        if _s(a_) != cx.A:
            return ('these are the rises of assembly type `%s`, not of `%s`'
                    % (_plain(_s(a_)), _plain(cx.A)))
        if _s(r_) != self.reactor:
            return 'the rises are read from `%s`, not from the reactor `%s`' \
                % (_plain(_s(r_)), self.fi.params[0])
        if val.carried:
            return ('the array was pulled in an earlier pass of the loop '
                    '(another location / assembly type)')
        if not _is_source(e):
            return ('only a part / rearrangement of the rises array is used '
                    '(`%s`)' % _plain(_s(val.expr))[:120])
        return None

    def judge(self, vals, cx, at, what, key, strict):
        """strict: every alternative must be own rises; otherwise only the
        alternatives that are rises arrays at all are judged."""
        bad = []
        n_rises = 0
        for v in vals:
            is_r = _is_source(_core(v.expr))
            n_rises += is_r
            if not strict and not is_r:
                continue
            why = self.why_not_own(v, cx)
            if why:
                bad.append((v, why))
        if not strict and n_rises == 0:
            return False
        if bad:
            v, why = bad[0]
            self.ctx.violation(
                RULE, self.fi, at,
                'the hot spot of a location must be built from the '
                'temperature rises stored with the nominal peak of that '
                'location and assembly type, %s(%s, %s, %s), whole: %s has '
                'the value `%s` -- %s'
                % (SOURCE, self.fi.params[0], _plain(cx.A), _plain(cx.K),
                   what, _plain(v.text)[:160], why),
                key='%s | %s' % (self.fi.full, key))
        else:
            self.ctx.ok(RULE, self.fi, at, '%s = %s'
                        % (what, _plain(vals[0].text)[:80]))
        return True


def run(ctx):
    repo = ctx.repo
    fi = repo.func('hotspot', 'analyze')
    source = repo.func('hotspot', SOURCE)
    calc = repo.func('hotspot', 'calculate_temps')
    evl = repo.func('hotspot', '_evaluate_hcf_expr')
    sa = source.node.args
    if len(source.params) != 3 or sa.vararg or sa.kwarg or sa.kwonlyargs:
        # a further parameter could select the profile
        raise AnalysisError('hotspot.%s no longer takes exactly (reactor, '
                            'assembly type, location): %s cannot read its '
                            'calls' % (SOURCE, RULE))
    if len(calc.params) < 5 or len(evl.params) < 3 or not fi.params:
        raise AnalysisError('hotspot: signature of calculate_temps / '
                            '_evaluate_hcf_expr / analyze changed')
    # a rises call the value tracking cannot see: inside a nested function /
    # lambda of analyze
    flat = {id(c) for c in walk_no_nested(fi.node)}
    for c in ast.walk(fi.node):
        if isinstance(c, ast.Call) and call_name(c) == SOURCE and \
                id(c) not in flat:
            raise AnalysisError('%s: %s is called inside a nested function; '
                                'the value tracking of %s does not model '
                                'that' % (fi.full, SOURCE, RULE))
    flow = Flow(fi)
    J = Judge(ctx, flow, source)
    cxs = _contexts(ctx, flow, calc)
    n = 0
    seen = set()
    for cx in cxs:
        # (1) the rises handed to calculate_temps
        b = _bind(cx.call, calc.params)
        dt = b.get(calc.params[1])
        if dt is None:
            raise AnalysisError('%s: %s called without rises'
                                % (fi.full, calc.name))
        J.judge(flow.resolve(dt, flow.node_of(cx.call)), cx, cx.call,
                'the rises handed to %s' % calc.name,
                'rises of %s' % calc.name, True)
        seen.add(id(dt))
        n += 1
        # (2) the rises the dT-dependent subfactors are evaluated with
        ev_calls = [c for c in walk_no_nested(cx.L.stmt)
                    if isinstance(c, ast.Call) and call_name(c) == evl.name]
        if not ev_calls:
            ctx.violation(RULE, fi, cx.call,
                          'the dT-dependent subfactor expressions are not '
                          'evaluated (%s is not called) in the calculation '
                          'of a location' % evl.name,
                          key='%s | expressions evaluated' % fi.full)
        for c in ev_calls:
            eb = _bind(c, evl.params)
            edt = None if eb is None else eb.get(evl.params[2])
            if edt is None:
                raise AnalysisError('%s: %s called without rises'
                                    % (fi.full, evl.name))
            J.judge(flow.resolve(edt, flow.node_of(c)), cx, c,
                    'the rises handed to %s' % evl.name,
                    'rises of %s' % evl.name, True)
            seen.add(id(edt))
            n += 1
        # (3) every other read of a rises array, and every direct rises
        # call, inside the pass of the location loop
        for node in flow.g.nodes:
            if node.kind in ('entry', 'exit', 'abort') or not _in_body(
                    node, cx.L.stmt):
                continue
            for part in flow.g.header_parts(node):
                if part is None or isinstance(part, (
                        ast.FunctionDef, ast.AsyncFunctionDef, ast.ClassDef)):
                    continue
                for c in ast.walk(part):
                    if isinstance(c, ast.Call) and call_name(c) == SOURCE \
                            and id(c) in flat and id(c) not in seen \
                            and not _in_comprehension(c, part):
                        seen.add(id(c))
                        J.judge(flow.resolve(c, node), cx, c,
                                'the call', 'call %s' % _call_desc(c), True)
                        n += 1
                for nm in _loads(part):
                    if id(nm) in seen or nm.id not in flow.locals:
                        continue
                    seen.add(id(nm))
                    if J.judge(flow.name_values(nm.id, node), cx,
                               enclosing_stmt(nm) if not isinstance(
                                   enclosing_stmt(nm), (ast.For, ast.If,
                                                        ast.While))
                               else nm,
                               'the rises array `%s`' % nm.id,
                               'read of rises %s' % _use_desc(nm), False):
                        n += 1
    if n < 3:
        raise AnalysisError('%s examined only %d uses of the nominal rises '
                            'in %s (rule went blind)' % (RULE, n, fi.full))
    ctx.min_instances(RULE, 3)
    ctx.decided.append(
        'R8 every array of nominal rises used in the hot-spot calculation '
        'of (assembly type A, location K) -- handed to calculate_temps, to '
        '_evaluate_hcf_expr, or read anywhere in the pass of the location '
        'loop -- is the whole result of _get_peak_dt(reactor, A, K), pulled '
        'in the same pass (symbolic expansion over the CFG of analyze)')


def _in_comprehension(c, stop):
    """The call sits inside a comprehension (its arguments may read the
    comprehension's own variable): it is judged through the value it flows
    into, at the consumers."""
    p = parent(c)
    while p is not None and p is not stop:
        if isinstance(p, (ast.ListComp, ast.SetComp, ast.DictComp,
                          ast.GeneratorExp)):
            return True
        p = parent(p)
    return False


def _call_desc(c):
    return ' '.join(_s(a) for a in c.args[2:3]) or 'without location'


def _use_desc(nm):
    """Stable description of a read: the name and the kind of construct that
    reads it (no line numbers)."""
    p = parent(nm)
    kind = type(p).__name__
    if isinstance(p, ast.Call):
        kind = 'argument of %s' % (call_name(p) or 'call')
    elif isinstance(p, ast.Attribute):
        kind = 'attribute %s' % p.attr
    elif isinstance(p, ast.Subscript):
        kind = 'subscript'
    return '%s (%s)' % (nm.id, kind)
